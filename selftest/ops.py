"""Mutation / benign-rewrite operators for the checker self-test.

Every operator is computed against the CURRENT tree (AST positions), never from stored
source fragments.  An operator yields (relpath, new_source).  Variants are only parsed
(`compile`) and analysed, never executed.
"""
from __future__ import annotations
import ast
from typing import Callable, List, Optional, Tuple
from sa.model import Repo, unparse, norm_stmt, walk_no_nested


class Op:
    def __init__(self, name: str, kind: str, qual: str, find: Callable, edit: Callable, expect: Optional[str] = None, note: str = ''):
        self.name = name            # unique within the property
        self.kind = kind            # 'break' | 'benign'
        self.qual = qual            # function (or 'module:<modname>') the edit is located in
        self.find = find            # (fn ast) -> node
        self.edit = edit            # (src lines helper, node) -> replacement text for node
        self.expect = expect        # rule id expected to fire for 'break'
        self.note = note

    def apply(self, repo: Repo) -> Tuple[str, str]:
        if self.qual.startswith('module:'):
            m = repo.module(self.qual[7:])
            root = m.tree
        else:
            f = repo.func(self.qual)
            m = f.module
            root = f.node
        node = self.find(root)
        if node is None:
            raise LookupError(f"operator {self.name}: target not found in {self.qual}")
        new = self.edit(Src(m.source), node)
        return m.relpath, new


class Src:
    def __init__(self, text: str):
        self.text = text
        self.lines = text.split('\n')
        self.off = [0]
        for l in self.lines:
            self.off.append(self.off[-1] + len(l) + 1)

    def span(self, node) -> Tuple[int, int]:
        a = self.off[node.lineno - 1] + len(self.lines[node.lineno - 1].encode()[:node.col_offset].decode(errors='ignore'))
        b = self.off[node.end_lineno - 1] + len(self.lines[node.end_lineno - 1].encode()[:node.end_col_offset].decode(errors='ignore'))
        return a, b

    def seg(self, node) -> str:
        a, b = self.span(node)
        return self.text[a:b]

    def replace(self, node, new: str) -> str:
        a, b = self.span(node)
        return self.text[:a] + new + self.text[b:]

    def indent(self, node) -> str:
        line = self.lines[node.lineno - 1]
        return line[:len(line) - len(line.lstrip())]

    def insert_before(self, node, stmt_text: str) -> str:
        ind = self.indent(node)
        a = self.off[node.lineno - 1]
        return self.text[:a] + ind + stmt_text + '\n' + self.text[a:]

    def insert_after(self, node, stmt_text: str) -> str:
        ind = self.indent(node)
        b = self.off[node.end_lineno]
        return self.text[:b] + ind + stmt_text + '\n' + self.text[b:]


# ------------------------------------------------------------------ finders
def stmt(pred: Callable[[ast.AST], bool], nth: int = 0):
    def f(root):
        hits = [n for n in ast.walk(root) if isinstance(n, ast.stmt) and pred(n)]
        hits.sort(key=lambda n: (n.lineno, n.col_offset))
        return hits[nth] if len(hits) > nth else None
    return f


def stmt_text(text: str, nth: int = 0, prefix=False):
    if prefix:
        return stmt(lambda n: norm_stmt(n).startswith(text), nth)
    return stmt(lambda n: norm_stmt(n) == text, nth)


def expr(pred: Callable[[ast.AST], bool], nth: int = 0):
    def f(root):
        hits = [n for n in ast.walk(root) if isinstance(n, ast.expr) and pred(n)]
        hits.sort(key=lambda n: (n.lineno, n.col_offset))
        return hits[nth] if len(hits) > nth else None
    return f


def expr_text(text: str, nth: int = 0):
    return expr(lambda n: unparse(n) == text, nth)


# ------------------------------------------------------------------ edits
def to_pass(src: Src, node) -> str:
    return src.replace(node, 'pass')


def replace_with(text: str):
    def e(src: Src, node):
        return src.replace(node, text)
    return e


def sub_in_node(old: str, new: str, count=1):
    def e(src: Src, node):
        seg = src.seg(node)
        if old not in seg:
            raise LookupError(f"'{old}' not in target segment")
        return src.replace(node, seg.replace(old, new, count))
    return e


def add_before(text: str):
    def e(src: Src, node):
        return src.insert_before(node, text)
    return e


def add_after(text: str):
    def e(src: Src, node):
        return src.insert_after(node, text)
    return e


def wrap_parens(src: Src, node) -> str:
    return src.replace(node, '(' + src.seg(node) + ')')


def swap_with_next(src: Src, node) -> str:
    """swap a simple statement with the next sibling line-block (both single-line)."""
    i = node.lineno - 1
    lines = list(src.lines)
    lines[i], lines[i + 1] = lines[i + 1], lines[i]
    return '\n'.join(lines)


def module_header_comment(src: Src, node) -> str:
    return '# selftest: line shift\n\n' + src.text


def first_stmt_of(qual_fn_body_pred=None):
    def f(root):
        body = [s for s in root.body if not (isinstance(s, ast.Expr) and isinstance(s.value, ast.Constant))]
        return body[0] if body else None
    return f

"""Self-test driver (thorough tier): apply every operator of a property to a scratch copy
of the package, analyse it (never execute it), and compare with the expectation.

break  operators must produce a finding of the expected rule;
benign operators must produce no finding beyond the known ones.
A miss is an analysis error (exit 2), not a property violation.
"""
from __future__ import annotations
import os
import shutil
import tempfile
import importlib
import concurrent.futures as cf
from typing import List, Dict, Any
from sa.model import Repo, AnalysisError
from sa.report import Check, load_known


def _copy_pkg(src_root: str, dst_root: str):
    shutil.copytree(os.path.join(src_root, 'moPepGen'), os.path.join(dst_root, 'moPepGen'),
                    ignore=shutil.ignore_patterns('__pycache__', '*.pyc'))


def _run_variant(args):
    prop, src_root, relpath, new_src, name = args
    d = tempfile.mkdtemp(prefix=f'selftest.{prop}.', dir=os.environ.get('VERIF_SCRATCH', '/tmp'))
    try:
        try:
            compile(new_src, relpath, 'exec')
        except SyntaxError as e:
            return name, {'error': f'variant does not compile: {e}'}
        _copy_pkg(src_root, d)
        with open(os.path.join(d, relpath), 'wt', encoding='utf-8') as h:
            h.write(new_src)
        repo = Repo(d)
        mod = importlib.import_module(f'rules.{prop}')
        chk = Check(prop, 'thorough', repo)
        try:
            mod.run(chk, repo)
        except AnalysisError as e:
            return name, {'analysis_error': str(e), 'findings': []}
        return name, {'findings': [(f.rule, f.key) for f in chk.findings], 'floors': chk.floors_missed()}
    except Exception as e:       # pylint: disable=broad-except
        return name, {'error': f'{type(e).__name__}: {e}'}
    finally:
        shutil.rmtree(d, ignore_errors=True)


def _run_seed(args):
    """Apply a stored sub-agent change (seeded/<id>/patch.diff) to a scratch copy and analyse it."""
    import subprocess
    prop, src_root, seed, patch = args
    d = tempfile.mkdtemp(prefix=f'selftest.{prop}.seed.', dir=os.environ.get('VERIF_SCRATCH', '/tmp'))
    try:
        _copy_pkg(src_root, d)
        r = subprocess.run(['git', 'apply', '--include=moPepGen/*', patch], cwd=d, capture_output=True, text=True)
        if r.returncode:
            return seed, {'skipped': 'patch does not apply to the current tree'}
        repo = Repo(d)
        mod = importlib.import_module(f'rules.{prop}')
        chk = Check(prop, 'thorough', repo)
        try:
            mod.run(chk, repo)
        except AnalysisError as e:
            return seed, {'analysis_error': str(e), 'findings': []}
        return seed, {'findings': [(f.rule, f.key) for f in chk.findings]}
    except Exception as e:       # pylint: disable=broad-except
        return seed, {'error': f'{type(e).__name__}: {e}'}
    finally:
        shutil.rmtree(d, ignore_errors=True)


def seed_jobs(prop: str, repo: Repo):
    """Stored seeds this property's check is expected to report (seeded/EXPECT.json, committed)."""
    import json
    here = os.path.dirname(os.path.dirname(os.path.abspath(__file__)))
    exp = os.path.join(here, 'seeded', 'EXPECT.json')
    if not os.path.exists(exp):
        return []
    with open(exp, 'rt') as h:
        expect = json.load(h)
    out = []
    for seed, props in sorted(expect.items()):
        patch = os.path.join(here, 'seeded', seed, 'patch.diff')
        if prop in props and os.path.exists(patch):
            out.append((prop, repo.root, seed, patch))
    return out


def generic_ops(repo: Repo, quals: List[str]):
    """benign operators applicable to every property: line shifts and no-op statements in the
    analysed functions."""
    from selftest import ops as O
    out = []
    mods = sorted({repo.func(q).module.modname for q in quals if q in repo.functions})
    for m in mods[:6]:
        out.append(O.Op(f'benign:header-comment:{m}', 'benign', f'module:{m}', lambda root: root, O.module_header_comment))
    for q in quals[:8]:
        if q not in repo.functions:
            continue
        out.append(O.Op(f'benign:noop-stmt:{q.split(":")[1]}', 'benign', q, O.first_stmt_of(), O.add_before('_selftest_noop = None')))
    return out


def run_selftest(prop: str, mod, repo: Repo) -> Dict[str, Any]:
    from selftest.table import OPS
    ent = OPS.get(prop, {'ops': [], 'funcs': []})
    ops = list(ent['ops'])
    base = Check(prop, 'thorough', repo)
    mod.run(base, repo)
    base_keys = {(f.rule, f.key) for f in base.findings}
    ops += generic_ops(repo, ent.get('funcs', []))
    jobs = []
    build_errors = []
    for op in ops:
        try:
            rel, new = op.apply(repo)
            jobs.append((op, (prop, repo.root, rel, new, op.name)))
        except (LookupError, AnalysisError) as e:
            build_errors.append(f"{op.name}: cannot build variant ({e})")
    results = {}
    with cf.ProcessPoolExecutor(max_workers=min(16, max(1, len(jobs)))) as ex:
        for name, res in ex.map(_run_variant, [j[1] for j in jobs]):
            results[name] = res
    sj = seed_jobs(prop, repo)
    seed_res = {}
    if sj:
        with cf.ProcessPoolExecutor(max_workers=min(16, len(sj))) as ex:
            for seed, res in ex.map(_run_seed, sj):
                seed_res[seed] = res
    fired = silent = nb = ng = 0
    missed = list(build_errors)
    seeds_fired = seeds_skipped = 0
    for seed, r in sorted(seed_res.items()):
        if 'skipped' in r:
            seeds_skipped += 1
            continue
        if 'error' in r:
            missed.append(f"seed {seed}: {r['error']}")
            continue
        new = [x for x in r.get('findings', []) if tuple(x) not in base_keys]
        if new:
            seeds_fired += 1
        else:
            missed.append(f"seed {seed}: stored breaking change NOT reported ({r.get('analysis_error', 'no new finding')})")
    samples = []
    for op, _ in jobs:
        r = results[op.name]
        if 'error' in r:
            missed.append(f"{op.name}: {r['error']}")
            continue
        new = [x for x in r.get('findings', []) if tuple(x) not in base_keys]
        if op.kind == 'break':
            nb += 1
            hit = [x for x in new if x[0].split('/')[1] == op.expect] if op.expect else new
            if hit or (op.expect is None and r.get('analysis_error')):
                fired += 1
                samples.append({'op': op.name, 'kind': 'break', 'fired': hit[0][0] if hit else 'analysis-error', 'key': hit[0][1][:120] if hit else ''})
            else:
                missed.append(f"{op.name}: breaking variant NOT reported by {op.expect} (got {new[:3]} {r.get('analysis_error', '')})")
        else:
            ng += 1
            if not new and not r.get('analysis_error') and not r.get('floors'):
                silent += 1
                samples.append({'op': op.name, 'kind': 'benign', 'silent': True})
            else:
                missed.append(f"{op.name}: benign variant raised {new[:3]} {r.get('analysis_error', '')} {r.get('floors', '')}")
    return {'breaking_fired': fired, 'breaking_total': nb, 'benign_silent': silent, 'benign_total': ng,
            'seeds_fired': seeds_fired, 'seeds_total': len(seed_res) - seeds_skipped, 'seeds_skipped': seeds_skipped,
            'missed': missed, 'samples': samples[:60]}

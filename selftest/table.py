"""Operator table of the checker self-test: per property, breaking operators (with the rule
that must report them) and benign rewrites (must stay silent).  All targets are located
in the current tree by normalised statement / expression text at run time."""
from selftest.ops import (Op, stmt, stmt_text, expr, expr_text, to_pass, replace_with, sub_in_node, add_before, add_after,
                          wrap_parens, swap_with_next, module_header_comment, first_stmt_of)
import ast
from sa.model import unparse, norm_stmt

CVP = 'cli.call_variant_peptide:'
VPD = 'svgraph.VariantPeptideDict:'
PVG = 'svgraph.PeptideVariantGraph:PeptideVariantGraph.'
GA = 'gtf.GenomicAnnotation:GenomicAnnotation.'
SJ = 'seqvar.SplicingJunction:SpliceJunctionTranscriptAlignment.'


def B(name, qual, find, edit, expect):
    return Op('break:' + name, 'break', qual, find, edit, expect)


def G(name, qual, find, edit):
    return Op('benign:' + name, 'benign', qual, find, edit)


def is_if(test_text):
    return stmt(lambda n: isinstance(n, ast.If) and unparse(n.test) == test_text)


OPS = {
 'C01': dict(funcs=[PVG + 'cleave_if_possible', PVG + 'create_cleavage_graph', VPD + 'VariantPeptideDict.find_miscleaved_nodes'], ops=[
    B('drop-exception-arg', PVG + 'create_cleavage_graph', expr_text('self.cleavage_params.exception'), replace_with('None'), 'C01.a'),
    B('other-params-object', PVG + 'fit_into_cleavage_multiple_upstream', expr_text('self.cleavage_params.enzyme'), replace_with('self.other_params.enzyme'), 'C01.a'),
    B('misspelt-type-literal', 'svgraph.ThreeFrameTVG:ThreeFrameTVG.apply_variant', expr_text("'Deletion'"), replace_with("'Deleton'"), 'C01.c'),
    B('count-collapsed-as-cleavage', VPD + 'VariantPeptideDict.find_miscleaved_nodes', stmt_text('n_cleavages =', prefix=True), replace_with('n_cleavages = len(cur_batch) - 1'), 'C01.d'),
    G('count-via-sum', VPD + 'VariantPeptideDict.find_miscleaved_nodes', stmt_text('n_cleavages =', prefix=True),
      replace_with('n_cleavages = sum(1 for x in cur_batch if not x.cpop_collapsed) - 1')),
 ]),
 'C02': dict(funcs=[VPD + 'VariantPeptideDict.find_miscleaved_nodes', CVP + 'caller_reducer', VPD + 'MiscleavedNodes.translational_modification'], ops=[
    B('drop-truncated-guard', VPD + 'VariantPeptideDict.find_miscleaved_nodes', is_if('_node.truncated'), to_pass, 'C02.a'),
    B('drop-hybrid-guard', VPD + 'VariantPeptideDict.find_miscleaved_nodes', is_if('is_circ_rna and _node.is_hybrid_node(subgraphs)'), to_pass, 'C02.a'),
    B('leading-truncated', VPD + 'VariantPeptideDict.find_miscleaved_nodes', expr_text('node.cpop_collapsed or node.truncated'), replace_with('node.cpop_collapsed'), 'C02.a'),
    B('limit-branch-falls-through', VPD + 'VariantPeptideDict.find_miscleaved_nodes', is_if('len(cur_vars) > allowed_n_vars'),
      replace_with('if len(cur_vars) > allowed_n_vars:\n                    pass'), 'C02.b'),
    B('retry-alters-enzyme', CVP + 'caller_reducer', stmt_text('p.max_variants_per_node = max_variants_per_node[0]'), add_after("p.enzyme = 'lysc'"), 'C02.c'),
    B('retry-in-place', CVP + 'caller_reducer', stmt_text("p = copy.copy(new_dispatch['cleavage_params'])"), replace_with("p = new_dispatch['cleavage_params']"), 'C02.c'),
    B('m-removal-any-m', VPD + 'MiscleavedNodes.translational_modification', expr_text("is_start_codon and seq_mod.startswith('M') and self.is_valid_seq(seq_mod[1:], pool, denylist)"),
      replace_with("seq_mod.startswith('M') and self.is_valid_seq(seq_mod[1:], pool, denylist)"), 'C02.e'),
    B('wrong-pop-flag', PVG + 'call_and_stage_known_orf_in_cds', is_if('is_stop'), sub_in_node('not target_node.npop_collapsed', 'not target_node.cpop_collapsed'), 'C02.f'),
    G('split-conjunction', VPD + 'VariantPeptideDict.find_miscleaved_nodes', is_if('_node.truncated'),
      replace_with('if _node.truncated is True or _node.truncated:\n                    continue')),
 ]),
 'C03': dict(funcs=['aa.VariantPeptideIdentifier:create_variant_peptide_id', VPD + 'VariantPeptideDict.get_peptide_sequences'], ops=[
    B('mnv-id-in-header', 'aa.VariantPeptideIdentifier:create_variant_peptide_id', is_if('variant.is_merged_mnv()'),
      replace_with('if False:\n                pass\n            else:\n                variant_id_map[seqname].append(variant.id)'), 'C03.a'),
    B('index-without-increment', VPD + 'VariantPeptideDict.get_peptide_sequences', stmt_text('self.labels[label] += 1'), to_pass, 'C03.b'),
    B('no-dup-filter', VPD + 'VariantPeptideDict.get_peptide_sequences', is_if('label in unique_labels'), to_pass, 'C03.b'),
    B('alias-cleavage-gain', PVG + 'call_and_stage_known_orf_in_cds', stmt_text('cur_cleavage_gain = copy.copy(cleavage_gain)'), replace_with('cur_cleavage_gain = cleavage_gain'), 'C03.c'),
    B('sec-filter-strict', VPD + 'MiscleavedNodes.translational_modification', stmt_text('cur_variants =', prefix=True), sub_in_node('<=', '<'), 'C03.d'),
 ]),
 'C04': dict(funcs=[CVP + 'call_variant_peptide', 'svgraph.VariantPeptideTable:VariantPeptideTable.is_valid', 'aa.VariantPeptidePool:VariantPeptidePool.add_peptide'], ops=[
    B('unguarded-table-add', CVP + 'call_variant_peptide', is_if('is_valid'), sub_in_node('if is_valid:', 'if True:'), 'C04.a'),
    B('pool-skip-checking', 'cli.call_novel_orf:call_novel_orf_peptide', expr(lambda n: isinstance(n, ast.Call) and unparse(n).startswith('novel_orf_peptide_pool.add_peptide(')),
      replace_with('novel_orf_peptide_pool.add_peptide(peptide, canonical_peptides, cleavage_params, skip_checking=True)'), 'C04.a'),
    B('pool-filter-no-canonical', 'aa.VariantPeptidePool:VariantPeptidePool.add_peptide', is_if('str(peptide.seq) in canonical_peptides'), to_pass, 'C04.b'),
    B('table-filter-comparator', 'svgraph.VariantPeptideTable:VariantPeptideTable.is_valid', expr_text('len(seq) > max_length'), replace_with('len(seq) >= max_length'), 'C04.b'),
    B('x-not-skipped', VPD + 'VariantPeptideDict.add_miscleaved_sequences', is_if("'X' in seq"), to_pass, 'C04.c'),
    B('row-column-swap', 'svgraph.VariantPeptideTable:VariantPeptideTable.add_peptide', stmt_text('line =', prefix=True),
      sub_in_node('{str(seq)}\\t{peptide_anno.label}', '{peptide_anno.label}\\t{str(seq)}'), 'C04.d'),
    B('subseq-other-slice', 'svgraph.VariantPeptideTable:VariantPeptideTable.add_peptide', expr_text('seq[seg.query.start:seg.query.end]'), replace_with('seq[seg.query.start:seg.query.end + 1]'), 'C04.d'),
    B('index-overwrite', 'svgraph.VariantPeptideTable:VariantPeptideTable.add_peptide', stmt_text('self.index[seq].append(cur)'), replace_with('self.index[seq] = [cur]'), 'C04.d'),
    B('merge-and-add', 'aa.VariantPeptidePool:VariantPeptidePool.add_peptide', stmt_text('same_peptide.name = same_peptide.description'), add_after('self.peptides.add(peptide)'), 'C04.e'),
    G('filter-reordered', 'svgraph.VariantPeptideTable:VariantPeptideTable.is_valid', expr_text('len(seq) < min_length or len(seq) > max_length'),
      replace_with('len(seq) > max_length or min_length > len(seq)')),
 ]),
 'C05': dict(funcs=[VPD + 'MiscleavedNodeSeries.is_too_short', VPD + 'VariantPeptideDict.find_miscleaved_nodes', 'aa.AminoAcidSeqRecord:AminoAcidSeqRecord.enzymatic_cleave'], ops=[
    B('too-short-flipped', VPD + 'MiscleavedNodeSeries.is_too_short', expr_text('len(self) < param.min_length'), replace_with('len(self) > param.min_length'), 'C05.a'),
    B('max-length-equality', 'svgraph.VariantPeptideTable:VariantPeptideTable.is_valid', expr_text('len(seq) > max_length'), replace_with('len(seq) != max_length'), 'C05.a'),
    B('miscleavage-flipped', VPD + 'VariantPeptideDict.find_miscleaved_nodes', is_if('n_cleavages >= cleavage_params.miscleavage'), sub_in_node('>=', '<='), 'C05.a'),
    B('digest-mass-flipped', 'aa.AminoAcidSeqRecord:AminoAcidSeqRecord.enzymatic_cleave', expr_text('mol_wt > min_mw'), replace_with('mol_wt < min_mw'), 'C05.a'),
    B('w2f-overwrites', VPD + 'VariantPeptideDict.translational_modification', is_if('key not in val'), sub_in_node('if key not in val:', 'if True:'), 'C05.b'),
    B('sec-in-place', VPD + 'MiscleavedNodes.translational_modification', stmt_text('cur_nodes[0] = cur_nodes[0].copy()', nth=1), to_pass, 'C05.b'),
    B('noncanonical-adds-work', CVP + 'VariantPeptideCaller.gather_data_for_call_variant', expr_text('self.noncanonical_transcripts and (not variant_series.has_any_noncanonical_transcripts())'),
      replace_with('not self.noncanonical_transcripts and not variant_series.has_any_noncanonical_transcripts()'), 'C05.c'),
    B('apply-variant-removes', 'svgraph.ThreeFrameTVG:ThreeFrameTVG.apply_variant', stmt_text("self.add_edge(head, var_node, 'variant_start')"), add_after('self.remove_edge(head.get_reference_edge())'), 'C05.d'),
    B('pointers-replaced', 'seqvar.VariantRecordPoolOnDisk:VariantRecordPoolOnDisk.generate_index', stmt_text('self.pointers[pointer.key].append(pointer)'), replace_with('self.pointers[pointer.key] = [pointer]'), 'C05.e'),
    G('comparison-mirrored', VPD + 'MiscleavedNodeSeries.is_too_short', expr_text('len(self) < param.min_length'), replace_with('param.min_length > len(self)')),
 ]),
 'C06': dict(funcs=[CVP + 'call_variant_peptide', 'seqvar.VariantRecordPoolOnDisk:VariantRecordPoolOnDisk.__getitem__'], ops=[
    B('skip-bypasses-flush', CVP + 'call_variant_peptide', stmt_text('reloaded =', prefix=True), add_before('if not dispatch: continue'), 'C06.a'),
    B('last-iteration-off-by-one', CVP + 'call_variant_peptide', expr_text('i + 1 == len(tx_sorted)'), replace_with('i == len(tx_sorted)'), 'C06.a'),
    B('no-reset', CVP + 'call_variant_peptide', stmt_text('dispatches = []', nth=1), to_pass, 'C06.a'),
    B('flush-by-batch-size-only', CVP + 'call_variant_peptide', expr_text('(i + 1) % caller.threads == 0 or i + 1 == len(tx_sorted)'), replace_with('len(dispatches) >= caller.threads'), 'C06.a'),
    B('result-reads-batch', CVP + 'call_variant_peptide', stmt_text('caller.tally.n_total_peptides += len(peptide_anno)'), replace_with('caller.tally.n_total_peptides += len(peptide_anno) + len(dispatches)'), 'C06.b'),
    B('no-series-sort', 'seqvar.VariantRecordPoolOnDisk:VariantRecordPoolOnDisk.__getitem__', stmt_text('series.sort()'), to_pass, 'C06.c'),
    B('first-pointer-only', 'seqvar.VariantRecordPoolOnDisk:VariantRecordPoolOnDisk.__getitem__', stmt_text('records += pointer.load()'), add_after('break'), 'C06.c'),
    B('index-overwrites', 'seqvar.VariantRecordPoolOnDisk:VariantRecordPoolOnDisk.load_index', stmt_text('self.pointers[pointer.key].append(pointer)'), replace_with('self.pointers[pointer.key] = [pointer]'), 'C06.c'),
    B('order-by-key', CVP + 'call_variant_peptide', expr_text('tx_rank[x]'), replace_with('x'), 'C06.d'),
    B('raw-exception-in-raw-branch', 'cli.common:load_references', stmt_text('exception = cleavage_params.exception'), replace_with('exception = args.cleavage_exception'), 'C06.e'),
    G('post-loop-drain', CVP + 'call_variant_peptide', stmt_text('caller.tally.n_valid_peptides = len(peptide_table.index)'), add_before('_after_loop_marker = None')),
 ]),
 'C07': dict(funcs=[CVP + 'call_variant_peptides_wrapper', CVP + 'call_variant_peptide', CVP + 'caller_reducer'], ops=[
    B('register-after-try', CVP + 'call_variant_peptides_wrapper', stmt_text('peptide_anno = {k: list(v.values()) for k, v in peptide_anno.items()}'), add_before('pgraphs[2][circ_model.id] = pgraph'), 'C07.a'),
    B('handler-swallows', CVP + 'call_variant_peptides_wrapper', stmt_text('raise', nth=1), to_pass, 'C07.b'),
    B('flag-wrong-slot', CVP + 'call_variant_peptides_wrapper', stmt_text('success_flags = (success_flags[0], False, success_flags[2])'), replace_with('success_flags = (False, success_flags[1], success_flags[2])'), 'C07.b'),
    B('commit-before-call', CVP + 'call_variant_peptides_wrapper', stmt_text('dgraphs[1][variant.id] = dgraph'), add_after('pool.filter_variants(tx_ids=[tx_id], start=0, end=1, exclude_type=[], intron=False)'), 'C07.c'),
    B('shared-pool-written', CVP + 'call_variant_peptides_wrapper', stmt_text('variant_pool = copy.copy(pool)'), replace_with('variant_pool = pool'), 'C07.c'),
    B('tally-wrong-counter', CVP + 'call_variant_peptide', stmt_text("caller.tally.n_transcripts_failed['fusion'] += 1"), replace_with("caller.tally.n_transcripts_failed['variant'] += 1"), 'C07.d'),
    B('reducer-swallows-all', CVP + 'caller_reducer', stmt(lambda n: isinstance(n, ast.Try)), sub_in_node('except TimeoutError as e:', 'except Exception as e:'), 'C07.d'),
    G('extra-logging-in-handler', CVP + 'call_variant_peptides_wrapper', stmt_text("logger.error('Exception raised from %s', tx_id)"), add_before("logger.debug('about to re-raise')")),
 ]),
 'C08': dict(funcs=['cli.call_novel_orf:call_novel_orf_peptide', 'cli.call_novel_orf:call_noncoding_peptide_main'], ops=[
    B('coding-always', 'cli.call_novel_orf:call_novel_orf_peptide', is_if('not args.coding_novel_orf'), sub_in_node('continue', 'pass'), 'C08.a'),
    B('no-min-length', 'cli.call_novel_orf:call_novel_orf_peptide', is_if('tx_model.transcript_len() < args.min_tx_length'), to_pass, 'C08.a'),
    B('inclusion-inverted', 'cli.call_novel_orf:call_novel_orf_peptide', expr_text('tx_model.transcript.biotype not in inclusion_biotypes'), replace_with('tx_model.transcript.biotype in inclusion_biotypes'), 'C08.a'),
    B('orf-assignment-constant', 'cli.call_novel_orf:call_novel_orf_peptide', expr_text('args.orf_assignment'), replace_with("'max'"), 'C08.b'),
    B('w2f-dropped', 'cli.call_novel_orf:call_noncoding_peptide_main', expr_text('w2f_reassignment', nth=0), replace_with('False'), 'C08.c'),
    B('check-orf-off', 'cli.call_novel_orf:call_noncoding_peptide_main', stmt_text('peptide_anno =', prefix=True), sub_in_node('check_orf=True', 'check_orf=False'), 'C08.c'),
    B('orf-fasta-excludes', 'cli.call_novel_orf:call_noncoding_peptide_main', stmt_text('orfs =', prefix=True), sub_in_node('exclude_canonical_orf=False', 'exclude_canonical_orf=True'), 'C08.d'),
    B('denylist-start-codon', VPD + 'MiscleavedNodes.join_miscleaved_peptides', stmt_text('is_in_denylist =', prefix=True), replace_with('is_in_denylist = seq in denylist'), 'C08.e'),
    G('guard-rewritten', 'cli.call_novel_orf:call_novel_orf_peptide', is_if('tx_id in proteome'), replace_with('if not tx_id not in proteome:\n                continue')),
 ]),
 'C09': dict(funcs=['cli.call_alt_translation:call_alt_translation', 'cli.call_alt_translation:call_alt_translation_main'], ops=[
    B('noncoding-processed', 'cli.call_alt_translation:call_alt_translation', is_if('not tx_model.is_protein_coding'), to_pass, 'C09.a'),
    B('flags-swapped', 'cli.call_alt_translation:call_alt_translation', expr_text('args.w2f_reassignment', nth=1), replace_with('args.selenocysteine_termination'), 'C09.a'),
    B('check-variants-off', 'cli.call_alt_translation:call_alt_translation_main', stmt_text('peptide_anno =', prefix=True), sub_in_node('check_variants=True', 'check_variants=False'), 'C09.a'),
    B('sect-after-label', VPD + 'MiscleavedNodes.translational_modification', stmt_text('cur_variants.append(sec.variant)'), to_pass, 'C09.b'),
    B('w2f-from-original', VPD + 'VariantPeptideDict.translational_modification', stmt_text('seq_mod_new = seq_mod[:v.location.start] + v.alt'), replace_with('seq_mod_new = seq[:v.location.start] + v.alt'), 'C09.c'),
    B('sec-long-node-dropped', VPD + 'VariantPeptideDict.find_miscleaved_nodes', expr_text('series.is_too_long(self.cleavage_params) and (not node.selenocysteines)'), replace_with('series.is_too_long(self.cleavage_params)'), 'C09.d'),
 ]),
 'C10': dict(funcs=['aa.AminoAcidSeqDict:AminoAcidSeqDict.create_unique_peptide_pool', 'aa.AminoAcidSeqRecord:AminoAcidSeqRecord.enzymatic_cleave', 'cli.generate_index:generate_index'], ops=[
    B('range-table-typo', 'module:aa.expasy_rules', expr(lambda n: isinstance(n, ast.Constant) and n.value == r'([KR][^P])|(WKP)|(MRP)'), replace_with("r'([KR][^P])|(WKP)|(MKP)'"), 'C10.a'),
    B('site-table-wider-lookbehind', 'module:aa.expasy_rules', expr(lambda n: isinstance(n, ast.Constant) and n.value == r'([KR](?=[^P]))|((?<=W)K(?=P))|((?<=M)R(?=P))'),
      replace_with("r'([KR](?=[^P]))|((?<=AW)K(?=P))|((?<=M)R(?=P))'"), 'C10.a'),
    B('pairing-unsafe-rule', 'module:aa.expasy_rules', expr(lambda n: isinstance(n, ast.Constant) and n.value == r'(?<=[HKR])P(?=[^P])'),
      replace_with("r'((?<=[HKR])P(?=[^P]))|((?<=A[HKR]A)P)'"), 'C10.a'),
    B('raw-exception-to-pool', 'cli.generate_index:generate_index', expr_text('cleavage_params.exception'), replace_with('exception'), 'C10.b'),
    B('unknown-literal', 'aa.PeptidePoolSummarizer:NoncanonicalPeptideSummaryTable.add_entry', expr_text("'trypsin_exception'"), replace_with("'trypsin_exceptions'"), 'C10.b'),
    B('name-as-regex', 'aa.AminoAcidSeqRecord:AminoAcidSeqRecord.get_enzymatic_cleave_exception_sites', stmt_text('exception = EXPASY_RULES.get(exception, exception)'), to_pass, 'C10.b2'),
    B('no-stop-cut', 'aa.AminoAcidSeqDict:AminoAcidSeqDict.create_unique_peptide_pool', stmt_text('protein = protein[:stop_site]'), to_pass, 'C10.c'),
    B('no-il-image', 'aa.AminoAcidSeqDict:AminoAcidSeqDict.create_unique_peptide_pool', stmt_text("pool.add(str(peptide.seq).replace('I', 'L'))"), to_pass, 'C10.c'),
    B('cds-start-nf-constant', 'aa.AminoAcidSeqDict:AminoAcidSeqDict.create_unique_peptide_pool', expr_text('cds_start_nf', nth=2), replace_with('False'), 'C10.c'),
    B('swapped-lengths', 'cli.update_index:update_index', stmt(lambda n: 'create_unique_peptide_pool' in unparse(n) and isinstance(n, ast.Assign)),
      sub_in_node('min_length = min_length', 'min_length = max_length'), 'C10.d'),
    B('early-break-in-window-loop', 'aa.AminoAcidSeqRecord:AminoAcidSeqRecord.enzymatic_cleave', stmt_text('peptide = self[sites[start]:sites[end]]'), add_after('if len(peptide.seq) > max_length: break'), 'C10.e'),
    B('m-removal-everywhere', 'aa.AminoAcidSeqRecord:AminoAcidSeqRecord.enzymatic_cleave', expr_text("start == 0 and (not cds_start_nf) and peptide.seq.startswith('M')"),
      replace_with("not cds_start_nf and peptide.seq.startswith('M')"), 'C10.e'),
    G('il-via-local', 'aa.AminoAcidSeqDict:AminoAcidSeqDict.create_unique_peptide_pool', stmt_text('pool.add(str(peptide.seq))'), add_before('_s = str(peptide.seq)')),
 ]),
 'C11': dict(funcs=[GA + 'coordinate_genomic_to_gene', GA + 'feature_coordinate_gene_to_genomic', 'gtf.GTFPointer:GenePointerDict.__getitem__'], ops=[
    B('minus-strand-off-by-one', GA + 'coordinate_genomic_to_gene', stmt_text('return gene_location.end - 1 - index'), replace_with('return gene_location.end - index'), 'C11.a'),
    B('plus-strand-inverse-broken', GA + 'coordinate_gene_to_genomic', stmt_text('return location.start + index'), replace_with('return location.start + index + 1'), 'C11.a'),
    B('no-end-fix', GA + 'feature_coordinate_gene_to_genomic', stmt_text('end += 1'), to_pass, 'C11.b'),
    B('no-strand-swap', GA + 'feature_coordinate_genomic_to_gene', stmt_text('start, end = (end, start)'), to_pass, 'C11.b'),
    B('variant-end-not-inclusive', GA + 'variant_coordinates_to_gene', stmt_text('end_gene = self.coordinate_genomic_to_gene(end_genomic - 1, gene_id)'),
      replace_with('end_gene = self.coordinate_genomic_to_gene(end_genomic, gene_id)'), 'C11.b'),
    B('intron-end-inclusive', 'gtf.TranscriptAnnotationModel:TranscriptAnnotationModel.get_transcript_index', expr_text('exon.location.end > genomic_index'), replace_with('exon.location.end >= genomic_index'), 'C11.i'),
    B('register-before-load', 'gtf.GTFPointer:GenePointerDict.__getitem__', stmt_text('pointer: GenePointer = self.get_pointer(__key)'), add_before('self._cached_keys.appendleft(__key)'), 'C11.d'),
    B('evict-other-key', 'gtf.GTFPointer:TranscriptPointerDict.__getitem__', stmt_text('self._cache.pop(key_pop)'), replace_with('self._cache.pop(__key, None)'), 'C11.d'),
    B('reader-no-offset', 'gtf.GtfIO:line_to_seq_feature', expr_text('int(fields[3]) - 1'), replace_with('int(fields[3])'), 'C11.e'),
    B('idx-column-swap', 'gtf.GTFPointer:TranscriptPointer.to_line', stmt(lambda n: isinstance(n, ast.Assign) and unparse(n.targets[0]) == 'fields'),
      sub_in_node('str(self.start),\n            str(self.end)', 'str(self.end),\n            str(self.start)'), 'C11.e'),
    B('ondisk-unsorted', 'gtf.GTFPointer:TranscriptPointer.load', stmt_text('tx_model.sort_records()'), to_pass, 'C11.f'),
    G('explicit-branches', GA + 'feature_coordinate_gene_to_genomic', stmt_text('end += 1'), replace_with('end = end + 1')),
 ]),
 'C12': dict(funcs=['index:IndexMetadata.get_canonical_pool', 'cli.update_index:update_index', 'index:IndexDir.save_canonical_peptides'], ops=[
    B('key-without-max-length', 'params:CleavageParams.jsonfy', stmt(lambda n: isinstance(n, ast.Assign) and unparse(n.targets[0]) == 'data'), sub_in_node("'max_length': self.max_length", "'max_len': 0"), 'C12.a'),
    B('lookup-by-enzyme-only', 'index:IndexMetadata.get_canonical_pool', is_if('this == that'), sub_in_node('this == that', "this['enzyme'] == that['enzyme']"), 'C12.a'),
    B('filterfasta-bypass', 'cli.filter_fasta:load_coding_transcripts', stmt_text('index_dir.validate_metadata()'), to_pass, 'C12.b'),
    B('validate-direction', 'index:IndexDir.validate_metadata', expr_text('cur_version.is_valid(self.metadata.version)'), replace_with('self.metadata.version.is_valid(cur_version)'), 'C12.b'),
    B('version-or', 'version:MetaVersion.is_valid', stmt(lambda n: isinstance(n, ast.Return)), sub_in_node('self.biopython == version.biopython and', 'self.biopython == version.biopython or'), 'C12.b'),
    B('reuse-index-1', 'index:IndexMetadata.register_canonical_pool', stmt_text('index =', prefix=True), replace_with('index = len(self.canonical_pools) or 1'), 'C12.c'),
    B('save-never-registers', 'index:IndexDir.save_canonical_peptides', is_if('not pool_metadata or not override'), sub_in_node('not pool_metadata or not override', 'not pool_metadata and not override'), 'C12.c'),
    B('metadata-not-saved', 'cli.update_index:update_index', is_if('not pool_exists'), sub_in_node('if not pool_exists:', 'if not args.force:'), 'C12.d'),
    B('proteome-path-swap', 'index:IndexDir.load_proteome', expr_text('self.proteome_file'), replace_with('self.genome_file'), 'C12.d'),
 ]),
 'C13': dict(funcs=['circ.io:line_to_circ_model', 'seqvar.io:line_to_variant_record', 'seqvar.GVFIndex:iterate_pointer'], ops=[
    B('circ-key-renamed', 'circ.io:line_to_circ_model', expr_text("'GENOMIC_POSITION'"), replace_with("'GENOMIC_LOCATION'"), 'C13.a'),
    B('circ-offset-from-zero', 'circ.io:line_to_circ_model', stmt_text('start_j = start + position'), replace_with('start_j = position'), 'C13.a'),
    B('attr-shift-dropped', 'seqvar.io:parse_attrs', stmt_text('val = str(int(val) - 1)'), to_pass, 'C13.b'),
    B('pos-not-shifted', 'seqvar.io:line_to_variant_record', stmt_text('start = int(fields[1]) - 1'), replace_with('start = int(fields[1])'), 'C13.b'),
    B('del-symbol-renamed', 'seqvar.io:line_to_variant_record', expr_text("alt == '<DEL>'"), replace_with("alt == '<DELETION>'"), 'C13.c'),
    B('ins-end-from-attr', 'seqvar.io:line_to_variant_record', stmt_text('end = start + 1', nth=1), replace_with("end = int(attrs['END'])"), 'C13.c'),
    B('idx-length-as-end', 'seqvar.GVFIndex:GVFPointer.parse', stmt_text('end = start + int(length)'), replace_with('end = int(length)'), 'C13.d'),
    B('validate-returns-bool', 'seqvar.VariantRecordPoolOnDisk:VariantRecordPoolOnDisk.validate_gvf_index', is_if('sum_actual == sum_expect'), replace_with('return sum_actual == sum_expect'), 'C13.d'),
    B('load-before-validate', 'seqvar.VariantRecordPoolOnDisk:VariantRecordPoolOnDiskOpener.open', stmt_text('self.pool.validate_gvf_index(file, idx_path)'), to_pass, 'C13.d'),
    B('no-trailing-pointer', 'seqvar.GVFIndex:iterate_pointer', is_if('pointer is not None'), to_pass, 'C13.e'),
    B('char-offsets', 'seqvar.GVFIndex:iterate_pointer', stmt_text('line_end += len(line)'), replace_with("line_end += len(line.decode('utf-8'))"), None),
    G('circ-get-with-default', 'circ.io:line_to_circ_model', stmt_text("gene_name = attrs['GENE_SYMBOL']"), replace_with("gene_name = attrs.get('GENE_SYMBOL')")),
 ]),
 'C14': dict(funcs=['parser.VEPParser:VEPRecord.convert_to_variant_record', 'parser.REDItoolsParser:REDItoolsRecord.convert_to_variant_records'], ops=[
    B('deletion-no-anchor', 'parser.VEPParser:VEPRecord.convert_to_variant_record', stmt_text('ref = str(seq.seq[alt_start:alt_end])', nth=1), replace_with('ref = str(seq.seq[alt_start + 1:alt_end])'), 'C14.a'),
    B('snv-ref-next-base', 'parser.VEPParser:VEPRecord.convert_to_variant_record', stmt_text('ref = str(seq.seq[alt_start])', nth=2), replace_with('ref = str(seq.seq[alt_start + 1])'), 'C14.a'),
    B('insertion-keeps-end', 'parser.VEPParser:VEPRecord.convert_to_variant_record', stmt_text('alt_end -= 1'), to_pass, 'C14.a'),
    B('no-strand-swap', 'parser.VEPParser:VEPRecord.convert_to_variant_record', stmt_text('alt_start, alt_end = (alt_end, alt_start)'), to_pass, 'C14.b'),
    B('raw-allele-used', 'parser.VEPParser:VEPRecord.convert_to_variant_record', stmt_text('alt = allele', nth=2), replace_with('alt = self.allele'), 'C14.b'),
    B('stop-boundary-unchecked', 'parser.VEPParser:VEPRecord.convert_to_variant_record', is_if('alt_end > tx_end_genetic'), to_pass, 'C14.c'),
    B('reditools-swallow', 'parser.REDItoolsParser:REDItoolsRecord.convert_to_variant_records', stmt_text('raise'), to_pass, 'C14.d'),
    B('threshold-flipped', 'parser.REDItoolsParser:REDItoolsRecord.get_valid_subs', expr_text('read_count < min_coverage_alt'), replace_with('read_count > min_coverage_alt'), 'C14.d'),
    B('thresholds-swapped', 'parser.REDItoolsParser:REDItoolsRecord.convert_to_variant_records', stmt_text('valid_subs =', prefix=True),
      sub_in_node('min_coverage_rna=min_coverage_rna', 'min_coverage_rna=min_coverage_dna'), 'C14.d'),
 ]),
 'C15': dict(funcs=['cli.parse_arriba:parse_arriba', 'parser.ArribaParser:ArribaRecord.convert_to_variant_records'], ops=[
    B('skip-not-counted', 'cli.parse_star_fusion:parse_star_fusion', stmt_text('tally.skipped.insufficient_evidence += 1'), to_pass, 'C15.a'),
    B('success-counted-twice', 'cli.parse_fusion_catcher:parse_fusion_catcher', stmt_text('tally.succeed += 1'), add_after('tally.succeed += 1'), 'C15.a'),
    B('gene-error-fatal', 'cli.parse_arriba:parse_arriba', stmt(lambda n: isinstance(n, ast.Try)), sub_in_node('except err.GeneNotFoundError:', 'except err.ExonNotFoundError:'), 'C15.b'),
    B('lookup-unwrapped', 'parser.STARFusionParser:STARFusionRecord.convert_to_variant_records', stmt(lambda n: isinstance(n, ast.Try)), replace_with('donor_model = anno.genes[self.left_gene]'), 'C15.b'),
    B('donor-minus-strand', 'parser.FusionCatcherParser:FusionCatcherRecord.convert_to_variant_records', stmt_text('left_breakpoint_genetic =', prefix=True),
      replace_with('left_breakpoint_genetic = anno.coordinate_genomic_to_gene(index=left_breakpoint_genomic, gene=donor_gene_id)'), 'C15.d'),
    B('acceptor-plus-one', 'parser.ArribaParser:ArribaRecord.convert_to_variant_records', stmt_text('accepter_position =', prefix=True),
      replace_with('accepter_position = anno.coordinate_genomic_to_gene(right_breakpoint, self.gene_id2)'), 'C15.d'),
    B('cache-ghost', 'gtf.GTFPointer:GenePointerDict.__getitem__', stmt_text('pointer: GenePointer = self.get_pointer(__key)'), add_before('self._cached_keys.appendleft(__key)'), 'C15.c'),
 ]),
 'C16': dict(funcs=['parser.RMATSParser.SERecord:SERecord.convert_to_variant_records', SJ + 'create_upstream_deletion'], ops=[
    B('cross-paired-threshold', 'parser.RMATSParser.SERecord:SERecord.convert_to_variant_records', is_if('self.sjc_sample_1 >= min_sjc'), sub_in_node('self.sjc_sample_1 >= min_sjc', 'self.ijc_sample_1 >= min_sjc'), 'C16.a'),
    B('unguarded-emission', 'parser.RMATSParser.MXERecord:MXERecord.convert_to_variant_records', is_if('self.ijc_sample_1 >= min_ijc'), sub_in_node('if self.ijc_sample_1 >= min_ijc:', 'if True:'), 'C16.a'),
    B('novelty-two-of-three', 'parser.RMATSParser.SERecord:SERecord.convert_to_variant_records', expr_text('not skip_junction.is_novel(anno) and (not upstream_junction.is_novel(anno)) and (not downstream_junction.is_novel(anno))'),
      replace_with('not skip_junction.is_novel(anno) and not upstream_junction.is_novel(anno)'), 'C16.b'),
    B('deletion-no-swap', SJ + 'create_upstream_deletion', stmt_text('start, end = (end, start)'), to_pass, 'C16.c'),
    B('deletion-end-exclusive-twice', SJ + 'create_downstream_deletion', stmt_text('end = anno.coordinate_genomic_to_gene(genomic_end - 1, gene_id)'), replace_with('end = anno.coordinate_genomic_to_gene(genomic_end, gene_id)'), 'C16.c'),
    B('donor-not-swapped', SJ + 'create_upstream_substitution', stmt_text('donor_start, donor_end = (donor_end, donor_start)'), to_pass, 'C16.c'),
    B('ri-anchor-shift', 'parser.RMATSParser.RIRecord:RIRecord.convert_to_variant_records', stmt_text('insert_position = start_gene - 1'), replace_with('insert_position = start_gene'), 'C16.c'),
    B('type-literal', 'parser.RMATSParser:parse', expr_text("'A3SS'"), replace_with("'A3S'"), 'C16.d'),
    B('search-skips-exon0', SJ + 'get_upstream_end_spanning', stmt(lambda n: isinstance(n, ast.While)), sub_in_node('i >= 0', 'i > 0'), 'C16.e'),
    G('threshold-mirrored', 'parser.RMATSParser.SERecord:SERecord.convert_to_variant_records', expr_text('self.sjc_sample_1 >= min_sjc'), replace_with('min_sjc <= self.sjc_sample_1')),
 ]),
 'C17': dict(funcs=['parser.CIRCexplorerParser:CIRCexplorer2KnownRecord.convert_to_circ_rna', 'cli.parse_circexplorer:parse_circexplorer'], ops=[
    B('fragment-no-swap', 'parser.CIRCexplorerParser:CIRCexplorer2KnownRecord.convert_to_circ_rna', stmt_text('start, end = (end, start)'), to_pass, 'C17.a'),
    B('fragment-size-inclusive', 'parser.CIRCexplorerParser:CIRCexplorer2KnownRecord.convert_to_circ_rna', expr_text('self.start + exon_offset + exon_size - 1'), replace_with('self.start + exon_offset + exon_size'), 'C17.a'),
    B('backsplice-end', 'parser.CIRCexplorerParser:CIRCexplorer2KnownRecord.convert_to_circ_rna', expr_text('self.end - 1'), replace_with('self.end'), 'C17.a'),
    B('skip-uncounted', 'cli.parse_circexplorer:parse_circexplorer', stmt_text('tally.skipped.invalid_record += 1', nth=1), to_pass, 'C17.b'),
    B('unknown-isoform-fatal', 'cli.parse_circexplorer:parse_circexplorer', is_if('record.isoform_name not in anno.transcripts'), to_pass, 'C17.b'),
    B('anchor-moved', 'circ.CircRNA:CircRNAModel.to_string', stmt_text('start = str(start)'), add_before('start = int(self.fragments[-1].location.start)'), 'C17.c'),
    B('intron-offset-sign', GA + 'find_intron_index', stmt_text('end_offset = -(feature.location.start - exon.location.end)'), replace_with('end_offset = feature.location.start - exon.location.end'), 'C17.d'),
 ]),
 'C18': dict(funcs=['aa.PeptidePoolSplitter:PeptidePoolSplitter.split', 'cli.encode_fasta:encode_fasta'], ops=[
    B('no-break-after-add', 'aa.PeptidePoolSplitter:PeptidePoolSplitter.split', stmt_text('has_additional_splitting = True'), add_after('continue'), None),
    B('double-add', 'aa.PeptidePoolSplitter:PeptidePoolSplitter.split', stmt(lambda n: isinstance(n, ast.Break)), to_pass, 'C18.a'),
    B('remaining-dropped', 'aa.PeptidePoolSplitter:PeptidePoolSplitter.split', is_if('not has_additional_splitting'), to_pass, 'C18.a'),
    B('merge-filters', 'cli.merge_fasta:merge_fasta', expr(lambda n: isinstance(n, ast.Call) and unparse(n).startswith('pool.add_peptide(')),
      replace_with('pool.add_peptide(peptide=peptide, canonical_peptides=set(), skip_checking=False)'), 'C18.b'),
    B('decoy-suffix-slice', 'cli.encode_fasta:get_real_header', stmt_text('return header[:-len(decoy_string)]'), replace_with('return header[:len(decoy_string)]'), 'C18.c'),
    B('cache-decoy-id', 'cli.encode_fasta:encode_fasta', stmt_text('id_mapper[header] = index'), to_pass, 'C18.c'),
    B('summarize-no-group-map', 'aa.PeptidePoolSummarizer:NoncanonicalPeptideSummaryTable.add_entry', stmt_text('peptide_labels =', prefix=True), sub_in_node('group_map=group_map,', ''), 'C18.d'),
    B('unknown-prefix', 'parser.REDItoolsParser:REDItoolsRecord.convert_to_variant_records', stmt_text('_id =', prefix=True), sub_in_node("f'RES-", "f'RNAEDIT-"), 'C18.e'),
    B('intragenic-overwrite', 'aa.VariantPeptideLabel:VariantPeptideInfo.from_variant_peptide', is_if('second_gene_id != first_gene_id'),
      replace_with('var_ids[second_gene_id] = variant_id.second_variants'), 'C18.f'),
 ]),
 'C19': dict(funcs=['aa.VariantPeptidePool:VariantPeptidePool.filter'], ops=[
    B('add-always', 'aa.VariantPeptidePool:VariantPeptidePool.filter', is_if('keep'), sub_in_node('if keep:', 'if True:'), 'C19.a'),
    B('keep-always', 'aa.VariantPeptidePool:VariantPeptidePool.filter', is_if('should_keep'), sub_in_node('if should_keep:', 'if True:'), 'C19.e'),
    B('cutoff-flipped', 'aa.VariantPeptidePool:VariantPeptidePool.filter', expr_text('exprs[tx] >= cutoff'), replace_with('exprs[tx] <= cutoff'), 'C19.b'),
    B('zero-bound-ignored', 'aa.VariantPeptidePool:VariantPeptidePool.filter', expr_text('miscleavage_range[1] is not None and len(misc) > miscleavage_range[1]'),
      replace_with('miscleavage_range[1] and len(misc) > miscleavage_range[1]'), 'C19.b'),
    B('exception-literal', 'aa.VariantPeptidePool:VariantPeptidePool.filter', expr_text("'trypsin_exception'"), replace_with("'trypsin_expection'"), 'C19.c'),
    B('circ-prefix-shortcut', 'aa.VariantPeptideLabel:VariantPeptideInfo.is_circ_rna', stmt(lambda n: isinstance(n, ast.Return)), replace_with("return self.original_label.startswith('CIRC')"), 'C19.d'),
    B('order-coding-first', 'aa.VariantPeptidePool:VariantPeptidePool.filter', expr_text('keep_all_noncoding and all_noncoding'), replace_with('keep_all_coding and all_coding'), 'C19.e'),
 ]),
 'C20': dict(funcs=['cli.decoy_fasta:DecoyFasta.generate_decoy_sequence', 'cli.decoy_fasta:DecoyFasta.main'], ops=[
    B('no-append-on-reverse', 'cli.decoy_fasta:DecoyFasta.generate_decoy_sequence', stmt_text('self.decoy_db.append(SeqRecord(decoy_seq, description=decoy_header))'),
      replace_with("if self.method != 'reverse': self.decoy_db.append(SeqRecord(decoy_seq, description=decoy_header))"), 'C20.a'),
    B('order-branch-missing-decoys', 'cli.decoy_fasta:DecoyFasta.iterate_target_decoy_database', stmt_text('yield self.decoy_db[i]'), to_pass, 'C20.a'),
    B('seed-before-sort', 'cli.decoy_fasta:DecoyFasta.main', stmt_text('self.target_db.sort(key=lambda x: x.seq)'), to_pass, 'C20.b'),
    B('seed-truthiness', 'cli.decoy_fasta:DecoyFasta.main', is_if('self.seed is not None'), sub_in_node('if self.seed is not None:', 'if self.seed:'), 'C20.b'),
    B('rng-in-reverse', 'cli.decoy_fasta:DecoyFasta.reverse_sequence', stmt_text('seq = str(seq)'), add_after('random.random()'), 'C20.b'),
    B('exception-literal', 'cli.decoy_fasta:DecoyFasta.find_fixed_indices', expr_text("'trypsin_exception'"), replace_with("'trypsin_expection'"), 'C20.c'),
    B('nterm-index', 'cli.decoy_fasta:DecoyFasta.find_fixed_indices', expr_text('i == 0 and self.keep_peptide_nterm'), replace_with('i == 1 and self.keep_peptide_nterm'), 'C20.d'),
    B('for-loop-consumes', 'cli.decoy_fasta:DecoyFasta.reverse_sequence', stmt_text('continue'), to_pass, 'C20.e'),
 ]),
}

from selftest.table3 import EXTRA as _EXTRA     # noqa: E402  (rules added after seed round 3)
from selftest.table3 import EXTRA_FUNCS as _EXTRA_FUNCS     # noqa: E402
for _k, _v in _EXTRA.items():
    OPS[_k]['ops'] += _v
for _k, _v in _EXTRA_FUNCS.items():
    OPS[_k]['funcs'] = list(OPS[_k]['funcs']) + [q for q in _v if q not in OPS[_k]['funcs']]

"""Operators for the rules added after seed round 3 (merged into table.OPS)."""
import ast
from selftest.ops import (Op, stmt, stmt_text, expr, expr_text, to_pass, replace_with, sub_in_node, add_before, add_after, swap_with_next)
from sa.model import unparse, norm_stmt

CVP = 'cli.call_variant_peptide:'
VPD = 'svgraph.VariantPeptideDict:'
PVG = 'svgraph.PeptideVariantGraph:PeptideVariantGraph.'
PVGN = 'svgraph.PVGNode:PVGNode.'
TVGN = 'svgraph.TVGNode:TVGNode.'
TAM = 'gtf.TranscriptAnnotationModel:TranscriptAnnotationModel.'
AAR = 'aa.AminoAcidSeqRecord:AminoAcidSeqRecord.'
VRP = 'seqvar.VariantRecordPoolOnDisk:VariantRecordPoolOnDisk.'
SJT = 'seqvar.SplicingJunction:SpliceJunctionTranscriptAlignment.'
DEC = 'cli.decoy_fasta:DecoyFasta.'


def B(name, qual, find, edit, expect):
    return Op('break:' + name, 'break', qual, find, edit, expect)


def G(name, qual, find, edit):
    return Op('benign:' + name, 'benign', qual, find, edit)


def if_test(text, nth=0):
    return stmt(lambda n: isinstance(n, ast.If) and unparse(n.test) == text, nth)


EXTRA = {
 'C01': [
    B('tvg-right-part-elif', TVGN + 'truncate_right', if_test('variant.location.end > i'), sub_in_node('if variant.location.end > i:', 'elif variant.location.end > i:'), 'C01.g'),
    B('split-drops-spanning-left', PVGN + 'split_node', stmt_text('left_variants.append(variant[:index])'), to_pass, 'C01.g'),
    G('split-flipped-compare', PVGN + 'split_node', if_test('variant.location.end > index'), sub_in_node('variant.location.end > index', 'index < variant.location.end')),
    G('truncate-left-flipped', PVGN + 'truncate_left', if_test('variant.location.start < i'), sub_in_node('variant.location.start < i', 'i > variant.location.start')),
    B('pool-exception-raw', 'cli.common:load_references', stmt_text('exception = cleavage_params.exception'), replace_with('exception = args.cleavage_exception'), 'C01.h'),
 ],
 'C02': [
    B('cursor-flag-true', PVG + 'call_and_stage_unknown_orf', expr(lambda n: isinstance(n, ast.Call) and unparse(n.func) == 'PVGCursor'),
      sub_in_node('cur_cleavage_gain, finding_start_site)', 'cur_cleavage_gain, True)'), 'C02.h'),
    B('cursor-flag-default', PVG + 'call_and_stage_unknown_orf', expr(lambda n: isinstance(n, ast.Call) and unparse(n.func) == 'PVGCursor'),
      sub_in_node('cur_cleavage_gain, finding_start_site)', 'cur_cleavage_gain)'), 'C02.h'),
    G('cursor-flag-keyword', PVG + 'call_and_stage_unknown_orf', expr(lambda n: isinstance(n, ast.Call) and unparse(n.func) == 'PVGCursor'),
      sub_in_node('cur_cleavage_gain, finding_start_site)', 'cur_cleavage_gain, finding_start_site=finding_start_site)')),
 ],
 'C03': [
    B('comparator-from-last-cursor', 'svgraph.PeptideVariantGraph:PVGTraversal.stage', stmt_text('curs.sort(key=cmp_to_key(func))'),
      add_before('func = self.cmp_unknown_orf if cursor.in_cds else func'), 'C03.g'),
    G('stage-early-read-ok', 'svgraph.PeptideVariantGraph:PVGTraversal.stage', stmt_text('in_nodes[in_node] = cursor'), add_after('_last = (in_node, cursor)')),
 ],
 'C05': [
    B('series-allowance-two', VPD + 'MiscleavedNodeSeries.is_too_long', expr_text('param.max_length + 1'), replace_with('param.max_length + 2'), 'C05.h'),
    B('gate-size-unchanged', VPD + 'MiscleavedNodes.join_miscleaved_peptides', expr_text('size - 1'), replace_with('size'), 'C05.h'),
    G('gate-commuted', VPD + 'MiscleavedNodes.join_miscleaved_peptides', expr_text('size - 1'), replace_with('-1 + size')),
    B('unknown-orf-skips-non-cds-edges', PVG + 'call_and_stage_unknown_orf', if_test('out_node is self.stop'),
      sub_in_node('out_node is self.stop', 'out_node is self.stop or not in_cds'), 'C05.i'),
    B('not-in-cds-skips-by-value', PVG + 'call_and_stage_known_orf_not_in_cds', if_test('out_node is not self.stop'),
      sub_in_node('out_node is not self.stop', "out_node.seq.seq != '*'"), 'C05.i'),
    G('sentinel-test-flipped', PVG + 'call_and_stage_unknown_orf', if_test('out_node is self.stop'), sub_in_node('out_node is self.stop', 'self.stop is out_node')),
 ],
 'C07': [
    B('isolation-handler-typed', CVP + 'call_variant_peptides_wrapper', stmt(lambda n: isinstance(n, ast.Try) and any('call_peptide_main' in unparse(c) for c in ast.walk(n) if isinstance(c, ast.Call))),
      sub_in_node('        except:', '        except ValueError:'), 'C07.b'),
 ],
 'C08': [
    B('orf-end-extra-codon', 'cli.call_novel_orf:get_orf_sequences', stmt_text('orf_end = orf_start + seq_len * 3'), replace_with('orf_end = orf_start + seq_len * 3 + 3'), 'C08.f'),
    B('slice-other-frame', 'cli.call_novel_orf:get_orf_sequences', stmt_text('seq = translate_seq[seq_start:seq_end]'), replace_with('seq = translate_seqs[0][seq_start:seq_end]'), 'C08.f'),
    G('fallback-len-of-slice', 'cli.call_novel_orf:get_orf_sequences', stmt_text('seq_len = len(translate_seq.seq) - seq_start'),
      replace_with('seq_len = len(translate_seq.seq[seq_start:])')),
 ],
 'C09': [
    B('plain-cleaved-needs-full', VPD + 'MiscleavedNodes.translational_modification', if_test('is_valid or is_valid_start', 0),
      sub_in_node('if is_valid or is_valid_start:', 'if is_valid:'), 'C09.f'),
    G('plain-guard-commuted', VPD + 'MiscleavedNodes.translational_modification', if_test('is_valid or is_valid_start', 0),
      sub_in_node('if is_valid or is_valid_start:', 'if is_valid_start or is_valid:')),
 ],
 'C10': [
    B('exception-sites-generator-range', AAR + 'iter_enzymatic_cleave_sites_with_range', expr_text('[x.end() for x in re.finditer(exception, seq)]'),
      replace_with('(x.end() for x in re.finditer(exception, seq))'), 'C10.f'),
    B('exception-sites-map', AAR + 'iter_enzymatic_cleave_sites', expr_text('[x.end() for x in re.finditer(exception, str(self.seq))]'),
      replace_with('map(lambda x: x.end(), re.finditer(exception, str(self.seq)))'), 'C10.f'),
    G('exception-sites-set', AAR + 'iter_enzymatic_cleave_sites', expr_text('[x.end() for x in re.finditer(exception, str(self.seq))]'),
      replace_with('{x.end() for x in re.finditer(exception, str(self.seq))}')),
 ],
 'C11': [
    B('cds-unsorted', TAM + 'sort_records', stmt_text('self.cds.sort()'), to_pass, 'C11.h'),
    G('utr-sorted-before-split', TAM + 'sort_records', stmt_text('self.split_utr()'), swap_with_next),
    B('three-utr-sorted-before-split', TAM + 'sort_records', stmt_text('self.three_utr.sort()'), replace_with('pass'), 'C11.h'),
    G('exon-sort-reordered', TAM + 'sort_records', stmt_text('self.exon.sort()'), swap_with_next),
    B('gtf-offset-after-strip', 'gtf.GTFPointer:iterate_pointer', stmt_text('line_start = line_end'), add_before('line = line.rstrip()'), 'C11.h'),
 ],
 'C12': [
    B('key-rounds-miscleavage', 'params:CleavageParams.__init__', stmt_text('self.miscleavage = miscleavage'), replace_with('self.miscleavage = miscleavage + 0 if miscleavage else 0'), 'C12.a'),
    G('key-int-of-int-option', 'params:CleavageParams.__init__', stmt_text('self.min_length = min_length'), replace_with('self.min_length = int(min_length)')),
 ],
 'C13': [
    B('register-unless-empty', VRP + 'generate_index', stmt_text('self.pointers[pointer.key].append(pointer)'),
      replace_with('if len(pointer) > 1:\n                    self.pointers[pointer.key].append(pointer)'), 'C13.f'),
    G('register-setdefault', VRP + 'generate_index', if_test('pointer.key in self.pointers'),
      replace_with('if True:\n                self.pointers.setdefault(pointer.key, [])\n                self.pointers[pointer.key].append(pointer)')),
    B('checksum-first-two-blocks', ':check_sha512', stmt(lambda n: isinstance(n, ast.For)),
      replace_with('sum_val.update(handle.read(4096))\n    sum_val.update(handle.read(4096))'), 'C13.g'),
    G('checksum-while-loop', ':check_sha512', stmt(lambda n: isinstance(n, ast.For)),
      replace_with('byte_block = handle.read(4096)\n    while byte_block:\n        sum_val.update(byte_block)\n        byte_block = handle.read(4096)')),
 ],
 'C15': [
    B('downstream-first-of-reversed', TAM + 'get_downstream_exon_start', if_test('exon.location.end - 1 <= pos'),
      sub_in_node('exon.location.end - 1 <= pos', 'exon.location.end - 1 >= pos'), 'C15.g'),
    B('downstream-scan-descending', TAM + 'get_downstream_exon_start', stmt(lambda n: isinstance(n, ast.For) and unparse(n.iter) == 'self.exon'),
      sub_in_node('in self.exon:', 'in reversed(self.exon):'), 'C15.g'),
    G('downstream-flipped-compare', TAM + 'get_downstream_exon_start', if_test('exon.location.start >= pos'),
      sub_in_node('exon.location.start >= pos', 'pos <= exon.location.start')),
    B('gene-seq-from-main-chrom', CVP + 'VariantPeptideCaller.gather_data_for_call_variant', stmt_text('_chrom = _tx_model.transcript.chrom'),
      replace_with('_chrom = ref.anno.genes[gene_ids[0]].chrom if False else tx_model.transcript.chrom'), 'C15.h'),
 ],
 'C16': [
    B('backward-for-stops-at-one', SJT + 'get_upstream_end_spanning', stmt(lambda n: isinstance(n, ast.While)),
      replace_with('for i in range(self.downstream_start_index - 1, 0, -1):\n            exon = self.tx_model.exon[i]\n            if self.junction.upstream_end - 1 in exon.location:\n                return i'), 'C16.e'),
    G('backward-for-complete', SJT + 'get_upstream_end_spanning', stmt(lambda n: isinstance(n, ast.While)),
      replace_with('for i in range(self.downstream_start_index - 1, -1, -1):\n            exon = self.tx_model.exon[i]\n            if self.junction.upstream_end - 1 in exon.location:\n                return i')),
 ],
 'C18': [
    B('sorted-result-dropped', 'aa.VariantPeptideLabel:VariantSourceSet.to_int', stmt_text('source_int.sort()'), replace_with('sorted(source_int)'), 'C18.h'),
    B('sort-only-when-large', 'aa.VariantPeptideLabel:VariantSourceSet.to_int', stmt_text('source_int.sort()'), replace_with('if len(source_int) > 8:\n                source_int.sort()'), 'C18.h'),
    G('sorted-rebinding', 'aa.VariantPeptideLabel:VariantSourceSet.to_int', stmt_text('source_int.sort()'), replace_with('source_int = sorted(source_int)')),
 ],
 'C19': [
    B('fusion-acceptor-first', 'aa.VariantPeptideLabel:VariantPeptideInfo.get_transcript_ids', expr_text('[variant_id.first_tx_id, variant_id.second_tx_id]'),
      replace_with('[variant_id.second_tx_id, variant_id.first_tx_id]'), 'C19.g'),
    B('fusion-ids-as-set', 'aa.VariantPeptideLabel:VariantPeptideInfo.get_transcript_ids', expr_text('[variant_id.first_tx_id, variant_id.second_tx_id]'),
      replace_with('list({variant_id.first_tx_id, variant_id.second_tx_id})'), 'C19.g'),
 ],
 'C20': [
    B('tail-fill-one-short', DEC + 'reverse_sequence', expr_text('len(shuffled_seq) - len(seq)'), replace_with('len(shuffled_seq) - len(seq) + 1'), 'C20.f'),
    G('tail-fill-positive-index', DEC + 'shuffle_sequence', expr_text('seq[len(shuffled_seq) - len(seq):]'), replace_with('seq[len(shuffled_seq):]')),
 ],
}

# functions the round-3 rules analyse (rename experiment + generic benign operators)
EXTRA_FUNCS = {
 'C01': [PVGN + 'split_node', PVGN + 'truncate_left', PVGN + 'truncate_right', TVGN + 'truncate_left', TVGN + 'truncate_right'],
 'C02': [PVG + 'call_and_stage_unknown_orf'],
 'C03': ['svgraph.PeptideVariantGraph:PVGTraversal.stage'],
 'C05': [VPD + 'MiscleavedNodes.join_miscleaved_peptides', PVG + 'call_and_stage_known_orf_in_cds', PVG + 'call_and_stage_known_orf_not_in_cds'],
 'C08': ['cli.call_novel_orf:get_orf_sequences'],
 'C09': [VPD + 'MiscleavedNodes.translational_modification'],
 'C10': [AAR + 'iter_enzymatic_cleave_sites', AAR + 'iter_enzymatic_cleave_sites_with_range'],
 'C11': [TAM + 'sort_records', TAM + 'split_utr', 'gtf.GTFPointer:iterate_pointer'],
 'C12': ['params:CleavageParams.__init__', 'cli.generate_index:generate_index'],
 'C13': [VRP + 'load_index', VRP + 'generate_index', ':check_sha512'],
 'C15': [TAM + 'get_upstream_exon_end', TAM + 'get_downstream_exon_start', CVP + 'VariantPeptideCaller.gather_data_for_call_variant'],
 'C16': [SJT + 'get_upstream_end_spanning', 'seqvar.SplicingJunction:SpliceJunction.is_novel'],
 'C18': ['aa.VariantPeptideLabel:VariantSourceSet.to_int'],
 'C19': ['aa.VariantPeptideLabel:VariantPeptideInfo.get_transcript_ids'],
 'C20': [DEC + 'reverse_sequence', DEC + 'shuffle_sequence'],
}

#!/usr/bin/env python3
"""Run the pinned suite in a repo dir (default /repo) and compare the pass *set*
with BASELINE.json stable_pass.  Usage: baseline_check.py [repo_dir]"""
import json, subprocess, sys, tempfile, os, xml.etree.ElementTree as ET
repo = sys.argv[1] if len(sys.argv) > 1 else '/repo'
base = json.load(open('/root/.vp/BASELINE.json'))
want = set(base['stable_pass'])
with tempfile.TemporaryDirectory() as d:
    x = os.path.join(d, 'j.xml')
    subprocess.run(['/venv/bin/python', '-m', 'pytest', '-q', '-p', 'no:cacheprovider',
        '--timeout=900', '--continue-on-collection-errors', '-x' if False else '-q',
        f'--junitxml={x}'], cwd=repo, stdout=subprocess.DEVNULL, stderr=subprocess.DEVNULL)
    got = set()
    for tc in ET.parse(x).getroot().iter('testcase'):
        if not any(c.tag in ('failure', 'error', 'skipped') for c in tc):
            got.add(f"{tc.get('classname')}::{tc.get('name')}")
missing = sorted(want - got)
print(f'stable_pass={len(want)} passed_now={len(got)} missing={len(missing)} extra={len(got-want)}')
for m in missing[:40]:
    print('  MISSING', m)
sys.exit(1 if missing else 0)

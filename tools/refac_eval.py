#!/usr/bin/env python3
"""Run every check against every behaviour-preserving refactoring (benign/<id>-<v>/patch.diff or, with
--src DIR, DIR/<id>/<v>/patch.diff), each applied to a scratch worktree of /repo HEAD.  Any exit != 0 is a
false alarm (1) or a broken analysis (2).  Writes benign/MATRIX.json.  usage: refac_eval.py [--src DIR] [filter]"""
import os, sys, json, subprocess, tempfile, shutil, concurrent.futures as cf
V = '/verif'
args = sys.argv[1:]
src = None
if args and args[0] == '--src':
    src = args[1]; args = args[2:]
flt = args[0] if args else ''
props = sorted(f[:-3] for f in os.listdir(f'{V}/rules') if f.startswith('C') and f.endswith('.py'))
items = []
if src:
    for pid in sorted(os.listdir(src)):
        d = os.path.join(src, pid)
        if os.path.isdir(d):
            for v in sorted(os.listdir(d)):
                if os.path.exists(os.path.join(d, v, 'patch.diff')):
                    items.append((f"{pid}-{v}", os.path.join(d, v, 'patch.diff')))
else:
    for s in sorted(os.listdir(f'{V}/benign')):
        if os.path.exists(f'{V}/benign/{s}/patch.diff'):
            items.append((s, f'{V}/benign/{s}/patch.diff'))
items = [i for i in items if flt in i[0]]


def run_all(repo_dir, props):
    """{prop: (exit code, [output lines])} from ONE model load (tools/check_all.py)"""
    r = subprocess.run(['python3', f'{V}/tools/check_all.py', '--repo', repo_dir] + list(props), capture_output=True, text=True)
    res, cur = {}, []
    for l in r.stdout.splitlines():
        if l.startswith('###RESULT '):
            p, ex = l.split()[1], int(l.split('exit=')[1])
            res[p] = (ex, cur)
            cur = []
        else:
            cur.append(l)
    for p in props:
        res.setdefault(p, (2, ['ANALYSIS-ERROR check_all produced no result: ' + (r.stderr or '')[-200:]]))
    return res

def one(it):
    name, patch = it
    d = tempfile.mkdtemp(prefix='rf.', dir='/tmp')
    try:
        os.makedirs(f'{d}/r')
        shutil.copytree('/repo/moPepGen', f'{d}/r/moPepGen', ignore=shutil.ignore_patterns('__pycache__'))
        r = subprocess.run(['git', 'apply', '--include=moPepGen/*', patch], cwd=f'{d}/r', capture_output=True)
        if r.returncode:
            return name, {'error': 'patch does not apply: ' + r.stderr.decode()[:200]}
        out = {}
        for p, (code, lines) in run_all(f'{d}/r', props).items():
            if code:
                msgs = [l[:300] for l in lines if l.startswith(('FINDING:', 'ANALYSIS-ERROR', '    key='))]
                out[p] = {'exit': code, 'msgs': msgs[:8]}
        return name, out
    finally:
        shutil.rmtree(d, ignore_errors=True)

res = {}
with cf.ThreadPoolExecutor(12) as ex:
    for name, out in ex.map(one, items):
        res[name] = out
os.makedirs(f'{V}/benign', exist_ok=True)
if not flt:
    json.dump(res, open(f'{V}/benign/MATRIX.json', 'w'), indent=1, sort_keys=True)
silent = 0
for name, _ in items:
    out = res[name]
    if not out:
        silent += 1
        print(f"{name:10s} silent")
    else:
        print(f"{name:10s} " + ' '.join(f"{p}:exit{v['exit']}" if p != 'error' else f"ERROR {v}" for p, v in out.items()))
        for p, v in out.items():
            if p != 'error':
                for m in v['msgs']:
                    print('      ', m[:220])
print(f"silent on {silent}/{len(items)} refactorings")

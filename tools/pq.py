#!/usr/bin/env python3
"""quick regression of ONE property's check: all its own seeds (expect exit 1) and all benign patches (expect exit 0).
usage: pq.py Cxx [Cyy ...]   - nothing is written"""
import os, sys, subprocess, tempfile, shutil, json, concurrent.futures as cf
V = '/verif'
props = sys.argv[1:]
exp = json.load(open(f'{V}/seeded/EXPECT.json')) if os.path.exists(f'{V}/seeded/EXPECT.json') else {}
jobs = []
for p in props:
    for s in sorted(os.listdir(f'{V}/seeded')):
        if os.path.exists(f'{V}/seeded/{s}/patch.diff') and (s.startswith(p + '-') or p in (exp.get(s) or [])):
            jobs.append(('seed', s, f'{V}/seeded/{s}/patch.diff', p))
    for s in sorted(os.listdir(f'{V}/benign')):
        if os.path.exists(f'{V}/benign/{s}/patch.diff'):
            jobs.append(('benign', s, f'{V}/benign/{s}/patch.diff', p))

def one(j):
    kind, name, patch, p = j
    d = tempfile.mkdtemp(prefix='pq.', dir='/tmp')
    try:
        shutil.copytree('/repo/moPepGen', f'{d}/moPepGen', ignore=shutil.ignore_patterns('__pycache__'))
        r = subprocess.run(['git', 'apply', '--include=moPepGen/*', patch], cwd=d, capture_output=True)
        if r.returncode:
            return j, 9, ['patch does not apply']
        r = subprocess.run([f'{V}/check', p, '--repo', d, '--no-evidence'], capture_output=True, text=True)
        rules = sorted({l.split('rule=')[1].split(' ')[0].split('/')[1] for l in r.stdout.splitlines() if l.startswith('FINDING:')})
        return j, r.returncode, rules
    finally:
        shutil.rmtree(d, ignore_errors=True)

bad = 0
with cf.ThreadPoolExecutor(16) as ex:
    for (kind, name, patch, p), rc, rules in ex.map(one, jobs):
        want = 1 if kind == 'seed' else 0
        note = ''
        if rc != want or note:
            bad += 1
            print(f"{kind:6} {name:7} {p} exit={rc} rules={','.join(rules)}{note}")
print(f"{len(jobs)} runs, {bad} unexpected")

#!/usr/bin/env python3
"""Copy confirmed seeds from /tmp/seeds into /verif/seeded/<prop>-<v>/ with meta.json."""
import os, json, shutil, sys, re
src = '/tmp/seeds'
dst = '/verif/seeded'
conf = {}
for line in open(os.path.join(src, sys.argv[1] if len(sys.argv) > 1 else 'confirm.tsv')):
    p = line.rstrip('\n').split('\t')
    conf[(p[0], p[1])] = dict(x.split('=') for x in p[2:6])
for (pid, v), c in sorted(conf.items()):
    if not (c['clean'] == '0' and c['patched'] != '0' and c['baseline'] == '0' and c['applies'] == '1'):
        print('SKIP (not confirmed)', pid, v, c)
        continue
    tag = sys.argv[2] if len(sys.argv) > 2 else ''
    d = os.path.join(dst, f"{pid}-{tag}{v}")
    os.makedirs(d, exist_ok=True)
    for f in ('patch.diff', 'demo.py', 'notes.md'):
        shutil.copy(os.path.join(src, pid, v, f), os.path.join(d, f))
    notes = open(os.path.join(d, 'notes.md')).read()
    files = sorted(set(re.findall(r'^\+\+\+ b/(\S+)', open(os.path.join(d, 'patch.diff')).read(), re.M)))
    meta = {
        'property': pid,
        'variant': f"{tag}{v}",
        'files_changed': files,
        'needs_to_manifest': 'see notes.md (written by the independent sub-agent that produced the change)',
        'origin': 'fresh sub-agent given only the property text and a scratch worktree; nothing from /verif',
        'confirmed_by_me': {
            'how': 'tools/confirm_seed.sh: scratch worktree of /repo HEAD under /tmp; demo on clean tree; git apply patch.diff; demo again; '
                   'tools/baseline_check.py (pinned suite, pass-set vs BASELINE.json stable_pass); worktree removed',
            'demo_exit_clean': int(c['clean']), 'demo_exit_patched': int(c['patched']),
            'baseline_missing_with_patch': 0, 'patch_applies_to_HEAD': True,
        },
    }
    json.dump(meta, open(os.path.join(d, 'meta.json'), 'w'), indent=1)
print('stored', len(os.listdir(dst)))

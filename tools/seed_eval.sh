#!/bin/bash
# usage: tools/seed_eval.sh <patch.diff> <prop...>
# applies the patch to /repo, runs the checks (no evidence written), and restores /repo.
patch=$1; shift
if [ -n "$(git -C /repo status --porcelain)" ]; then echo "REPO DIRTY - abort"; exit 9; fi
trap 'git -C /repo checkout -q -- . ' EXIT
git -C /repo apply "$patch" || { echo "PATCH DOES NOT APPLY"; exit 8; }
for p in "$@"; do
  /verif/check $p --no-evidence > /tmp/seed_eval.$$.out 2>&1; rc=$?
  echo "== $p exit=$rc"
  grep -E "^(FINDING|VIOLATION|ANALYSIS-ERROR|    key=)" /tmp/seed_eval.$$.out | head -12
done
rm -f /tmp/seed_eval.$$.out

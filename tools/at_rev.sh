#!/bin/bash
# usage: tools/at_rev.sh <rev> <prop...>   - run checks against a scratch worktree of /repo at <rev>
rev=$1; shift
d=$(mktemp -d /tmp/atrev.XXXX)
git -C /repo worktree add -q --detach $d/r $rev
for p in "$@"; do /verif/check $p --repo $d/r --no-evidence; echo "exit=$?"; done
git -C /repo worktree remove --force $d/r; rm -rf $d

#!/usr/bin/env python3
"""Regenerate sa/ref_table.json from the CURRENT /repo tree: the names the rules were written
against.  sa/normal.py uses it to tell what is NEW in an analysed tree (helper functions,
module constants, locals) so that it can be folded back into the reference shape before the
rules run.  Run only on a tree whose shape the rules were written against (the unchanged tree)."""
import sys, json, ast
sys.path.insert(0, '/verif')
import sa.model as M
M.ALPHA = False
M.NORMAL = False
from sa.model import Repo
from sa.normal import TABLE, local_names
repo = Repo(sys.argv[1] if len(sys.argv) > 1 else '/repo')
out = {'functions': sorted(repo.functions), 'classes': sorted(repo.classes), 'constants': {}, 'locals': {}}
for m in repo.modules.values():
    out['constants'][m.modname] = sorted(m.constants)
for q, f in repo.functions.items():
    out['locals'][q] = sorted(local_names(f.node))
json.dump(out, open(TABLE, 'w'), indent=0, sort_keys=True)
print(len(out['functions']), 'functions ->', TABLE)

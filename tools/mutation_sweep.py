#!/usr/bin/env python3
"""Generic mutation sweep: a map of what the static checks see and what they do not.

For every function named in a property's anchors (`mechanism.where`) or listed in the
`functions_analysed` of an evidence file, generate small AST-level mutants (comparison flips,
+/- swaps, integer constants +-1, and/or swaps, dropped `not`, negated `if` tests, deleted
statements, start/end and min/max swaps, True/False flips), analyse each mutant IN PROCESS
(Repo overlay, nothing is written or executed) with the checks of the properties that anchor
the file, and record which check:rule reports it.

This is NOT a property check: most surviving mutants are either equivalent or harmless for the
property.  It is the tool used to find un-covered mechanisms (per-function kill rates) and to
pick them for new rules.  Output: tools/out/mutation_sweep.json (+ a summary table on stdout).

usage: mutation_sweep.py [--props C11,C14] [--max-per-func N] [--jobs 16] [--func SUBSTR] [--out FILE]
"""
from __future__ import annotations
import argparse, ast, copy, importlib, json, os, re, sys, time, random
import concurrent.futures as cf
HERE = os.path.dirname(os.path.dirname(os.path.abspath(__file__)))
sys.path.insert(0, HERE)
sys.dont_write_bytecode = True
from sa.model import Repo, AnalysisError, walk_no_nested   # noqa: E402
from sa.report import Check, load_known                     # noqa: E402
from selftest.ops import Src                                # noqa: E402

CMP = {ast.Lt: ast.LtE, ast.LtE: ast.Lt, ast.Gt: ast.GtE, ast.GtE: ast.Gt, ast.Eq: ast.NotEq, ast.NotEq: ast.Eq,
       ast.In: ast.NotIn, ast.NotIn: ast.In, ast.Is: ast.IsNot, ast.IsNot: ast.Is}
ATTR_SWAP = {'start': 'end', 'end': 'start'}
NAME_SWAP = {'min': 'max', 'max': 'min'}


def mutants_of(fn: ast.AST, src: Src):
    """yield (node, replacement_text, description)"""
    for n in walk_no_nested(fn):
        if n is fn:
            continue
        if isinstance(n, ast.Compare) and len(n.ops) == 1 and type(n.ops[0]) in CMP:
            m = copy.deepcopy(n)
            m.ops = [CMP[type(n.ops[0])]()]
            yield n, ast.unparse(m), f"cmp {type(n.ops[0]).__name__}->{type(m.ops[0]).__name__}"
            if isinstance(n.ops[0], (ast.Lt, ast.LtE, ast.Gt, ast.GtE)):
                m2 = copy.deepcopy(n)
                m2.ops = [{ast.Lt: ast.Gt, ast.LtE: ast.GtE, ast.Gt: ast.Lt, ast.GtE: ast.LtE}[type(n.ops[0])]()]
                yield n, ast.unparse(m2), f"cmp {type(n.ops[0]).__name__}->{type(m2.ops[0]).__name__}"
        elif isinstance(n, ast.BinOp) and isinstance(n.op, (ast.Add, ast.Sub)):
            if any(isinstance(x, (ast.JoinedStr,)) or (isinstance(x, ast.Constant) and isinstance(x.value, str))
                   for x in (n.left, n.right)):
                continue
            m = copy.deepcopy(n)
            m.op = ast.Sub() if isinstance(n.op, ast.Add) else ast.Add()
            yield n, '(' + ast.unparse(m) + ')', f"binop {type(n.op).__name__}->{type(m.op).__name__}"
        elif isinstance(n, ast.Constant) and isinstance(n.value, int) and not isinstance(n.value, bool) and abs(n.value) <= 4:
            yield n, str(n.value + 1), f"const {n.value}->{n.value + 1}"
            yield n, f"({n.value - 1})", f"const {n.value}->{n.value - 1}"
        elif isinstance(n, ast.Constant) and isinstance(n.value, bool):
            yield n, str(not n.value), f"bool {n.value}->{not n.value}"
        elif isinstance(n, ast.BoolOp):
            m = copy.deepcopy(n)
            m.op = ast.Or() if isinstance(n.op, ast.And) else ast.And()
            yield n, '(' + ast.unparse(m) + ')', f"boolop {type(n.op).__name__}->{type(m.op).__name__}"
        elif isinstance(n, ast.UnaryOp) and isinstance(n.op, ast.Not):
            yield n, '(' + ast.unparse(n.operand) + ')', "drop not"
        elif isinstance(n, ast.Attribute) and n.attr in ATTR_SWAP and isinstance(n.ctx, ast.Load):
            m = copy.deepcopy(n)
            m.attr = ATTR_SWAP[n.attr]
            yield n, ast.unparse(m), f"attr .{n.attr}->.{m.attr}"
        elif isinstance(n, ast.Name) and n.id in NAME_SWAP and isinstance(n.ctx, ast.Load):
            yield n, NAME_SWAP[n.id], f"name {n.id}->{NAME_SWAP[n.id]}"
        if isinstance(n, (ast.If, ast.While)) and not (isinstance(n.test, ast.Constant)):
            yield n.test, f"not ({ast.unparse(n.test)})", "negate test"
        if isinstance(n, ast.stmt) and isinstance(n, (ast.Expr, ast.AugAssign, ast.Assign, ast.Break, ast.Continue, ast.Raise)):
            if isinstance(n, ast.Expr) and not isinstance(n.value, ast.Call):
                continue      # docstrings
            yield n, 'pass', f"delete {type(n).__name__}: {' '.join(ast.unparse(n).split())[:60]}"
        if isinstance(n, ast.Return) and n.value is not None and not isinstance(n.value, ast.Constant):
            yield n, 'return None', "return None"


_REPO_ROOT = None
_MODS = {}


def _init(root):
    global _REPO_ROOT
    _REPO_ROOT = root


def analyse(job):
    rel, new_src, props = job
    out = {}
    if props == ['__equiv__']:
        try:
            compile(new_src, rel, 'exec')
        except SyntaxError as e:
            return {'_syntax': str(e)}
        repo = Repo(_REPO_ROOT, overlay={rel: new_src})
        return {'_equiv': repo.equiv_info.get('equivalent', []), '_neq': repo.equiv_info.get('not_equivalent', [])}
    try:
        compile(new_src, rel, 'exec')
    except SyntaxError as e:
        return {'_syntax': str(e)}
    try:
        repo = Repo(_REPO_ROOT, overlay={rel: new_src})
    except AnalysisError as e:
        return {'_error': str(e)}
    known = {(k['property'], k['rule'], k['key']) for k in load_known() if k['kind'] == 'finding'}
    for p in props:
        mod = _MODS.get(p) or importlib.import_module(f'rules.{p}')
        _MODS[p] = mod
        chk = Check(p, 'quick', repo)
        try:
            mod.run(chk, repo)
        except AnalysisError as e:
            out[p] = {'exit': 2, 'rules': ['ANALYSIS-ERROR ' + str(e)[:80]]}
            continue
        except Exception as e:      # pylint: disable=broad-except
            out[p] = {'exit': 2, 'rules': [f'INTERNAL {type(e).__name__}: {e}'[:100]]}
            continue
        new = [f for f in chk.findings if (p, f.rule.split('/', 1)[1], f.key) not in known]
        if new:
            out[p] = {'exit': 1, 'rules': sorted({f.rule for f in new})}
        elif chk.floors_missed():
            out[p] = {'exit': 2, 'rules': ['FLOOR ' + chk.floors_missed()[0][:60]]}
    return out


def main():
    ap = argparse.ArgumentParser()
    ap.add_argument('--repo', default='/repo')
    ap.add_argument('--props', default='')
    ap.add_argument('--func', default='')
    ap.add_argument('--max-per-func', type=int, default=40)
    ap.add_argument('--jobs', type=int, default=16)
    ap.add_argument('--all-props', action='store_true', help='run all 20 checks on every mutant')
    ap.add_argument('--equiv-audit', action='store_true', help='only ask sa.equiv whether the mutant is declared equivalent to the reference (must never happen)')
    ap.add_argument('--out', default=os.path.join(HERE, 'tools', 'out', 'mutation_sweep.json'))
    a = ap.parse_args()
    repo = Repo(a.repo)
    props = [json.loads(l) for l in open(os.path.join(HERE, 'properties.jsonl'))]
    want = set(a.props.split(',')) if a.props else None
    # property -> files, function names from mechanism.where
    file_props = {}
    named = {}
    for p in props:
        if want and p['id'] not in want:
            continue
        for f in p['anchors'].get('files', []):
            file_props.setdefault(f, set()).add(p['id'])
        for mech in p['anchors'].get('mechanism', []) + p['anchors'].get('state', []):
            for part in re.split(r'[;]', mech.get('where', '')):
                part = part.strip()
                if ':' in part:
                    f, names = part.split(':', 1)
                    for nm in re.split(r'[/,]', names):
                        nm = nm.strip().split(' ')[0].split('.')[-1].replace('*', '')
                        if nm:
                            named.setdefault(p['id'], set()).add((f.strip(), nm))
    targets = {}    # qual -> set(props)
    for pid in sorted({x for s in file_props.values() for x in s}):
        evp = os.path.join(HERE, 'evidence', f'{pid}.json')
        if os.path.exists(evp):
            for q in json.load(open(evp))['coverage'].get('functions_analysed', []):
                if q in repo.functions:
                    targets.setdefault(q, set()).add(pid)
        for f, nm in named.get(pid, ()):
            for q, fi in repo.functions.items():
                if fi.module.relpath.endswith(os.path.basename(f)) and (fi.name == nm or (nm.endswith('_') and fi.name.startswith(nm))):
                    targets.setdefault(q, set()).add(pid)
    rnd = random.Random(1)
    jobs, meta = [], []
    for q in sorted(targets):
        if a.func and a.func not in q:
            continue
        fi = repo.functions[q]
        src = Src(fi.module.source)
        ms = list(mutants_of(fi.node, src))
        if len(ms) > a.max_per_func:
            ms = rnd.sample(ms, a.max_per_func)
        run_props = sorted(targets[q] | file_props.get(fi.module.relpath, set())) if not a.all_props else \
            [f'C{i:02d}' for i in range(1, 21)]
        if a.equiv_audit:
            run_props = ['__equiv__']
        for node, rep, desc in ms:
            new = src.replace(node, rep)
            jobs.append((fi.module.relpath, new, run_props))
            meta.append({'func': q, 'line': node.lineno, 'desc': desc, 'props': run_props})
    print(f"{len(targets)} target functions, {len(jobs)} mutants", flush=True)
    t0 = time.time()
    res = []
    with cf.ProcessPoolExecutor(a.jobs, initializer=_init, initargs=(a.repo,)) as ex:
        for i, out in enumerate(ex.map(analyse, jobs, chunksize=4)):
            m = meta[i]
            m['result'] = out
            res.append(m)
            if (i + 1) % 200 == 0:
                print(f"  {i + 1}/{len(jobs)}  {time.time() - t0:.0f}s", flush=True)
    os.makedirs(os.path.dirname(a.out), exist_ok=True)
    json.dump(res, open(a.out, 'w'), indent=0)
    if a.equiv_audit:
        bad = [m for m in res if m['result'].get('_equiv')]
        for m in bad:
            print(f"DECLARED EQUIVALENT: {m['func']} line {m['line']}: {m['desc']}")
        print(f"{len(res)} mutants, {len(bad)} declared equivalent to the reference")
        return
    # summary
    per = {}
    for m in res:
        r = m['result']
        if '_syntax' in r or '_error' in r:
            continue
        k = per.setdefault(m['func'], [0, 0, 0])
        k[0] += 1
        if any(v['exit'] == 1 for v in r.values()):
            k[1] += 1
        elif any(v['exit'] == 2 for v in r.values()):
            k[2] += 1
    tot = [sum(v[i] for v in per.values()) for i in range(3)]
    print(f"mutants={tot[0]} reported={tot[1]} analysis-error={tot[2]} silent={tot[0] - tot[1] - tot[2]}  ({time.time() - t0:.0f}s)")
    for q in sorted(per, key=lambda q: (per[q][1] / max(1, per[q][0]), q)):
        n, k, e = per[q]
        print(f"  {k:3d}/{n:3d} (+{e} err)  {q}   [{','.join(sorted(targets[q]))}]")


if __name__ == '__main__':
    main()

#!/bin/bash
# usage: tools/pe.sh <benign-id|seed-id|patch.diff> <prop...>   - apply a stored patch to a scratch copy and run the given checks on it
p=$1; shift
if [ -f "$p" ]; then patch=$p; elif [ -f /verif/benign/$p/patch.diff ]; then patch=/verif/benign/$p/patch.diff; else patch=/verif/seeded/$p/patch.diff; fi
d=$(mktemp -d /tmp/pe.XXXX)
cp -r /repo/moPepGen $d/moPepGen
( cd $d && git apply --include='moPepGen/*' $patch ) || { echo "PATCH DOES NOT APPLY"; rm -rf $d; exit 8; }
for prop in "$@"; do
  /verif/check $prop --repo $d --no-evidence 2>&1 | grep -E "^(FINDING|VIOLATION|ANALYSIS-ERROR|    |      \||\[C|Traceback|  File|\w+Error)" | grep -v "instances=" | head -${PE_LINES:-40}
done
[ -n "$PE_KEEP" ] && echo "kept $d" || rm -rf $d

#!/usr/bin/env python3
"""Regenerates /verif/MANIFEST.json from the table below + the rules that exist.
A property with no rules/Cxx.py is listed under not_applicable (reason: not built)."""
import json, os
V = os.path.dirname(os.path.dirname(os.path.abspath(__file__)))

BASE = "cd /repo && /venv/bin/python -m pytest -ra -q -p no:cacheprovider --timeout=900 --continue-on-collection-errors"

P = {
 'C01': dict(tech='ast call-contract + table-agreement + enum-literal lint',
    text="Static (ast) check of three necessary structural clauses of completeness: every cleavage-site call in the peptide graph passes rule AND exception of the same CleavageParams; the site/range rule tables cover the same enzymes; every literal compared with a variant type is a member of the type table (no silently dead dispatch branch). Completeness of the graph algorithms themselves is NOT decided - no static argument in reach quantifies over variant geometries.",
    ref='§4 C01'),
 'C02': dict(tech='ast/CFG dominance of truncation guards, skip-only complexity branches, write-set of the timeout retry',
    text="Decides guard/effect clauses soundness stands on: truncated/hybrid nodes never enter a miscleavage series, complexity-limit branches only skip, the timeout retry only tightens the two complexity knobs on a copy, X/* sequences are rejected before storage. Realizability of each emitted path is NOT decided.",
    ref='§4 C02'),
 'C03': dict(tech='ast/CFG guard + exactly-once on label construction',
    text="Decides two label-construction clauses: synthetic merged-MNV ids never reach a header (individual ids used instead) and each label index is taken after exactly one increment with in-peptide duplicates filtered first. Truthfulness of the named variant set is NOT decided.",
    ref='§4 C03'),
 'C04': dict(tech='CFG dominance of filters, sibling filter agreement, writer/reader column agreement',
    text="Decides: emission into table/pool is dominated by the validity filter; the two filters test the same reject set; X/* exclusion dominates stores; table row writer and reader agree on columns; pool add merges-or-adds. Equality of the per-graph denylist with the reference digest is NOT decided.",
    ref='§4 C04'),
 'C05': dict(tech='option-polarity lattice over limit/flag occurrences + additive-only effect analysis',
    text="Decides that every occurrence of a limit or restrictive switch in the calling code has keep-monotone polarity, that alt-translation forms are added on top of the called peptides, and that applying a variant keeps the reference path. Attribution of added peptides is NOT decided.",
    ref='§4 C05'),
 'C06': dict(tech='CFG path enumeration (drain / ordinal soundness), dominance, shape rules',
    text="Decides the schedule/layout-independence mechanism for all thread counts and skip patterns at once: the dispatch accumulator is drained on every path, results are processed independently of batch composition, records are gathered from all pointers and sorted, pointer registration appends, processing order is a sort by an injective rank. Hash-seed independence is NOT decided (stated N/A clause).",
    ref='§4 C06'),
 'C07': dict(tech='CFG def-use after caught failure, handler discipline, commit-last effect ordering',
    text="Decides failure isolation structurally for every raise point inside each per-unit try: no stale/unbound name is read after a caught failure, handlers re-raise unless skip_failed and record the skip, results are committed after the last fallible call, shared inputs are not written, flag slots pair with tally counters, no other handler swallows failures. Output equality is NOT decided.",
    ref='§4 C07'),
 'C08': dict(tech='CFG path-literal selection guards, option liveness, argument threading',
    text="Decides transcript selection (coding only with the flag; biotype/proteome/length tests dominate the call), liveness of every option the property names, and unmodified threading of orf-assignment / w2f / cleavage params into the caller. Equality with the definitional three-frame digest is NOT decided.",
    ref='§4 C08'),
 'C09': dict(tech='CFG guards + argument threading (thin call-contract)',
    text="Decides only the call contract: non-coding transcripts are skipped, the two flags are threaded to the caller, at least one flag is required, SECT/W2F identifiers are attached before labels are built. That outputs are exactly the alt-translation-only peptides is NOT decided.",
    ref='§4 C09'),
 'C10': dict(tech='regex-AST set algebra on the ExPASy tables, string-provenance (taint) of the exception, shape rules of pool assembly',
    text="Decides for ALL strings (set algebra on regex ASTs, no matching) that site and range tables denote the same windows and pair safely; that the raw --cleavage-exception never reaches a digestion sink un-normalised and sink literals are table members; and the assembly shape (first-stop cut, leading-X strip, I/L pairing, cds_start_nf threading). The ExPASy rules themselves have no independent oracle here.",
    ref='§4 C10'),
 'C11': dict(tech='affine abstract interpretation with strand case split, affine loop-iteration summaries decided over cone domains (exon loops), typestate of the pointer cache, writer/reader agreement, memo-key completeness',
    text="Decides: gene<->genomic conversions are affine inverses per strand, feature mappings are strand-equivariant and length preserving, intronic positions raise, the on-disk cache registers only after a successful load and evicts pairwise, GTF/index writers and readers agree. Exon-loop inverses and sequence extraction are NOT decided.",
    ref='§4 C11'),
 'C12': dict(tech='key-set agreement, who-may-access layering, validate-before-load dominance',
    text="Decides that the lookup key contains exactly the parameters that influence the pool, computed and registered parameters are the same normalised values, only index.py touches index files and every consumer validates versions before loading, file names are fresh and save/load pairs are symmetric. Arbitrary operation histories are NOT decided.",
    ref='§4 C12'),
 'C13': dict(tech='writer/reader key, symbol and offset agreement; dominance of checksum validation',
    text="Decides that circRNA and variant readers consume exactly the keys/symbols/offsets the writers emit, .idx columns agree, checksum validation dominates index loading and raises on every non-equal path, and the pointer generator yields the trailing pointer. Byte-exact round trip of arbitrary values is NOT decided.",
    ref='§4 C13'),
 'C14': dict(tech='affine path analysis of VEP normalisation; handler/threshold discipline for REDItools',
    text="Decides per path of the VEP conversion that the REF slice equals the emitted location, strand handling is equivariant, boundary raises dominate construction; for REDItools that the intron handler re-raises otherwise and each threshold is used once as a reject comparison. Equivalence with applying the genomic event is NOT decided.",
    ref='§4 C14'),
 'C15': dict(tech='exactly-once tally conservation, unknown-gene conversion, cache typestate (shared with C11)',
    text="Decides skip-and-count conservation in the three fusion CLIs, membership/conversion of record-derived gene lookups, and (via C11.d) that a miss cannot poison later valid lookups. Breakpoint conventions are NOT decided.",
    ref='§4 C15'),
 'C16': dict(tech='guard dominance with name pairing, conjunction completeness, affine strand equivariance',
    text="Decides that every emission is dominated by its own threshold test, the novelty early-return conjoins all junctions, and deletion/substitution/RI intervals map strand-equivariantly. Isoform reconstruction is NOT decided.",
    ref='§4 C16'),
 'C17': dict(tech='affine strand equivariance of fragments, skip-path tally conservation',
    text="Decides fragment/back-splice interval equivariance, id built from mapped bounds, skip paths increment total and exactly one reason. CIRCexplorer block semantics are NOT decided.",
    ref='§4 C17'),
 'C18': dict(tech='exactly-once path rule with flag tracking, sibling call agreement, string-slice algebra',
    text="Decides exactly-once assignment in split, no-filter merge, decoy header algebra, split/summarize source lookup agreement, prefix table coverage. Priority semantics are NOT decided.",
    ref='§4 C18'),
 'C19': dict(tech='keep-decision shape + polarity lattice',
    text="Decides keep-iff-nonempty shape, sequences never assigned, cutoff and miscleavage bounds have the stated polarity, exception literal is a table member. Idempotence is NOT decided.",
    ref='§4 C19'),
 'C20': dict(tech='exactly-once emission, must-precede sort/seed, literal membership, index-kind qualifier analysis',
    text="Decides one decoy per target on every non-raising path, sort before seeding and any RNG use, seed test is None-ness, exception literal membership, and cut-position vs residue-index kind discipline (known finding). Permutation invariants of the rearrangement loops are NOT decided.",
    ref='§4 C20'),
}

NOTE = ("Trusted: python ast parser; sa/ engine (CFG with exception edges inside try only, literal tracker, "
        "dominance); rule tables frozen from reading the code - a vanished anchor or an instance count below the "
        "floor is exit 2, never a pass. Claims necessary structural clauses only, never the behaviour.")

checks, na = [], []
TECH_COMMON = ('; rules run on a canonical normal form of the functions (helpers inlined, guards as decision regions, locals propagated) and on '
               'must-facts / path conditions (CFG dataflow with truth-table decisions), so that behaviour-preserving rewrites are not reported; a changed '
               'function that is provably a rewrite of its reference version (identical canonical form) is analysed in its reference shape')
for pid in sorted(P):
    evp = os.path.join(V, 'evidence', f'{pid}.json')
    if os.path.exists(evp):
        ev = json.load(open(evp))['coverage']
        cl = ev.get('clauses', [])
        nd = ev.get('not_decided', [])
        if cl:
            ids = ', '.join(c.split(' ')[0] for c in cl)
            P[pid]['text'] = (f"Static analysis (stdlib ast; nothing is imported or run) decides {len(cl)} necessary structural clauses of the property on all paths of "
                              f"the analysed functions ({ids}): " + ' | '.join(c[:230] for c in cl) + '. NOT decided (the behaviour itself): ' + '; '.join(nd) + '.')
    if os.path.exists(os.path.join(V, 'rules', f'{pid}.py')):
        checks.append({
            'property_id': pid,
            'quick_cmd': f'./check {pid} --tier quick',
            'thorough_cmd': f'./check {pid} --tier thorough',
            'evidence_file': f'/verif/evidence/{pid}.json',
            'replay_cmd_template': f'./check {pid} --replay {{path}}',
            'engine': 'sa',
            'level_claimed': {'category': 'other', 'text': P[pid]['text'], 'design_ref': 'DESIGN.md ' + P[pid]['ref']},
            'level_note': NOTE,
            'technique': 'static analysis: ' + P[pid]['tech'] + TECH_COMMON,
        })
    else:
        na.append({'property_id': pid, 'reason': 'check not built yet in this session (design: DESIGN.md ' + P[pid]['ref'] + ')'})

m = {
    'version': 1,
    'setup_cmd': 'python3 -c "import ast,sys; sys.exit(0)"',
    'hooks': {'guard': 'MOPEPGEN_VERIF', 'enable': 'not used - static analysis installs no hooks in /repo',
              'baseline_off_cmd': BASE, 'source_commits': [], 'add_only': True},
    'engines': [{'name': 'sa', 'path': '/verif/sa', 'serves_properties': [c['property_id'] for c in checks],
                 'kind_free_text': 'repo-specific static analysis on stdlib ast: canonical normal form + equivalence with a reference snapshot, CFG + path enumeration with literal tracking, must-facts dataflow with truth-table decisions, dominance, effect sets, polarity lattice, affine strand-split interpreter with loop-iteration summaries decided over cones, regex-AST algebra, provenance'}],
    'checks': checks,
    'notes': 'Family: static analysis only. ./check exits 0 held / 1 VIOLATION / 2 analysis broken. known_findings.txt lists recorded defects and fixed: entries.',
    'not_applicable': na,
}
json.dump(m, open(os.path.join(V, 'MANIFEST.json'), 'wt'), indent=1)
print(f"claimed={len(checks)} not_applicable={len(na)}")

#!/usr/bin/env python3
"""Run every check against every stored seed (each applied to a scratch worktree of /repo HEAD),
16 workers.  Writes seeded/MATRIX.json and prints a table.  usage: seed_matrix.py [filter]"""
import os, sys, re, json, subprocess, tempfile, shutil, concurrent.futures as cf
V = '/verif'
props = sorted(f[:-3] for f in os.listdir(f'{V}/rules') if f.startswith('C') and f.endswith('.py'))
seeds = sorted(d for d in os.listdir(f'{V}/seeded') if os.path.isdir(f'{V}/seeded/{d}'))
if len(sys.argv) > 1:
    seeds = [s for s in seeds if re.search(sys.argv[1], s)]


def run_all(repo_dir, props):
    """{prop: (exit code, [output lines])} from ONE model load (tools/check_all.py)"""
    r = subprocess.run(['python3', f'{V}/tools/check_all.py', '--repo', repo_dir] + list(props), capture_output=True, text=True)
    res, cur = {}, []
    for l in r.stdout.splitlines():
        if l.startswith('###RESULT '):
            p, ex = l.split()[1], int(l.split('exit=')[1])
            res[p] = (ex, cur)
            cur = []
        else:
            cur.append(l)
    for p in props:
        res.setdefault(p, (2, ['ANALYSIS-ERROR check_all produced no result: ' + (r.stderr or '')[-200:]]))
    return res

def one(seed):
    d = tempfile.mkdtemp(prefix='sm.', dir='/tmp')
    try:
        os.makedirs(f'{d}/r')
        shutil.copytree('/repo/moPepGen', f'{d}/r/moPepGen', ignore=shutil.ignore_patterns('__pycache__'))
        r = subprocess.run(['git', 'apply', '--include=moPepGen/*', f'{V}/seeded/{seed}/patch.diff'], cwd=f'{d}/r', capture_output=True)
        if r.returncode:
            return seed, {'error': 'patch does not apply: ' + r.stderr.decode()[:200]}
        out = {}
        for p, (code, lines) in run_all(f'{d}/r', props).items():
            if code:
                rules = sorted({l.split('rule=')[1].split(' ')[0] for l in lines if l.startswith('FINDING:')})
                out[p] = {'exit': code, 'rules': rules}
        return seed, out
    finally:
        shutil.rmtree(d, ignore_errors=True)

res = {}
with cf.ThreadPoolExecutor(16) as ex:
    for seed, out in ex.map(one, seeds):
        res[seed] = out
json.dump(res, open(os.environ.get('SM_OUT', f'{V}/seeded/MATRIX.json'), 'w'), indent=1, sort_keys=True)
caught = 0
for seed in seeds:
    out = res[seed]
    own = seed.split('-')[0]
    hit = [f"{p}:{','.join(r.split('/')[1] for r in v['rules'])}" + ('(exit2)' if v['exit'] == 2 else '') for p, v in out.items() if p != 'error']
    ok = own in out and out[own].get('exit') == 1
    caught += ok
    print(f"{seed:10s} {'CAUGHT' if ok else ('other ' if hit else 'MISSED')}  {' '.join(hit) if hit else out.get('error', '')}")
print(f"caught by own property's check: {caught}/{len(seeds)}")

#!/usr/bin/env python3
"""For a stored patch (benign/<id>, seeded/<id> or a file): which changed functions are proven
equivalent to their reference version, and a unified diff of the canonical texts of those that are not.
usage: canon_diff.py <id|patch> [func-substr] [--summary]"""
import sys, os, subprocess, tempfile, shutil, ast, difflib, copy
sys.path.insert(0, '/verif')
import sa.model as M
from sa.model import Repo
from sa.equiv import ref_sources, ref_repo, _unit
from sa.normal import Inliner, new_helpers, load_table
from sa.canon import canon_function, literal_constants
args = [a for a in sys.argv[1:] if not a.startswith('--')]
summary = '--summary' in sys.argv
src = args[0]
flt = args[1] if len(args) > 1 else ''
patch = src if os.path.exists(src) else (f'/verif/benign/{src}/patch.diff' if os.path.exists(f'/verif/benign/{src}/patch.diff') else f'/verif/seeded/{src}/patch.diff')
d = tempfile.mkdtemp(prefix='cd.', dir='/tmp')
try:
    shutil.copytree('/repo/moPepGen', f'{d}/moPepGen')
    subprocess.run(['git', 'apply', '--include=moPepGen/*', patch], cwd=d, check=True)
    cur = Repo(d, raw=True)
    rs = ref_sources()
    ref = ref_repo(rs)
    table = load_table()
    Inliner(cur, new_helpers(cur, set(ref.functions), {m.modname for m in ref.modules.values()}, set(ref.classes))).run()
    cur.reindex()
    ro = new_helpers(ref, set(cur.functions), {m.modname for m in cur.modules.values()}, set(cur.classes))
    if ro:
        Inliner(ref, ro).run(); ref.reindex()
    neq = eq = 0
    for q, f in cur.functions.items():
        rf = ref.functions.get(q)
        if rf is None or not _unit(cur, f) or ast.dump(f.node) == ast.dump(rf.node):
            continue
        a = canon_function(f.node, literal_constants(f.module.tree))
        b = canon_function(rf.node, literal_constants(rf.module.tree))
        if a == b:
            eq += 1
            if not summary: print('EQUIVALENT    ', q)
            continue
        neq += 1
        if summary:
            continue
        print('NOT EQUIVALENT', q)
        if flt and flt in q or not flt:
            for l in difflib.unified_diff(b.splitlines(), a.splitlines(), 'reference', 'current', lineterm='', n=2):
                print('   ', l)
    print(f"{src}: equivalent={eq} not_equivalent={neq}")
finally:
    shutil.rmtree(d, ignore_errors=True)

#!/usr/bin/env python3
"""Regenerate sa/alpha_table.json (signature -> reference local name) from the CURRENT /repo tree
for every non-util function.  Run only on a tree whose names the rules were written against."""
import sys, json
sys.path.insert(0, '/verif')
import sa.model as M
M.ALPHA = False
from sa.model import Repo
from sa.alpha import signatures, TABLE
repo = Repo(sys.argv[1] if len(sys.argv) > 1 else '/repo')
out = {}
for q, f in sorted(repo.functions.items()):
    if f.module.modname.startswith('util') or f.module.modname == 'fake':
        continue
    try:
        sg = signatures(f.node)
    except RecursionError:
        continue
    if sg:
        out[q] = {s: n for n, s in sg.items()}
json.dump(out, open(TABLE, 'w'), indent=0, sort_keys=True)
print(len(out), 'functions', sum(len(v) for v in out.values()), 'locals ->', TABLE)

#!/usr/bin/env python3
"""Run the quick tier of several (default: all) properties on ONE loaded model of a tree: the tree is parsed and normalised once, each
property's rules run in a forked child (so no state leaks between them), exit codes and FINDING lines are reported per property.
Used by the corpus tools (seed_matrix / refac_eval / pq); the registered MANIFEST commands still run ./check per property.
usage: check_all.py --repo DIR [Cxx ...]      output: the child's lines, then `###RESULT Cxx exit=N` per property"""
import sys, os, argparse, importlib, traceback
HERE = os.path.dirname(os.path.dirname(os.path.abspath(__file__)))
sys.path.insert(0, HERE)
sys.dont_write_bytecode = True
from sa.model import Repo, AnalysisError
from sa.report import Check, finish


def main():
    ap = argparse.ArgumentParser()
    ap.add_argument('--repo', default='/repo')
    ap.add_argument('props', nargs='*')
    a = ap.parse_args()
    props = a.props or sorted(f[:-3] for f in os.listdir(os.path.join(HERE, 'rules')) if f.startswith('C') and f.endswith('.py'))
    try:
        repo = Repo(a.repo)
    except Exception as e:        # pylint: disable=broad-except
        for p in props:
            print(f"ANALYSIS-ERROR property={p} model: {e}")
            print(f"###RESULT {p} exit=2")
        return
    for p in props:
        sys.stdout.flush()
        pid = os.fork()
        if pid == 0:
            code = 2
            try:
                mod = importlib.import_module(f'rules.{p}')
                chk = Check(p, 'quick', repo)
                mod.run(chk, repo)
                code = finish(chk, os.path.join(HERE, 'evidence'), 0, write=False)
            except AnalysisError as e:
                print(f"ANALYSIS-ERROR property={p} {e}")
            except SystemExit as e:
                code = e.code if isinstance(e.code, int) else 2
            except Exception:        # pylint: disable=broad-except
                traceback.print_exc(file=sys.stdout)
                print(f"ANALYSIS-ERROR property={p} internal error (traceback above)")
            sys.stdout.flush()
            os._exit(code)
        _, st = os.waitpid(pid, 0)
        print(f"###RESULT {p} exit={os.waitstatus_to_exitcode(st)}")


if __name__ == '__main__':
    main()

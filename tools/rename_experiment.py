#!/usr/bin/env python3
"""Robustness experiment: rename every local variable of every analysed function (one at a time)
and classify the property check's verdict: silent / exit2 (analysis error) / VIOLATION (false alarm)."""
import sys, os, ast, tempfile, shutil, importlib, concurrent.futures as cf
sys.path.insert(0, '/verif')
from sa.model import Repo, AnalysisError, walk_no_nested
from sa.report import Check
from selftest.table import OPS

def variants(repo, prop):
    for q in OPS[prop]['funcs']:
        f = repo.functions.get(q)
        if f is None: continue
        params = set(f.params())
        locs = sorted({n.id for n in walk_no_nested(f.node) if isinstance(n, ast.Name) and isinstance(n.ctx, ast.Store)} - params)
        for name in locs:
            yield q, name

def run(args):
    prop, q, name = args
    repo = Repo('/repo')
    f = repo.func(q)
    class R(ast.NodeTransformer):
        def visit_Name(self, n):
            if n.id == name: n.id = name + '_rn'
            return n
        def visit_arg(self, n):
            if n.arg == name and getattr(self, 'in_lambda', 0): n.arg = name + '_rn'
            return n
        def visit_Lambda(self, n):
            self.in_lambda = getattr(self, 'in_lambda', 0) + 1
            self.generic_visit(n)
            self.in_lambda -= 1
            return n
    tree = ast.parse(f.module.source)
    # find the same function in the fresh tree
    target = None
    for n in ast.walk(tree):
        if isinstance(n, ast.FunctionDef) and n.name == f.node.name and n.lineno == f.node.lineno:
            target = n
    R().visit(target)
    new = ast.unparse(tree)
    d = tempfile.mkdtemp(prefix='rn.', dir='/tmp')
    try:
        shutil.copytree('/repo/moPepGen', d + '/moPepGen', ignore=shutil.ignore_patterns('__pycache__'))
        open(os.path.join(d, f.module.relpath), 'w').write(new)
        r2 = Repo(d)
        mod = importlib.import_module(f'rules.{prop}')
        chk = Check(prop, 'quick', r2)
        try:
            mod.run(chk, r2)
        except AnalysisError as e:
            return prop, q, name, 'exit2', str(e)[:80]
        except Exception as e:
            return prop, q, name, 'crash', f'{type(e).__name__}: {e}'[:80]
        from sa.report import load_known
        known = {(k['property'] + '/' + k['rule'], k['key']) for k in load_known() if k['kind'] == 'finding'}
        new_f = [x for x in chk.findings if (x.rule, x.key) not in known]
        if new_f:
            return prop, q, name, 'VIOLATION', new_f[0].rule + ' ' + new_f[0].key[-60:]
        if chk.floors_missed():
            return prop, q, name, 'exit2', 'floor'
        return prop, q, name, 'silent', ''
    finally:
        shutil.rmtree(d, ignore_errors=True)

if __name__ == '__main__':
    repo = Repo('/repo')
    jobs = [(p, q, n) for p in sorted(OPS) for q, n in variants(repo, p)]
    print(len(jobs), 'rename variants')
    res = {}
    with cf.ProcessPoolExecutor(16) as ex:
        for p, q, n, verdict, info in ex.map(run, jobs):
            res.setdefault(verdict, []).append((p, q.split(':')[1], n, info))
    for v, items in res.items():
        print(v, len(items))
    for v in ('VIOLATION', 'crash', 'exit2'):
        for it in res.get(v, []):
            print(' ', v, it)

#!/bin/bash
# usage: tools/confirm_benign.sh <Cxx> <v> [srcdir]  -> TSV line: id v applies baseline_rc
id=$1; v=$2; src=${3:-/tmp/benign}
sd=$src/$id/$v
d=$(mktemp -d /tmp/bv.XXXX)
git -C /repo worktree add -q --detach $d/r HEAD
cd $d/r
if git apply $sd/patch.diff 2>/dev/null; then ap=1; else ap=0; fi
python3 /verif/tools/baseline_check.py $d/r > $d/base.log 2>&1; b=$?
echo -e "$id\t$v\tapplies=$ap\tbaseline=$b\t$(head -1 $d/base.log)"
cd /; git -C /repo worktree remove --force $d/r; rm -rf $d

#!/usr/bin/env python3
"""Apply benign/<id>/patch.diff (or any patch) to a scratch worktree, run the normaliser and print
what it did; optionally unparse the normalised functions matching a substring.
usage: norm_debug.py <benign-id|patch> [func-substr]"""
import sys, os, subprocess, tempfile, shutil, ast
sys.path.insert(0, '/verif')
from sa.model import Repo
src = sys.argv[1]
patch = src if os.path.exists(src) else f'/verif/benign/{src}/patch.diff'
d = tempfile.mkdtemp(prefix='nd.', dir='/tmp')
try:
    subprocess.run(['git', '-C', '/repo', 'worktree', 'add', '-q', '--detach', f'{d}/r', 'HEAD'], check=True)
    subprocess.run(['git', '-C', f'{d}/r', 'apply', patch], check=True)
    repo = Repo(f'{d}/r')
    info = repo.normal_info
    print({k: v for k, v in info.items() if k != 'bailed'})
    print('EQUIV', {k: v for k, v in repo.equiv_info.items()})
    for b in info.get('bailed', []):
        print('  BAIL', b)
    if len(sys.argv) > 2:
        for q, f in repo.functions.items():
            if sys.argv[2] in q:
                print('#', q)
                print(ast.unparse(f.node))
finally:
    subprocess.run(['git', '-C', '/repo', 'worktree', 'remove', '--force', f'{d}/r'], capture_output=True)
    shutil.rmtree(d, ignore_errors=True)

#!/usr/bin/env python3
"""Snapshot the sources of the package the rules were written against into sa/ref_src.json.gz.
sa/equiv.py parses it as the REFERENCE tree: a changed function that is provably a behaviour-
preserving rewrite of its reference version (identical canonical form, sa/canon.py) is analysed in
its reference shape.  Run only on the unchanged tree (after a `fix:` commit to /repo: re-run, together
with gen_ref_table.py and gen_alpha_table.py)."""
import sys, os, json, gzip
root = sys.argv[1] if len(sys.argv) > 1 else '/repo'
out = {}
for d, _dirs, files in sorted(os.walk(os.path.join(root, 'moPepGen'))):
    for f in sorted(files):
        if f.endswith('.py'):
            p = os.path.join(d, f)
            rel = os.path.relpath(p, root)
            if rel.startswith(os.path.join('moPepGen', 'util')):
                continue
            out[rel] = open(p, encoding='utf-8').read()
dst = '/verif/sa/ref_src.json.gz'
with gzip.GzipFile(dst, 'wb', mtime=0) as h:
    h.write(json.dumps(out, sort_keys=True).encode())
print(len(out), 'files', sum(len(v) for v in out.values()), 'bytes ->', dst, os.path.getsize(dst))

#!/bin/bash
# usage: tools/confirm_seed.sh <Cxx> <v>   -> prints one TSV line: id v clean_rc patched_rc baseline_rc applies
id=$1; v=$2
sd=/tmp/seeds/$id/$v
d=$(mktemp -d /tmp/sv.XXXX)
git -C /repo worktree add -q --detach $d/r HEAD
cd $d/r
/venv/bin/python $sd/demo.py $d/r > $d/clean.log 2>&1; c=$?
if git apply $sd/patch.diff 2>/dev/null; then ap=1; else ap=0; fi
/venv/bin/python $sd/demo.py $d/r > $d/patched.log 2>&1; p=$?
python3 /verif/tools/baseline_check.py $d/r > $d/base.log 2>&1; b=$?
echo -e "$id\t$v\tclean=$c\tpatched=$p\tbaseline=$b\tapplies=$ap\t$(tail -1 $d/patched.log | cut -c1-150)"
cd /; git -C /repo worktree remove --force $d/r; rm -rf $d

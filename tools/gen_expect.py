#!/usr/bin/env python3
"""seeded/EXPECT.json: seed -> properties whose check reports it (exit 1) in the last full seed_matrix run.
The thorough tier of each check replays these seeds as a regression corpus (selftest/driver.py)."""
import json
m = json.load(open('/verif/seeded/MATRIX.json'))
exp = {s: sorted(p for p, v in out.items() if p != 'error' and v.get('exit') == 1) for s, out in sorted(m.items())}
exp = {s: v for s, v in exp.items() if v}
json.dump(exp, open('/verif/seeded/EXPECT.json', 'w'), indent=1, sort_keys=True)
print(len(exp), 'seeds with expectations;', sum(len(v) for v in exp.values()), 'seed x property pairs')

#!/bin/bash
# run the thorough tier (rules + checker self-test) for every property, print a summary
for i in $(seq -w 1 20); do
  p=C$i
  out=$(/verif/check $p --tier thorough --no-evidence 2>&1); rc=$?
  echo "== $p exit=$rc $(echo "$out" | grep -c 'self-test:') misses"
  echo "$out" | grep 'self-test:' | cut -c1-330
done

#!/usr/bin/env python3
"""Soundness audit of the equivalence engine: no behaviour-CHANGING edit may be declared equivalent to
the reference.  Runs every stored seed (seeded/*/patch.diff) through sa.equiv and lists every changed
function that was declared equivalent.  A seed whose changed functions are ALL declared equivalent would be
invisible to the rules: that is a bug in sa/canon.py.   usage: canon_audit.py [filter]"""
import sys, os, subprocess, tempfile, shutil, json, concurrent.futures as cf
sys.path.insert(0, '/verif')
V = '/verif'
flt = sys.argv[1] if len(sys.argv) > 1 else ''
seeds = sorted(d for d in os.listdir(f'{V}/seeded') if os.path.isdir(f'{V}/seeded/{d}') and flt in d)


def one(seed):
    from sa.model import Repo
    d = tempfile.mkdtemp(prefix='ca.', dir='/tmp')
    try:
        shutil.copytree('/repo/moPepGen', f'{d}/moPepGen')
        r = subprocess.run(['git', 'apply', '--include=moPepGen/*', f'{V}/seeded/{seed}/patch.diff'], cwd=d, capture_output=True)
        if r.returncode:
            return seed, None
        repo = Repo(d)
        return seed, {k: v for k, v in repo.equiv_info.items()}
    finally:
        shutil.rmtree(d, ignore_errors=True)


bad = 0
with cf.ProcessPoolExecutor(12) as ex:
    for seed, info in ex.map(one, seeds):
        if info is None:
            print(f"{seed:8s} patch does not apply")
            continue
        eq, neq = info.get('equivalent', []), info.get('not_equivalent', [])
        flag = ''
        if eq and not neq:
            flag = '   <-- ALL changed functions declared equivalent'
            bad += 1
        if eq:
            print(f"{seed:8s} equivalent={eq} not_equivalent={len(neq)}{flag}")
print(f"{len(seeds)} seeds audited, {bad} with every changed function declared equivalent")
sys.exit(1 if bad else 0)

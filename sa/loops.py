"""E8 - affine summaries of ONE loop iteration and sign decisions over a cone.

A coordinate loop (`for exon in self.exon: ...`) is summarised by the paths through one iteration of
its body: the affine comparisons taken, the change of the loop-carried accumulators and how the path
ends (next iteration / break / return / raise).  Obligations are then stated over a *domain*: the
symbols of the iteration are expressed as affine forms over NON-NEGATIVE parameters (e.g. an exonic
offset I in [0, L-1] is I = a, L = a + 1 + b with a, b >= 0), so that the sign of an affine form is
decided by inspection of its coefficients:  min = c0 when every coefficient is >= 0, else -inf.
No solver: coefficient signs only.  Inductive reading: if every passed iteration takes the `next`
path with the stated accumulator change and the exit iteration takes an exit path with the stated
value, the function has the claimed closed form for every number of iterations.
"""
from __future__ import annotations
import ast
from fractions import Fraction
from typing import Dict, List, Optional, Tuple, Callable
from .affine import Aff, Interp, Obj, Path, lift, equal_mod
from .model import unparse

INF = float('inf')


class Domain:
    """substitution of the iteration symbols by affine forms over non-negative parameters"""

    def __init__(self, subst: Dict[str, Aff], params: List[str], note: str = ''):
        self.subst = subst
        self.params = set(params)
        self.note = note

    def apply(self, f: Aff) -> Aff:
        # substitute repeatedly (forms may mention other substituted symbols)
        for _ in range(4):
            g = f.subst(self.subst)
            if g == f:
                break
            f = g
        return f

    def bounds(self, f: Aff) -> Optional[Tuple[float, float]]:
        f = self.apply(f)
        if any(s not in self.params for s in f.t):
            return None
        lo = float(f.c) if all(v >= 0 for v in f.t.values()) else -INF
        hi = float(f.c) if all(v <= 0 for v in f.t.values()) else INF
        return lo, hi

    def decide(self, diff: Aff, op: str, afacts: List[Aff]) -> Optional[bool]:
        """truth of `diff op 0` over the whole domain (None: depends on the point)"""
        d = self.apply(diff)
        for z in afacts:
            zz = self.apply(z)
            if d == zz or d == -zz:
                d = Aff(0)
        b = self.bounds(d)
        if b is None:
            return None
        lo, hi = b
        if op == '<':
            return True if hi < 0 else (False if lo >= 0 else None)
        if op == '<=':
            return True if hi <= 0 else (False if lo > 0 else None)
        if op == '>':
            return True if lo > 0 else (False if hi <= 0 else None)
        if op == '>=':
            return True if lo >= 0 else (False if hi < 0 else None)
        if op == '==':
            return True if lo == hi == 0 else (False if (lo > 0 or hi < 0) else None)
        if op == '!=':
            return False if lo == hi == 0 else (True if (lo > 0 or hi < 0) else None)
        return None

    def pinned(self, diff: Aff, op: str, truth: bool) -> Optional[Aff]:
        """when `diff op 0` (taken with `truth`) is only possible with diff == 0, return the form that is then zero"""
        b = self.bounds(diff)
        if b is None:
            return None
        lo, hi = b
        eff = op if truth else Interp._NEG[op]
        if eff == '>=' and hi == 0:
            return diff
        if eff == '<=' and lo == 0:
            return diff
        if eff == '==':
            return diff
        return None


class IterPath:
    def __init__(self, p: Path, carried: Dict[str, Aff]):
        self.p = p
        self.end = p.end if p.end != 'fallthrough' and p.end != 'continue' else 'next'
        self.ret = p.ret
        self.aconds = p.aconds
        self.delta = {}          # carried name -> (value at the end of the iteration) - (value at its start)
        for name, sym in carried.items():
            v = p.env.get(name)
            self.delta[name] = (v - sym) if isinstance(v, Aff) else None
        self.out = {name: p.env.get(name) for name in carried}
        self.afacts: List[Aff] = []

    def describe(self) -> str:
        cs = ' and '.join(f"{'' if t else 'not '}({d!r} {op} 0)" for d, op, t in self.aconds) or 'always'
        return f"[{cs}] -> {self.end}" + (f" {self.ret!r}" if self.end == 'return' else '') + \
            ''.join(f" {k}+=({v!r})" for k, v in self.delta.items() if v is not None and v != Aff(0))


def iteration_paths(loop: ast.For, strand: int, carried: List[str], canon: Callable[[str], str], pre_env: Dict[str, object] = None,
                    is_strand=None, record=()) -> List[IterPath]:
    it = Interp(strand, canon=canon, record=tuple(record), is_strand=is_strand)
    p = Path()
    p.env = dict(pre_env or {})
    syms = {}
    for name in carried:
        syms[name] = Aff.sym(f"{name}@in")
        p.env[name] = syms[name]
    if isinstance(loop.target, ast.Name):
        p.env[loop.target.id] = Obj(loop.target.id)
    paths = it.run_block([p], loop.body)
    return [IterPath(q, syms) for q in paths]


def feasible(paths: List[IterPath], dom: Domain, extra_subst: Dict[str, Aff] = None) -> List[IterPath]:
    """the iteration paths that can be taken at some point of the domain; every decided comparison must agree"""
    out = []
    for ip in paths:
        afacts: List[Aff] = []
        ok = True
        for diff, op, truth in ip.aconds:
            d = diff.subst(extra_subst) if extra_subst else diff
            v = dom.decide(d, op, afacts)
            if v is None:
                z = dom.pinned(dom.apply(d), op, truth)
                if z is not None:
                    afacts.append(z)
                continue
            if v != truth:
                ok = False
                break
        if ok:
            ip.afacts = afacts
            out.append(ip)
    return out

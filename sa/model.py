"""E1 - repository model: modules, classes, functions, constants, parents.

Pure stdlib `ast`.  Nothing here imports or executes the analysed package.
Qualified names look like ``cli.call_variant_peptide:VariantPeptideCaller.load_reference``
(module path relative to the package, ``:``, dotted scope path).
"""
from __future__ import annotations
import ast
import os
import hashlib
from typing import Dict, List, Optional, Iterable, Tuple


ALPHA = True        # alpha-normalise locals back to reference names (sa/alpha.py)
NORMAL = True       # fold NEW helpers / constants / locals back into the reference shape (sa/normal.py)


class AnalysisError(Exception):
    """The analysis itself is broken (anchor vanished, floor missed, ...): exit 2."""


class FuncInfo:
    def __init__(self, qual, node, module, cls):
        self.qual: str = qual
        self.node: ast.FunctionDef = node
        self.module: 'ModuleInfo' = module
        self.cls: Optional['ClassInfo'] = cls

    @property
    def name(self):
        return self.node.name

    @property
    def where(self):
        return f"{self.module.relpath}:{self.node.lineno}"

    def params(self) -> List[str]:
        a = self.node.args
        return [x.arg for x in a.posonlyargs + a.args + a.kwonlyargs]

    def __repr__(self):
        return f"<Func {self.qual}>"


class ClassInfo:
    def __init__(self, qual, node, module):
        self.qual: str = qual
        self.node: ast.ClassDef = node
        self.module: 'ModuleInfo' = module
        self.methods: Dict[str, FuncInfo] = {}
        self.base_names: List[str] = [unparse(b) for b in node.bases]

    @property
    def name(self):
        return self.node.name


class ModuleInfo:
    def __init__(self, relpath, modname, source, tree):
        self.relpath: str = relpath          # moPepGen/cli/common.py
        self.modname: str = modname          # cli.common
        self.source: str = source
        self.tree: ast.Module = tree
        self.constants: Dict[str, ast.AST] = {}
        self.imports: Dict[str, str] = {}    # local name -> dotted origin


def unparse(node) -> str:
    """Normalised text of a node (whitespace/quote/paren insensitive)."""
    if node is None:
        return ''
    if isinstance(node, list):
        return '; '.join(unparse(x) for x in node)
    return ast.unparse(node)


def norm_stmt(node) -> str:
    """Single-line normalised statement head (used as construct key)."""
    if isinstance(node, (ast.If, ast.While)):
        return f"{type(node).__name__.lower()} {unparse(node.test)}"
    if isinstance(node, ast.For):
        return f"for {unparse(node.target)} in {unparse(node.iter)}"
    if isinstance(node, ast.Try):
        return "try"
    if isinstance(node, ast.With):
        return "with " + ', '.join(unparse(i) for i in node.items)
    if isinstance(node, ast.ExceptHandler):
        return "except " + (unparse(node.type) if node.type else '')
    if isinstance(node, (ast.FunctionDef, ast.ClassDef)):
        return f"def {node.name}"
    return ' '.join(unparse(node).split())


class Repo:
    """Parsed view of <root>/moPepGen."""
    PKG = 'moPepGen'

    def __init__(self, root: str, overlay: Optional[Dict[str, str]] = None, sources: Optional[Dict[str, str]] = None,
                 raw: bool = False):
        self.root = os.path.abspath(root)
        self.overlay = overlay or {}       # relpath -> source text used instead of the file (mutation sweeps)
        self.sources = sources             # relpath -> source: the whole tree given in memory (reference snapshot)
        self.raw = raw                     # no normalisation / equivalence / alpha passes
        self.modules: Dict[str, ModuleInfo] = {}
        self.functions: Dict[str, FuncInfo] = {}
        self.classes: Dict[str, ClassInfo] = {}
        self.parents: Dict[int, ast.AST] = {}
        self.owner: Dict[int, FuncInfo] = {}
        self.renamed: Dict[str, Dict[str, str]] = {}
        self.normal_info: Dict[str, object] = {}
        self.equiv_info: Dict[str, object] = {}
        self._load()
        if NORMAL and not raw:
            from .normal import normalise_repo
            self.normal_info = normalise_repo(self)
            from .equiv import apply_equivalence
            self.equiv_info = apply_equivalence(self)
        if ALPHA and not raw:
            self._alpha()

    # ------------------------------------------------------------------ load
    def _load(self):
        if self.sources is not None:
            for rel in sorted(self.sources):
                self._add_source(rel, self.sources[rel])
            return
        pkg = os.path.join(self.root, self.PKG)
        if not os.path.isdir(pkg):
            raise AnalysisError(f"package directory not found: {pkg}")
        for d, _dirs, files in sorted(os.walk(pkg)):
            for f in sorted(files):
                if not f.endswith('.py'):
                    continue
                p = os.path.join(d, f)
                rel = os.path.relpath(p, self.root)
                if rel in self.overlay:
                    src = self.overlay[rel]
                else:
                    with open(p, 'rt', encoding='utf-8') as h:
                        src = h.read()
                self._add_source(rel, src)

    def _add_source(self, rel, src):
        try:
            tree = ast.parse(src, filename=rel)
        except SyntaxError as e:
            raise AnalysisError(f"cannot parse {rel}: {e}") from e
        modname = rel[len(self.PKG) + 1:-3].replace(os.sep, '.')
        if modname.endswith('.__init__'):
            modname = modname[:-9]
        elif modname == '__init__':
            modname = ''
        m = ModuleInfo(rel, modname, src, tree)
        self.modules[rel] = m
        self._index_module(m)

    def reindex(self):
        """rebuild the indexes after the module ASTs were rewritten in place (sa/normal.py)"""
        self.functions, self.classes, self.parents, self.owner = {}, {}, {}, {}
        for m in self.modules.values():
            m.constants, m.imports = {}, {}
            self._index_module(m)

    def _index_module(self, m: ModuleInfo):
        for node in ast.walk(m.tree):
            for ch in ast.iter_child_nodes(node):
                self.parents[id(ch)] = node
        for st in m.tree.body:
            if isinstance(st, ast.Assign):
                for t in st.targets:
                    if isinstance(t, ast.Name):
                        m.constants[t.id] = st.value
            elif isinstance(st, ast.AnnAssign) and isinstance(st.target, ast.Name) and st.value:
                m.constants[st.target.id] = st.value
            elif isinstance(st, ast.ImportFrom):
                for a in st.names:
                    m.imports[a.asname or a.name] = f"{'.' * st.level}{st.module or ''}.{a.name}"
            elif isinstance(st, ast.Import):
                for a in st.names:
                    m.imports[a.asname or a.name] = a.name
        self._index_scope(m, m.tree.body, '', None)

    def _index_scope(self, m, body, prefix, cls):
        for st in body:
            if isinstance(st, (ast.FunctionDef, ast.AsyncFunctionDef)):
                q = f"{m.modname}:{prefix}{st.name}"
                fi = FuncInfo(q, st, m, cls)
                self.functions[q] = fi
                if cls is not None and prefix == cls.node.name + '.':
                    cls.methods[st.name] = fi
                for sub in ast.walk(st):
                    self.owner.setdefault(id(sub), fi)
                self._index_scope(m, st.body, f"{prefix}{st.name}.", cls)
            elif isinstance(st, ast.ClassDef):
                q = f"{m.modname}:{prefix}{st.name}"
                ci = ClassInfo(q, st, m)
                self.classes[q] = ci
                self._index_scope(m, st.body, f"{prefix}{st.name}.", ci)
            elif isinstance(st, (ast.If, ast.Try, ast.With)):
                # TYPE_CHECKING blocks etc.
                for fld in ('body', 'orelse', 'finalbody'):
                    self._index_scope(m, getattr(st, fld, []) or [], prefix, cls)

    def _alpha(self):
        from .alpha import load_table, normalise
        table = load_table()
        if not table:
            return
        for q, f in self.functions.items():
            if q in table:
                try:
                    ren = normalise(q, f.node, table)
                except RecursionError:
                    ren = {}
                if ren:
                    self.renamed[q] = ren

    # --------------------------------------------------------------- lookup
    def func(self, qual: str) -> FuncInfo:
        f = self.functions.get(qual)
        if f is None:
            raise AnalysisError(f"anchor={qual} (function not found in current tree)")
        return f

    def cls(self, qual: str) -> ClassInfo:
        c = self.classes.get(qual)
        if c is None:
            raise AnalysisError(f"anchor={qual} (class not found in current tree)")
        return c

    def module(self, modname: str) -> ModuleInfo:
        for m in self.modules.values():
            if m.modname == modname:
                return m
        raise AnalysisError(f"anchor={modname} (module not found in current tree)")

    def const(self, modname: str, name: str) -> ast.AST:
        m = self.module(modname)
        if name not in m.constants:
            raise AnalysisError(f"anchor={modname}:{name} (module constant not found)")
        return m.constants[name]

    def class_by_name(self, name: str) -> List[ClassInfo]:
        return [c for c in self.classes.values() if c.name == name]

    def mro(self, ci: ClassInfo) -> List[ClassInfo]:
        """Linearised bases inside the package (depth-first, good enough here)."""
        out, seen = [], set()

        def rec(c):
            if c.qual in seen:
                return
            seen.add(c.qual)
            out.append(c)
            for b in c.base_names:
                bn = b.split('.')[-1]
                for cand in self.class_by_name(bn):
                    rec(cand)
        rec(ci)
        return out

    def method(self, ci: ClassInfo, name: str) -> Optional[FuncInfo]:
        for c in self.mro(ci):
            if name in c.methods:
                return c.methods[name]
        return None

    def funcs_in(self, *mod_prefixes: str, exclude_util=True) -> Iterable[FuncInfo]:
        for f in self.functions.values():
            if exclude_util and f.module.modname.startswith('util'):
                continue
            if not mod_prefixes or any(f.module.modname == p or f.module.modname.startswith(p + '.')
                                       or f.module.modname.startswith(p) and p.endswith('.')
                                       for p in mod_prefixes):
                yield f

    def parent(self, node) -> Optional[ast.AST]:
        return self.parents.get(id(node))

    def ancestors(self, node) -> Iterable[ast.AST]:
        p = self.parent(node)
        while p is not None:
            yield p
            p = self.parent(p)

    def enclosing_stmt(self, node) -> ast.stmt:
        n = node
        while n is not None and not isinstance(n, ast.stmt):
            n = self.parent(n)
        return n

    def loc(self, fi_or_mod, node) -> str:
        m = fi_or_mod.module if isinstance(fi_or_mod, FuncInfo) else fi_or_mod
        return f"{m.relpath}:{getattr(node, 'lineno', 0)}"

    def digest(self) -> str:
        h = hashlib.sha256()
        for rel in sorted(self.modules):
            h.update(rel.encode())
            h.update(self.modules[rel].source.encode())
        return h.hexdigest()[:16]

    def stats(self) -> Tuple[int, int]:
        non_util = [m for m in self.modules.values() if not m.modname.startswith('util')]
        nf = sum(1 for f in self.functions.values() if not f.module.modname.startswith('util'))
        return len(non_util), nf


# ------------------------------------------------------------------ helpers
def calls_in(node) -> List[ast.Call]:
    return [n for n in ast.walk(node) if isinstance(n, ast.Call)]


def call_name(call: ast.Call) -> str:
    """Last attribute / name of the callee: ``a.b.c(...)`` -> ``c``."""
    if not isinstance(call, ast.Call):
        return ''
    f = call.func
    if isinstance(f, ast.Attribute):
        return f.attr
    if isinstance(f, ast.Name):
        return f.id
    return ''


def call_recv(call: ast.Call) -> str:
    f = call.func
    if isinstance(f, ast.Attribute):
        return unparse(f.value)
    return ''


def kwarg(call: ast.Call, name: str) -> Optional[ast.AST]:
    for k in call.keywords:
        if k.arg == name:
            return k.value
    return None


def arg_of(call: ast.Call, fi: Optional[FuncInfo], name: str, pos: Optional[int] = None):
    """Value bound to parameter `name` at a call (keyword, or positional via the
    callee's signature / explicit position)."""
    v = kwarg(call, name)
    if v is not None:
        return v
    if fi is not None:
        ps = fi.params()
        if ps and ps[0] in ('self', 'cls'):
            ps = ps[1:]
        if name in ps:
            pos = ps.index(name)
    if pos is not None and pos < len(call.args) and not any(isinstance(a, ast.Starred) for a in call.args):
        return call.args[pos]
    return None


def names_in(node) -> List[str]:
    return [n.id for n in ast.walk(node) if isinstance(n, ast.Name)]


def str_consts(node) -> List[str]:
    return [n.value for n in ast.walk(node) if isinstance(n, ast.Constant) and isinstance(n.value, str)]


def is_const(node, value) -> bool:
    return isinstance(node, ast.Constant) and node.value == value and type(node.value) is type(value)


def walk_no_nested(node) -> Iterable[ast.AST]:
    """ast.walk that does not descend into nested function/class/lambda bodies."""
    stack = [node]
    first = True
    while stack:
        n = stack.pop()
        yield n
        if not first and isinstance(n, (ast.FunctionDef, ast.AsyncFunctionDef, ast.ClassDef, ast.Lambda)):
            continue
        first = False
        stack.extend(ast.iter_child_nodes(n))

"""E5 - affine-form abstract interpreter with a strand case split.

Values are affine forms  c0 + sum(ci * sym)  over opaque symbols (strings).  Equality of
forms is dictionary equality: no solver.  Straight-line coordinate code only: loops are
not interpreted (assigned names become fresh opaque symbols).
"""
from __future__ import annotations
import ast
from fractions import Fraction
from typing import Dict, List, Tuple, Optional, Callable, Any
from .model import unparse, call_name, kwarg


class Aff:
    __slots__ = ('c', 't')

    def __init__(self, c=0, t=None):
        self.c = Fraction(c)
        self.t: Dict[str, Fraction] = {k: Fraction(v) for k, v in (t or {}).items() if v != 0}

    @staticmethod
    def sym(name: str) -> 'Aff':
        return Aff(0, {name: 1})

    def __add__(self, o):
        o = lift(o)
        t = dict(self.t)
        for k, v in o.t.items():
            t[k] = t.get(k, 0) + v
        return Aff(self.c + o.c, t)

    def __neg__(self):
        return Aff(-self.c, {k: -v for k, v in self.t.items()})

    def __radd__(self, o):
        return self + o

    def __rsub__(self, o):
        return (-self) + o

    def __sub__(self, o):
        return self + (-lift(o))

    def scale(self, k):
        k = Fraction(k)
        return Aff(self.c * k, {s: v * k for s, v in self.t.items()})

    def is_const(self):
        return not self.t

    def __eq__(self, o):
        try:
            o = lift(o)
        except TypeError:
            return False
        return self.c == o.c and self.t == o.t

    def __hash__(self):
        return hash((self.c, tuple(sorted(self.t.items()))))

    def __repr__(self):
        parts = []
        for k in sorted(self.t):
            v = self.t[k]
            if v == 1:
                parts.append(f"+{k}")
            elif v == -1:
                parts.append(f"-{k}")
            else:
                parts.append(f"{'+' if v > 0 else '-'}{abs(v)}*{k}")
        if self.c != 0 or not parts:
            parts.append(f"{'+' if self.c >= 0 else '-'}{abs(self.c)}")
        s = ''.join(parts)
        return s[1:] if s.startswith('+') else s

    def subst(self, m: Dict[str, 'Aff']) -> 'Aff':
        out = Aff(self.c)
        for k, v in self.t.items():
            out = out + (m[k].scale(v) if k in m else Aff(0, {k: v}))
        return out


def lift(x) -> Aff:
    if isinstance(x, Aff):
        return x
    if isinstance(x, (int, Fraction)):
        return Aff(x)
    raise TypeError(f"not affine: {x!r}")


class Obj:
    """A non-numeric value tracked by its canonical text (for alias resolution)."""
    __slots__ = ('text', 'fields')

    def __init__(self, text, fields=None):
        self.text = text
        self.fields: Dict[str, Any] = fields or {}

    def __repr__(self):
        return f"<{self.text}>"


class Path:
    def __init__(self):
        self.env: Dict[str, Any] = {}
        self.conds: List[Tuple[str, bool]] = []
        self.locs: List[Dict[str, Any]] = []      # recorded constructor calls
        self.ret: Any = None
        self.end: str = 'fallthrough'              # return | raise | fallthrough
        self.raise_text = ''
        self.events: List[Tuple[str, Any]] = []
        self.afacts: List[Aff] = []          # affine forms known to be == 0 on this path
        self.aconds: List[Tuple[Aff, str, bool]] = []   # (lhs - rhs, comparison operator, truth) of affine comparisons taken

    def fork(self):
        p = Path()
        p.env = dict(self.env)
        p.conds = list(self.conds)
        p.locs = list(self.locs)
        p.events = list(self.events)
        p.afacts = list(self.afacts)
        p.aconds = list(self.aconds)
        return p


STRAND_POS = ('== 1', "== '+'")
STRAND_NEG = ('== -1', "== '-'")


class Interp:
    """Interpret one function on one strand.

    call_models: name -> fn(interp, path, call_node, args(list of values), kwargs(dict)) -> value
    canon: symbol text -> canonical text
    record: names of constructor calls to record with their evaluated keyword args
    """

    def __init__(self, strand: int, call_models=None, canon: Callable[[str], str] = None,
                 record=('FeatureLocation',), max_paths=512, is_strand: Callable[[str], bool] = None,
                 cond_filter: Callable[[str], Optional[bool]] = None):
        self.strand = strand
        self.models = call_models or {}
        self.canon = canon or (lambda s: s)
        self.record = set(record)
        self.max_paths = max_paths
        self.is_strand = is_strand or (lambda t: t.split('.')[-1] == 'strand' or t == 'strand')
        self.cond_filter = cond_filter or (lambda t: None)
        self.fresh = 0

    # ------------------------------------------------------------ expressions
    def sym(self, text: str) -> Aff:
        return Aff.sym(self.canon(text))

    def text_of(self, v) -> str:
        if isinstance(v, Aff):
            return repr(v)
        if isinstance(v, Obj):
            return v.text
        if isinstance(v, tuple):
            return '(' + ', '.join(self.text_of(x) for x in v) + ')'
        return str(v)

    def ev(self, p: Path, e) -> Any:
        if isinstance(e, ast.Constant):
            if isinstance(e.value, bool):
                return Obj(str(e.value))
            if isinstance(e.value, int):
                return Aff(e.value)
            return Obj(repr(e.value))
        if isinstance(e, ast.Name):
            if e.id in p.env:
                return p.env[e.id]
            return self.sym(e.id)
        if isinstance(e, ast.Attribute):
            base = self.ev(p, e.value)
            if isinstance(base, Obj):
                if e.attr in base.fields:
                    return base.fields[e.attr]
                return self._leaf(f"{base.text}.{e.attr}")
            if isinstance(base, Aff):
                return self._leaf(f"{repr(base)}.{e.attr}")
            return self._leaf(f"{self.text_of(base)}.{e.attr}")
        if isinstance(e, ast.Subscript):
            base = self.ev(p, e.value)
            idx = self.ev(p, e.slice) if not isinstance(e.slice, ast.Slice) else None
            if isinstance(base, tuple) and isinstance(idx, Aff) and idx.is_const():
                return base[int(idx.c)]
            if isinstance(e.slice, ast.Slice):
                lo = self.ev(p, e.slice.lower) if e.slice.lower is not None else None
                hi = self.ev(p, e.slice.upper) if e.slice.upper is not None else None
                o = Obj(f"{self.text_of(base)}[{self.text_of(lo) if lo is not None else ''}:{self.text_of(hi) if hi is not None else ''}]")
                o.fields = {'__slice_base__': base, '__lo__': lo, '__hi__': hi}
                return o
            if isinstance(idx, Aff) and (not isinstance(base, Aff) or (len(base.t) == 1 and base.c == 0)):
                o = Obj(f"{self.text_of(base)}[{self.text_of(idx)}]")
                o.fields = {'__slice_base__': base, '__lo__': idx, '__hi__': idx + 1, '__index__': idx}
                return o
            return self._leaf(f"{self.text_of(base)}[{self.text_of(idx)}]")
        if isinstance(e, ast.BinOp):
            l, r = self.ev(p, e.left), self.ev(p, e.right)
            if isinstance(l, Obj) and '__index__' in l.fields:
                l = Aff.sym(self.canon(l.text))
            if isinstance(r, Obj) and '__index__' in r.fields:
                r = Aff.sym(self.canon(r.text))
            if isinstance(l, Aff) and isinstance(r, Aff):
                if isinstance(e.op, ast.Add):
                    return l + r
                if isinstance(e.op, ast.Sub):
                    return l - r
                if isinstance(e.op, ast.Mult):
                    if l.is_const():
                        return r.scale(l.c)
                    if r.is_const():
                        return l.scale(r.c)
            return self._leaf(f"({self.text_of(l)} {type(e.op).__name__} {self.text_of(r)})")
        if isinstance(e, ast.UnaryOp):
            v = self.ev(p, e.operand)
            if isinstance(e.op, ast.USub) and isinstance(v, Aff):
                return -v
            return self._leaf(f"({type(e.op).__name__} {self.text_of(v)})")
        if isinstance(e, ast.Tuple):
            return tuple(self.ev(p, x) for x in e.elts)
        if isinstance(e, ast.Call):
            return self.call(p, e)
        if isinstance(e, ast.IfExp):
            t = self.branch_truth(p, e.test)
            if t is True:
                return self.ev(p, e.body)
            if t is False:
                return self.ev(p, e.orelse)
            return self._leaf(f"ifexp({unparse(e)})")
        return self._leaf(unparse(e))

    def _leaf(self, text: str):
        c = self.canon(text)
        return Aff.sym(c)

    def call(self, p: Path, c: ast.Call):
        nm = call_name(c)
        args = [self.ev(p, a) for a in c.args if not isinstance(a, ast.Starred)]
        kwargs = {k.arg: self.ev(p, k.value) for k in c.keywords if k.arg}
        if nm in ('int', 'str') and len(args) == 1 and not kwargs:
            return args[0]
        if nm in self.models:
            return self.models[nm](self, p, c, args, kwargs)
        recv = ''
        if isinstance(c.func, ast.Attribute):
            recv = self.text_of(self.ev(p, c.func.value)) + '.'
        text = f"{recv}{nm}(" + ', '.join([self.text_of(a) for a in args] + [f"{k}={self.text_of(v)}" for k, v in kwargs.items()]) + ')'
        if nm in self.record:
            o = Obj(text, dict(kwargs))
            for i, a in enumerate(args):
                o.fields[f"arg{i}"] = a
            p.locs.append({'ctor': nm, 'line': c.lineno, 'kwargs': kwargs, 'args': args, 'obj': o})
            return o
        return self._leaf(text)

    # ------------------------------------------------------------- statements
    def branch_truth(self, p: Path, test) -> Optional[bool]:
        """True/False when the test is decided by the strand case, else None."""
        if isinstance(test, ast.Compare) and len(test.ops) == 1:
            lt = unparse(test.left)
            lv = None
            if isinstance(test.left, ast.Name) and test.left.id in p.env and isinstance(p.env[test.left.id], Aff):
                # a local named e.g. `strand` bound to <...>.strand
                keys = list(p.env[test.left.id].t)
                if len(keys) == 1 and self.is_strand(keys[0]):
                    lv = 'strand'
            if lv or self.is_strand(lt):
                rhs = test.comparators[0]
                val = None
                if isinstance(rhs, ast.Constant):
                    val = rhs.value
                elif isinstance(rhs, ast.UnaryOp) and isinstance(rhs.op, ast.USub) and isinstance(rhs.operand, ast.Constant):
                    val = -rhs.operand.value
                if val in (1, -1, '+', '-'):
                    sv = 1 if val in (1, '+') else -1
                    if isinstance(test.ops[0], ast.Eq):
                        return self.strand == sv
                    if isinstance(test.ops[0], ast.NotEq):
                        return self.strand != sv
        if isinstance(test, ast.UnaryOp) and isinstance(test.op, ast.Not):
            t = self.branch_truth(p, test.operand)
            return None if t is None else not t
        f = self.cond_filter(unparse(test))
        if f is not None:
            return f
        return None

    _OPS = {ast.Lt: '<', ast.LtE: '<=', ast.Gt: '>', ast.GtE: '>=', ast.Eq: '==', ast.NotEq: '!='}
    _NEG = {'<': '>=', '<=': '>', '>': '<=', '>=': '<', '==': '!=', '!=': '=='}

    def split(self, p: Path, test) -> List[Tuple[Path, bool]]:
        """paths on which `test` is true / false; and/or/not and comparison chains are decomposed so that every
        affine comparison taken is recorded in path.aconds"""
        if isinstance(test, ast.UnaryOp) and isinstance(test.op, ast.Not):
            return [(q, not t) for q, t in self.split(p, test.operand)]
        if isinstance(test, ast.BoolOp):
            is_and = isinstance(test.op, ast.And)
            live = [(p, None)]
            done: List[Tuple[Path, bool]] = []
            for v in test.values:
                nxt = []
                for q, _ in live:
                    for q2, t in self.split(q, v):
                        if t is (not is_and):      # decided: `and` fails on False, `or` succeeds on True
                            done.append((q2, not is_and))
                        else:
                            nxt.append((q2, None))
                live = nxt
            return done + [(q, is_and) for q, _ in live]
        if isinstance(test, ast.Compare) and len(test.ops) > 1:
            parts = []
            left = test.left
            for op, right in zip(test.ops, test.comparators):
                parts.append(ast.Compare(left=left, ops=[op], comparators=[right]))
                left = right
            return self.split(p, ast.BoolOp(op=ast.And(), values=parts))
        bt = self.branch_truth(p, test)
        if bt is not None:
            return [(p, bt)]
        a, b = p.fork(), p.fork()
        a.conds.append((unparse(test), True))
        b.conds.append((unparse(test), False))
        if isinstance(test, ast.Compare) and len(test.ops) == 1 and type(test.ops[0]) in self._OPS:
            l, r = self.ev(p.fork(), test.left), self.ev(p.fork(), test.comparators[0])
            if isinstance(l, Aff) and isinstance(r, Aff):
                op = self._OPS[type(test.ops[0])]
                a.aconds.append((l - r, op, True))
                b.aconds.append((l - r, op, False))
                if op == '==':
                    a.afacts.append(l - r)
                elif op == '!=':
                    b.afacts.append(l - r)
        return [(a, True), (b, False)]

    def run_block(self, paths: List[Path], stmts) -> List[Path]:
        for st in stmts:
            live = [p for p in paths if p.end == 'fallthrough']
            done = [p for p in paths if p.end != 'fallthrough']
            nxt = []
            for p in live:
                nxt += self.run_stmt(p, st)
            paths = done + nxt
            if len(paths) > self.max_paths:
                raise RuntimeError('affine path budget exceeded')
        return paths

    def assign(self, p: Path, target, value):
        if isinstance(target, ast.Name):
            p.env[target.id] = value
        elif isinstance(target, (ast.Tuple, ast.List)):
            if isinstance(value, tuple) and len(value) == len(target.elts):
                for t, v in zip(target.elts, value):
                    self.assign(p, t, v)
            else:
                for i, t in enumerate(target.elts):
                    self.assign(p, t, self._leaf(f"{self.text_of(value)}[{i}]"))
        elif isinstance(target, ast.Attribute):
            base = self.ev(p, target.value)
            if isinstance(base, Obj):
                base.fields[target.attr] = value
            p.events.append(('store', (unparse(target), value)))
        else:
            p.events.append(('store', (unparse(target), value)))

    def run_stmt(self, p: Path, st) -> List[Path]:
        if isinstance(st, ast.Assign):
            v = self.ev(p, st.value)
            for t in st.targets:
                self.assign(p, t, v)
            return [p]
        if isinstance(st, ast.AnnAssign):
            if st.value is not None:
                self.assign(p, st.target, self.ev(p, st.value))
            return [p]
        if isinstance(st, ast.AugAssign):
            cur = self.ev(p, st.target)
            v = self.ev(p, st.value)
            if isinstance(cur, Aff) and isinstance(v, Aff) and isinstance(st.op, (ast.Add, ast.Sub)):
                nv = cur + v if isinstance(st.op, ast.Add) else cur - v
            else:
                nv = self._leaf(f"({self.text_of(cur)} {type(st.op).__name__}= {self.text_of(v)})")
            self.assign(p, st.target, nv)
            return [p]
        if isinstance(st, ast.If):
            t = self.branch_truth(p, st.test)
            if t is True:
                return self.run_block([p], st.body)
            if t is False:
                return self.run_block([p], st.orelse)
            out = []
            for q, truth in self.split(p, st.test):
                out += self.run_block([q], st.body if truth else st.orelse)
            return out
        if isinstance(st, ast.Break):
            p.end = 'break'
            return [p]
        if isinstance(st, ast.Continue):
            p.end = 'continue'
            return [p]
        if isinstance(st, ast.Return):
            p.ret = self.ev(p, st.value) if st.value is not None else None
            p.end = 'return'
            return [p]
        if isinstance(st, ast.Raise):
            p.end = 'raise'
            p.raise_text = unparse(st)
            return [p]
        if isinstance(st, ast.Expr):
            if isinstance(st.value, ast.Call):
                v = self.ev(p, st.value)
                p.events.append(('call', (unparse(st.value), v)))
            return [p]
        if isinstance(st, (ast.For, ast.While)):
            # not interpreted: names assigned inside become fresh symbols
            self.fresh += 1
            for n in ast.walk(st):
                if isinstance(n, ast.Name) and isinstance(n.ctx, ast.Store):
                    p.env[n.id] = self._leaf(f"{n.id}@loop{st.lineno}")
            p.events.append(('loop', unparse(st.iter) if isinstance(st, ast.For) else unparse(st.test)))
            return [p]
        if isinstance(st, ast.With):
            return self.run_block([p], st.body)
        if isinstance(st, ast.Try):
            return self.run_block([p], st.body + st.orelse + st.finalbody)
        if isinstance(st, (ast.Pass, ast.Assert, ast.Import, ast.ImportFrom, ast.Global, ast.Nonlocal,
                           ast.FunctionDef, ast.Delete)):
            return [p]
        p.events.append(('unsupported', type(st).__name__))
        return [p]

    def run_function(self, fn: ast.FunctionDef, init_env: Dict[str, Any] = None) -> List[Path]:
        p = Path()
        p.env = dict(init_env or {})
        return self.run_block([p], fn.body)


# -------------------------------------------------------------- model functions
def model_g2gene(S='S', E='E'):
    def m(interp: Interp, p, c, args, kwargs):
        x = kwargs.get('index', args[0] if args else None)
        x = lift(x)
        return (x - Aff.sym(S)) if interp.strand == 1 else (Aff.sym(E) - 1 - x)
    return m


def model_gene2g(S='S', E='E'):
    def m(interp: Interp, p, c, args, kwargs):
        x = kwargs.get('index', args[0] if args else None)
        x = lift(x)
        return (Aff.sym(S) + x) if interp.strand == 1 else (Aff.sym(E) - 1 - x)
    return m


def equal_mod(a: Aff, b: Aff, afacts: List[Aff]) -> bool:
    """a == b given forms known to be zero (tries +-1 multiples of single facts and pairs)."""
    d = a - b
    if d == Aff(0):
        return True
    cands = [Aff(0)]
    for f in afacts:
        cands += [f, -f]
    for x in cands:
        for y in cands:
            if d + x + y == Aff(0):
                return True
    return False


def simple_aff(e, env: Dict[str, 'Aff'] = None) -> Optional[Aff]:
    """Affine form of a plain arithmetic expression: names / attribute chains / len(x) / other
    calls are opaque symbols (their source text); + - unary-minus and * by a constant are
    interpreted.  None when the expression is not affine in that sense (e.g. int(a / 3))."""
    env = env or {}
    if isinstance(e, ast.Constant) and isinstance(e.value, int) and not isinstance(e.value, bool):
        return Aff(e.value)
    if isinstance(e, ast.Name):
        return env.get(e.id, Aff.sym(e.id))
    if isinstance(e, ast.Attribute):
        return Aff.sym(unparse(e))
    if isinstance(e, ast.Call):
        if call_name(e) == 'len' and len(e.args) == 1:
            a = e.args[0]
            # len(x[a:]) = len(x) - a ; len(x[:b]) = b  (only for non-negative bounds; callers state this)
            if isinstance(a, ast.Subscript) and isinstance(a.slice, ast.Slice) and a.slice.step is None:
                lo = simple_aff(a.slice.lower, env) if a.slice.lower is not None else Aff(0)
                if a.slice.upper is None and lo is not None:
                    return Aff.sym(f"len({unparse(a.value)})") - lo
            return Aff.sym(unparse(e))
        if call_name(e) in ('int', 'float'):
            return None
        return Aff.sym(unparse(e))
    if isinstance(e, ast.Subscript):
        return Aff.sym(unparse(e))
    if isinstance(e, ast.UnaryOp) and isinstance(e.op, ast.USub):
        v = simple_aff(e.operand, env)
        return None if v is None else -v
    if isinstance(e, ast.BinOp):
        l, r = simple_aff(e.left, env), simple_aff(e.right, env)
        if l is None or r is None:
            return None
        if isinstance(e.op, ast.Add):
            return l + r
        if isinstance(e.op, ast.Sub):
            return l - r
        if isinstance(e.op, ast.Mult):
            if l.is_const():
                return r.scale(l.c)
            if r.is_const():
                return l.scale(r.c)
        return None
    return None

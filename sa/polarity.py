"""E4 - option polarity (monotonicity) lattice.

polarity of a boolean expression w.r.t. an option O:
   '+'  truth can only go False->True when O increases
   '-'  truth can only go True->False when O increases
   '0'  independent of O
   '?'  mixed / unknown
"""
from __future__ import annotations
import ast
from typing import Dict, Optional, Callable, Set
from .model import unparse, call_name

NEG = {'+': '-', '-': '+', '0': '0', '?': '?'}


def join(a: str, b: str) -> str:
    if a == '0':
        return b
    if b == '0':
        return a
    return a if a == b else '?'


def mentions(e, opt: str, aliases: Set[str]) -> bool:
    for n in ast.walk(e):
        if isinstance(n, ast.Attribute) and n.attr == opt:
            return True
        if isinstance(n, ast.Name) and n.id in aliases:
            return True
    return False


def arith_sign(e, opt, aliases) -> str:
    """monotonicity of an arithmetic expression in O: '+', '-', '0', '?'."""
    if not mentions(e, opt, aliases):
        return '0'
    if isinstance(e, ast.Attribute) and e.attr == opt:
        return '+'
    if isinstance(e, ast.Name) and e.id in aliases:
        return '+'
    if isinstance(e, ast.BinOp):
        l, r = arith_sign(e.left, opt, aliases), arith_sign(e.right, opt, aliases)
        if isinstance(e.op, ast.Add):
            return join(l, r)
        if isinstance(e.op, ast.Sub):
            return join(l, NEG[r])
        if isinstance(e.op, ast.Mult):
            if l == '0' and isinstance(e.left, ast.Constant) and isinstance(e.left.value, (int, float)):
                return r if e.left.value >= 0 else NEG[r]
            if r == '0' and isinstance(e.right, ast.Constant) and isinstance(e.right.value, (int, float)):
                return l if e.right.value >= 0 else NEG[l]
            # (n + 1) * knob  with non-negative factor assumed for counts
            if l == '0':
                return r
            if r == '0':
                return l
        return '?'
    if isinstance(e, ast.UnaryOp) and isinstance(e.op, ast.USub):
        return NEG[arith_sign(e.operand, opt, aliases)]
    if isinstance(e, ast.Call) and call_name(e) in ('int', 'float') and e.args:
        return arith_sign(e.args[0], opt, aliases)
    return '?'


def cmp_pol(left, op, right, opt, aliases) -> str:
    l, r = arith_sign(left, opt, aliases), arith_sign(right, opt, aliases)
    if l == '0' and r == '0':
        return '0'
    if isinstance(op, (ast.Eq, ast.NotEq, ast.In, ast.NotIn, ast.Is, ast.IsNot)):
        return '?'
    # truth of (L < R): increases when R increases / L decreases
    if isinstance(op, (ast.Lt, ast.LtE)):
        return join(NEG[l], r)
    if isinstance(op, (ast.Gt, ast.GtE)):
        return join(l, NEG[r])
    return '?'


def truth_polarity(e, opt: str, aliases: Set[str], summaries: Dict[str, Dict[str, str]] = None,
                   flags: Dict[str, ast.AST] = None, depth=4) -> str:
    summaries = summaries or {}
    flags = flags or {}
    if isinstance(e, ast.BoolOp):
        p = '0'
        for v in e.values:
            p = join(p, truth_polarity(v, opt, aliases, summaries, flags, depth))
        return p
    if isinstance(e, ast.UnaryOp) and isinstance(e.op, ast.Not):
        return NEG[truth_polarity(e.operand, opt, aliases, summaries, flags, depth)]
    if isinstance(e, ast.Compare):
        p = '0'
        left = e.left
        for op, right in zip(e.ops, e.comparators):
            p = join(p, cmp_pol(left, op, right, opt, aliases))
            left = right
        return p
    if isinstance(e, ast.Call):
        nm = call_name(e)
        if nm in summaries and opt in summaries[nm]:
            return summaries[nm][opt]
        if mentions(e, opt, aliases):
            return '?'
        return '0'
    if isinstance(e, ast.Name):
        if e.id in flags and depth > 0:
            return truth_polarity(flags[e.id], opt, aliases, summaries, {k: v for k, v in flags.items() if k != e.id}, depth - 1)
        return '?' if e.id in aliases else '0'
    if isinstance(e, ast.IfExp):
        return '?' if mentions(e, opt, aliases) else '0'
    return '?' if mentions(e, opt, aliases) else '0'

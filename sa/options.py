"""R-OPTION / R-THREAD helpers: CLI option tables, option reads, liveness."""
from __future__ import annotations
import ast
from typing import Dict, List, Tuple, Optional, Set
from .model import Repo, FuncInfo, unparse, call_name, kwarg, walk_no_nested, AnalysisError


def cli_options(repo: Repo, subparser_fn: FuncInfo, depth=2) -> Dict[str, Tuple[str, str]]:
    """dest -> (flag, where) for every add_argument reachable from the sub-parser
    builder (including common.add_args_* helpers it calls)."""
    out: Dict[str, Tuple[str, str]] = {}

    def scan(fi: FuncInfo, d: int):
        for c in [n for n in ast.walk(fi.node) if isinstance(n, ast.Call)]:
            nm = call_name(c)
            if nm == 'add_argument':
                flags = [a.value for a in c.args if isinstance(a, ast.Constant) and isinstance(a.value, str)]
                dest = kwarg(c, 'dest')
                if dest is not None and isinstance(dest, ast.Constant):
                    dn = dest.value
                else:
                    longs = [f for f in flags if f.startswith('--')]
                    if not longs:
                        continue
                    dn = longs[0][2:].replace('-', '_')
                out.setdefault(dn, (flags[-1] if flags else dn, repo.loc(fi, c)))
            elif nm.startswith('add_args_') and d > 0:
                tgt = repo.functions.get(f"cli.common:{nm}")
                if tgt is not None:
                    scan(tgt, d - 1)
    scan(subparser_fn, depth)
    return out


def option_reads(fn_nodes: List[ast.AST], dest: str) -> List[ast.Attribute]:
    out = []
    for fn in fn_nodes:
        for n in ast.walk(fn):
            if isinstance(n, ast.Attribute) and n.attr == dest and unparse(n.value) in ('args', 'self.args'):
                out.append(n)
            if isinstance(n, ast.Call) and call_name(n) in ('getattr', 'hasattr') and len(n.args) >= 2 \
                    and isinstance(n.args[1], ast.Constant) and n.args[1].value == dest:
                out.append(n)
    return out


def is_inert_read(repo: Repo, node: ast.AST) -> bool:
    """The read only feeds the test of an `if` whose branches do nothing (pass/...)."""
    st = repo.enclosing_stmt(node)
    p = repo.parent(node)
    # climb boolean/compare wrappers
    cur = node
    while p is not None and isinstance(p, (ast.UnaryOp, ast.BoolOp, ast.Compare)) and p is not st:
        cur, p = p, repo.parent(p)
    if isinstance(p, ast.If) and p.test is cur:
        def noop(b):
            return all(isinstance(s, ast.Pass) or (isinstance(s, ast.Expr) and isinstance(s.value, ast.Constant)) for s in b)
        return noop(p.body) and noop(p.orelse)
    if isinstance(st, ast.Expr) and st.value is cur:
        return True
    return False


def reachable_functions(repo: Repo, entry: FuncInfo, depth=3, same_pkg_prefixes=('cli.',)) -> List[FuncInfo]:
    """Name-resolved callees of entry (functions/methods of the package whose simple
    name is called), restricted to the given module prefixes; bounded depth."""
    seen = {entry.qual: entry}
    frontier = [entry]
    by_name: Dict[str, List[FuncInfo]] = {}
    for f in repo.functions.values():
        if any(f.module.modname.startswith(p) for p in same_pkg_prefixes):
            by_name.setdefault(f.name, []).append(f)
    for _ in range(depth):
        nxt = []
        for f in frontier:
            for c in [n for n in ast.walk(f.node) if isinstance(n, ast.Call)]:
                nm = call_name(c)
                cands = list(by_name.get(nm, []))
                # constructor call -> __init__ and all methods of the class
                for ci in repo.class_by_name(nm):
                    if any(ci.module.modname.startswith(p) for p in same_pkg_prefixes):
                        cands += list(ci.methods.values())
                for g in cands:
                    if g.qual not in seen:
                        seen[g.qual] = g
                        nxt.append(g)
        frontier = nxt
    return list(seen.values())

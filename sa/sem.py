"""Semantic queries on the normal form of a function (sa.canon.normal_form): path conditions as
must-facts, accept/reject literals of predicates.  Rules built on these do not depend on whether a
condition is written as nested ifs, guard clauses, one boolean expression or an extracted helper."""
from __future__ import annotations
import ast
from typing import Callable, Dict, List, Optional, Set, Tuple
from .canon import normal_form, literal_constants, nnf
from .cfg import CFG, Facts, literal
from .model import unparse


def nf(repo, f, idioms=False, flow=True):
    """cached normal form (AST) of a FuncInfo"""
    cache = repo.__dict__.setdefault('_nf_cache', {})
    key = (f.qual, idioms, flow)
    if key not in cache:
        consts = repo.__dict__.setdefault('_nf_consts', {})
        if f.module.relpath not in consts:
            consts[f.module.relpath] = literal_constants(f.module.tree)
        cache[key] = normal_form(f.node, consts[f.module.relpath], idioms=idioms, flow=flow)
    return cache[key]


def conj_literals(e, truth=True) -> Optional[Set[Tuple[str, bool]]]:
    """literals of an expression that is a conjunction under the given polarity (None if it is not one)"""
    while isinstance(e, ast.UnaryOp) and isinstance(e.op, ast.Not):
        e, truth = e.operand, not truth
    if isinstance(e, ast.BoolOp):
        if (isinstance(e.op, ast.And) and truth) or (isinstance(e.op, ast.Or) and not truth):
            out = set()
            for v in e.values:
                s = conj_literals(v, truth)
                if s is None:
                    continue            # a disjunctive member contributes no sure literal
                out |= s
            return out
        return None
    if isinstance(e, ast.Compare) and len(e.ops) > 1:
        out = set()
        left = e.left
        for op, right in zip(e.ops, e.comparators):
            if truth:
                out.add(literal(ast.Compare(left=left, ops=[op], comparators=[right]), True))
            left = right
        return out if truth else None
    if isinstance(e, ast.Constant):
        return set()
    if isinstance(e, ast.IfExp):
        # (K if c else B): with K a constant of the opposite truth the value has the wanted truth only through B
        def const_is(x, t):
            return isinstance(x, ast.Constant) and bool(x.value) is t
        for k, other, ctruth in ((e.body, e.orelse, False), (e.orelse, e.body, True)):
            if const_is(k, not truth):
                a, b = conj_literals(e.test, ctruth), conj_literals(other, truth)
                return (a or set()) | (b or set())
        return None
    return {literal(e, truth)}


def facts_where(fn_node, site_pred: Callable[[ast.AST], bool], assume: Dict[str, bool] = None):
    """[(statement, Facts)] : must-facts on entry to every statement satisfying site_pred"""
    cfg = CFG(fn_node)
    init = Facts()
    for k, v in (assume or {}).items():
        init = init.assume(ast.parse(k, mode='eval').body, v) or init
    st = cfg.must_facts(init=init)
    out = []
    for n in cfg.nodes:
        if n.kind == 'stmt' and site_pred(n.ast):
            out.append((n.ast, st.get(n.id)))
    return out


def sure_literals(facts: Optional[Facts]) -> Set[Tuple[str, bool]]:
    return set() if facts is None else {(k, v) for k, v in facts.d.items()}


def accept_literals(fn_node) -> Optional[Set[Tuple[str, bool]]]:
    """literals that hold whenever the predicate function returns a true value"""
    sites = facts_where(fn_node, lambda s: isinstance(s, ast.Return))
    acc = None
    for st, fx in sites:
        if fx is None:
            continue          # unreachable
        v = st.value
        if v is None or (isinstance(v, ast.Constant) and not v.value):
            continue
        lits = sure_literals(fx)
        if not (isinstance(v, ast.Constant) and v.value):
            if fx.known(v) is False:
                continue              # on this path the returned expression is known to be false
            c = conj_literals(v, True)
            if c:
                if any(fx.d.get(a) is (not p) for a, p in c):
                    continue
                lits |= c
        acc = lits if acc is None else (acc & lits)
    return acc


def rename_literals(lits, mapping: Dict[str, str]) -> Set[Tuple[str, bool]]:
    out = set()
    for a, p in lits:
        for k, v in mapping.items():
            a = a.replace(k, v)
        out.add((a, p))
    return out


# ------------------------------------------------------------------ structural locators (name independent)
def loops_where(fn_node, iter_pred: Callable[[str], bool]) -> List[ast.For]:
    return [n for n in ast.walk(fn_node) if isinstance(n, ast.For) and iter_pred(unparse(n.iter))]


def target_name(loop: ast.For) -> Optional[str]:
    return loop.target.id if isinstance(loop.target, ast.Name) else None


def facts_in_iteration(fn_node, loop: ast.For, site_pred: Callable[[ast.AST], bool], assume: Dict[str, bool] = None):
    """[(statement, Facts)] for statements inside `loop`: facts that hold on every path from the loop
    head (start of one iteration) to the statement"""
    cfg = CFG(fn_node)
    head = cfg.node_for(loop)
    init = Facts()
    for k, v in (assume or {}).items():
        init = init.assume(ast.parse(k, mode='eval').body, v) or init
    st = cfg.must_facts(start=head, init=init, start_label='loop')
    inside = {id(x) for s in loop.body for x in ast.walk(s)}
    out = []
    for n in cfg.nodes:
        if n.kind == 'stmt' and id(n.ast) in inside and site_pred(n.ast):
            out.append((n.ast, st.get(n.id)))
    return out


def calls_in_stmt(st, name: str) -> List[ast.Call]:
    out = []
    for n in ast.walk(st):
        if isinstance(n, ast.Call):
            f = n.func
            nm = f.attr if isinstance(f, ast.Attribute) else (f.id if isinstance(f, ast.Name) else '')
            if nm == name:
                out.append(n)
    return out


def own_stmt(st) -> bool:
    """simple (non-compound) statement"""
    return not isinstance(st, (ast.If, ast.For, ast.While, ast.Try, ast.With, ast.FunctionDef, ast.ClassDef))


def known(fx: Optional[Facts], formula: str) -> Optional[bool]:
    if fx is None:
        return True          # unreachable site: vacuous
    return fx.known(formula)


def defining_text(fn_node, name: str, depth=3) -> str:
    """text of every expression assigned to local `name`, with the locals it mentions expanded (bounded)"""
    out = []
    for n in ast.walk(fn_node):
        v = None
        if isinstance(n, ast.Assign) and any(isinstance(t, ast.Name) and t.id == name for t in n.targets):
            v = n.value
        elif isinstance(n, ast.AugAssign) and isinstance(n.target, ast.Name) and n.target.id == name:
            v = n.value
        if v is not None:
            t = unparse(v)
            if depth > 0:
                for m in {x.id for x in ast.walk(v) if isinstance(x, ast.Name)} - {name}:
                    sub = defining_text(fn_node, m, depth - 1)
                    if sub:
                        t += ' <- ' + sub
            out.append(t)
    return ' | '.join(out)


# ------------------------------------------------------------------ nearest definitions (name resolution at a site)
def block_chains(fn_node) -> Dict[int, List[Tuple[list, int]]]:
    """id(statement) -> [(block, index)] from the innermost enclosing block outwards"""
    out: Dict[int, List[Tuple[list, int]]] = {}

    def rec(block, chain):
        for i, st in enumerate(block):
            out[id(st)] = [(block, i)] + chain
            for fld in ('body', 'orelse', 'finalbody'):
                b = getattr(st, fld, None)
                if isinstance(b, list) and b and isinstance(b[0], ast.stmt) and not isinstance(st, (ast.FunctionDef, ast.AsyncFunctionDef, ast.ClassDef)):
                    rec(b, [(block, i)] + chain)
            if isinstance(st, ast.Try):
                for h in st.handlers:
                    rec(h.body, [(block, i)] + chain)
    rec(fn_node.body, [])
    return out


def nearest_def(fn_node, stmt, name: str, chains=None) -> Optional[ast.AST]:
    """value of the closest assignment `name = <value>` that precedes `stmt` in its own block or in an enclosing one"""
    chains = chains or block_chains(fn_node)
    for block, idx in chains.get(id(stmt), []):
        for j in range(idx - 1, -1, -1):
            s = block[j]
            if isinstance(s, ast.Assign) and len(s.targets) == 1 and isinstance(s.targets[0], ast.Name) and s.targets[0].id == name:
                return s.value
            # a compound statement that (re)binds the name hides earlier definitions
            if not isinstance(s, (ast.Assign, ast.Expr)) and any(isinstance(n, ast.Name) and n.id == name and isinstance(n.ctx, ast.Store) for n in ast.walk(s)):
                return None
    return None


def _expandable(v, allow_calls=()) -> bool:
    """a definition that may be substituted for its name when comparing expressions: built from names, attributes,
    subscripts, operators, comprehensions and calls of pure functions / getters only"""
    from .canon import PURE_CALLS, PURE_METHODS, PURE_METHOD_PREFIX
    for n in ast.walk(v):
        if isinstance(n, (ast.Yield, ast.YieldFrom, ast.Await, ast.NamedExpr, ast.Lambda)):
            return False
        if isinstance(n, ast.Call):
            f = n.func
            nm = f.attr if isinstance(f, ast.Attribute) else (f.id if isinstance(f, ast.Name) else '')
            if nm in PURE_CALLS or nm in allow_calls or (isinstance(f, ast.Attribute) and (nm in PURE_METHODS or nm.startswith(PURE_METHOD_PREFIX))):
                continue
            return False
    return True


def nearest_def_stmt(fn_node, stmt, name: str, chains=None):
    """(defining Assign, statements executed between it and `stmt`) for the closest `name = <value>` preceding `stmt` in its
    own block or an enclosing one; None when there is none or a compound statement in between rebinds the name"""
    chains = chains or block_chains(fn_node)
    between: List[ast.stmt] = []
    for block, idx in chains.get(id(stmt), []):
        for j in range(idx - 1, -1, -1):
            s = block[j]
            if isinstance(s, ast.Assign) and len(s.targets) == 1 and isinstance(s.targets[0], ast.Name) and s.targets[0].id == name:
                return s, between
            if not isinstance(s, (ast.Assign, ast.Expr)) and any(isinstance(n, ast.Name) and n.id == name and isinstance(n.ctx, ast.Store) for n in ast.walk(s)):
                return None
            between.append(s)
        # leaving this block upwards: when it is a loop body, later statements of the body also run before `stmt` (next iteration)
        owner = _block_owner(fn_node, block)
        if isinstance(owner, (ast.For, ast.While)) and block is owner.body:
            between.extend(block[idx:])
            between.append(owner)          # the loop target itself is a store
    return None


def _block_owner(fn_node, block):
    cache = fn_node.__dict__.setdefault('_block_owner', None)
    if cache is None:
        cache = {}
        for n in ast.walk(fn_node):
            for fld in ('body', 'orelse', 'finalbody'):
                b = getattr(n, fld, None)
                if isinstance(b, list):
                    cache[id(b)] = n
            for h in getattr(n, 'handlers', []) or []:
                cache[id(h.body)] = h
        fn_node.__dict__['_block_owner'] = cache
    return cache.get(id(block))


def _comp_bound(node) -> Set[int]:
    """ids of Name nodes that are comprehension targets (own scope: not stores of the function)"""
    out = set()
    for n in ast.walk(node):
        if isinstance(n, ast.comprehension):
            for t in ast.walk(n.target):
                if isinstance(t, ast.Name):
                    out.add(id(t))
    return out


_MUTATORS = {'append', 'extend', 'add', 'update', 'pop', 'remove', 'insert', 'sort', 'reverse', 'clear', 'setdefault', 'discard', 'popitem',
             'appendleft', 'popleft', 'seek', 'write', 'readline', 'read'}


def _path(e) -> Optional[str]:
    """dotted access path of a name / attribute chain; a subscript or call ends the path at its base (`x.a[0].b` -> 'x.a')"""
    parts = []
    while True:
        if isinstance(e, ast.Attribute):
            parts.append(e.attr)
            e = e.value
        elif isinstance(e, (ast.Subscript, ast.Call)):
            parts = []
            e = e.value if isinstance(e, ast.Subscript) else e.func
            if isinstance(e, ast.Attribute) and not isinstance(e, ast.Subscript):
                # the call / item base: keep the path of the object the method or item belongs to
                pass
        elif isinstance(e, ast.Name):
            return '.'.join([e.id] + parts[::-1])
        else:
            return None


def _stores_in(stmts) -> Set[str]:
    """access paths whose VALUE may change while stmts run: rebinding of a name ('x'), attribute / item stores ('x.a' for
    `x.a = ..`, `x.a[k] = ..`), augmented assignments and mutator-method calls on the object at a path ('x.a' for `x.a.append(..)`)"""
    out = set()
    for s in stmts:
        cb = _comp_bound(s)
        for n in ast.walk(s):
            if isinstance(n, ast.Name) and isinstance(n.ctx, (ast.Store, ast.Del)) and id(n) not in cb:
                out.add(n.id)
            elif isinstance(n, (ast.Attribute, ast.Subscript)) and isinstance(n.ctx, (ast.Store, ast.Del)):
                r = _path(n)
                if r:
                    out.add(r)
            elif isinstance(n, ast.Call) and isinstance(n.func, ast.Attribute) and n.func.attr in _MUTATORS:
                r = _path(n.func.value)
                if r:
                    out.add(r)
            elif isinstance(n, ast.AugAssign):
                r = _path(n.target)
                if r:
                    out.add(r)
    return out


def _conflict(reads: Set[str], writes: Set[str]) -> bool:
    """some read path overlaps a written one (equal, or one is a dotted prefix of the other)"""
    for r in reads:
        for w in writes:
            if r == w or r.startswith(w + '.') or w.startswith(r + '.'):
                return True
    return False


def _read_paths(v) -> Set[str]:
    """maximal access paths read by expression v (comprehension variables excluded)"""
    bound = set()
    for n in ast.walk(v):
        if isinstance(n, ast.comprehension):
            bound |= {t.id for t in ast.walk(n.target) if isinstance(t, ast.Name)}
    out = set()
    inner = set()
    for n in ast.walk(v):
        if isinstance(n, ast.Attribute):
            inner.add(id(n.value))
    for n in ast.walk(v):
        if isinstance(n, (ast.Attribute, ast.Name)) and id(n) not in inner:
            p_ = _path(n)
            if p_ and p_.split('.')[0] not in bound:
                out.add(p_)
    return out


def _free_reads(v) -> Set[str]:
    """names read by expression v, without the variables bound by its own comprehensions"""
    bound = set()
    for n in ast.walk(v):
        if isinstance(n, ast.comprehension):
            bound |= {t.id for t in ast.walk(n.target) if isinstance(t, ast.Name)}
    return {x.id for x in ast.walk(v) if isinstance(x, ast.Name)} - bound


def expand_names(fn_node, stmt, expr, depth=3, chains=None, allow_calls=(), keep=()):
    """expr with local names replaced by their nearest simple definitions (slices, attributes, names, calls of
    pure-looking methods); used to compare expressions written through different intermediate locals.
    A definition is substituted only when none of the names it reads is rebound between the definition and the use, and the
    names inside it are in turn expanded at the DEFINITION (so `x = f(x)` expands to f(<the earlier x>))."""
    import copy as _copy
    chains = chains or block_chains(fn_node)

    class R(ast.NodeTransformer):
        def visit_Name(self, n):
            if isinstance(n.ctx, ast.Load) and depth > 0 and n.id not in keep:
                r = nearest_def_stmt(fn_node, stmt, n.id, chains)
                if r is None:
                    return n
                d, between = r
                v = d.value
                if isinstance(v, (ast.Subscript, ast.Attribute, ast.Name, ast.Call, ast.BinOp, ast.Compare, ast.BoolOp, ast.IfExp, ast.Constant, ast.UnaryOp, ast.JoinedStr)) \
                        and _expandable(v, allow_calls):
                    if _conflict(_read_paths(v) | {n.id}, _stores_in(between)):
                        return n          # an operand, or the object bound to the name itself, may have changed in between
                    return expand_names(fn_node, d, _copy.deepcopy(v), depth - 1, chains, allow_calls, keep)
            return n
    return R().visit(_copy.deepcopy(expr))


def nearest_store(fn_node, stmt, target_text: str, chains=None) -> Optional[ast.AST]:
    """value of the closest preceding assignment whose target text is `target_text` (names, subscripts, attributes)"""
    chains = chains or block_chains(fn_node)
    for block, idx in chains.get(id(stmt), []):
        for j in range(idx - 1, -1, -1):
            s = block[j]
            if isinstance(s, ast.Assign) and len(s.targets) == 1 and unparse(s.targets[0]) == target_text:
                return s.value
    return None


def yield_tuples(fn_node):
    """[(statement, Facts)] for `yield (a, b)` statements"""
    return facts_where(fn_node, lambda st: isinstance(st, ast.Expr) and isinstance(st.value, ast.Yield) and isinstance(st.value.value, ast.Tuple))


def lit(text: str, truth: bool = True) -> Tuple[str, bool]:
    """canonical literal of an expression text (same normalisation as the facts engine)"""
    return literal(ast.parse(text, mode='eval').body, truth)


def counted_loop(fn_node, loop, chains=None):
    """Index domain of a counting loop, whichever way it is written.

    `for v in range(lo, hi)` / `range(hi)` / `range(lo, min(h1, h2))`   and
    `v = lo ... while v < h1 and v - k <= h2: <body>; v += 1`            (v advanced exactly once, at the end of the
    body, never otherwise written, no `continue` of this loop, every conjunct an upper bound on v)
    both denote  v = lo, lo + 1, ... while v < min(uppers).   Returns (v, lo, frozenset(uppers), problems) with affine
    forms over the opaque symbols of the source, or None when the loop is not recognisably of that kind."""
    from .affine import simple_aff, Aff
    probs = []
    if isinstance(loop, ast.For):
        it = loop.iter
        if not (isinstance(loop.target, ast.Name) and isinstance(it, ast.Call) and isinstance(it.func, ast.Name) and it.func.id == 'range'
                and 1 <= len(it.args) <= 3 and not it.keywords):
            return None
        if len(it.args) == 3 and not (isinstance(it.args[2], ast.Constant) and it.args[2].value == 1):
            return None
        v = loop.target.id
        lo = simple_aff(it.args[0]) if len(it.args) >= 2 else Aff(0)
        hi_e = it.args[1] if len(it.args) >= 2 else it.args[0]
        his = hi_e.args if isinstance(hi_e, ast.Call) and isinstance(hi_e.func, ast.Name) and hi_e.func.id == 'min' and not hi_e.keywords else [hi_e]
        ups = [simple_aff(h) for h in his]
        if lo is None or any(u is None for u in ups):
            return None
        for n in ast.walk(loop):
            if n is not loop.target and isinstance(n, ast.Name) and n.id == v and isinstance(n.ctx, ast.Store):
                probs.append(f"loop variable {v} is rebound inside the loop")
        return v, lo, frozenset(ups), probs
    if not isinstance(loop, ast.While) or loop.orelse:
        return None
    atoms = loop.test.values if isinstance(loop.test, ast.BoolOp) and isinstance(loop.test.op, ast.And) else [loop.test]
    # the counter: the name advanced by the last statement of the body
    last = loop.body[-1] if loop.body else None
    if not (isinstance(last, ast.AugAssign) and isinstance(last.op, ast.Add) and isinstance(last.target, ast.Name)
            and isinstance(last.value, ast.Constant) and last.value.value == 1):
        return None
    v = last.target.id
    ups = []
    for a in atoms:
        if not (isinstance(a, ast.Compare) and len(a.ops) == 1):
            return None
        l, r = simple_aff(a.left), simple_aff(a.comparators[0])
        if l is None or r is None:
            return None
        op = a.ops[0]
        if isinstance(op, (ast.Gt, ast.GtE)):
            l, r = r, l
            op = ast.Lt() if isinstance(op, ast.Gt) else ast.LtE()
        if not isinstance(op, (ast.Lt, ast.LtE)):
            return None
        d = l - r                       # d < 0  or d <= 0
        cv = d.t.get(v, 0)
        if cv != 1:
            return None
        rest = Aff.sym(v) - d           # v < rest  /  v <= rest
        ups.append(rest if isinstance(op, ast.Lt) else rest + 1)
    chains = chains or block_chains(fn_node)
    init = nearest_def(fn_node, loop, v, chains)
    lo = simple_aff(init) if init is not None else None
    if lo is None:
        return None
    for n in ast.walk(loop):
        if isinstance(n, ast.Name) and n.id == v and isinstance(n.ctx, ast.Store) and n is not last.target:
            probs.append(f"counter {v} is written a second time inside the loop")

    def own_continue(stmts):
        for s in stmts:
            if isinstance(s, ast.Continue):
                return True
            if isinstance(s, (ast.For, ast.While, ast.FunctionDef, ast.AsyncFunctionDef, ast.ClassDef)):
                continue
            for fld in ('body', 'orelse', 'finalbody'):
                if own_continue(getattr(s, fld, []) or []):
                    return True
            for h in getattr(s, 'handlers', []) or []:
                if own_continue(h.body):
                    return True
        return False
    if own_continue(loop.body):
        probs.append(f"a `continue` bypasses the advance of {v}")
    # no statement between the initialisation and the loop may write the counter: nearest_def already returns the closest one
    return v, lo, frozenset(ups), probs


def own_exits(loop) -> List[ast.AST]:
    """break / return / raise statements that leave `loop` early (nested loops keep their own break)"""
    out = []

    def rec(stmts, depth):
        for s in stmts:
            if isinstance(s, (ast.Return, ast.Raise)):
                out.append(s)
            elif isinstance(s, ast.Break) and depth == 0:
                out.append(s)
            elif isinstance(s, (ast.FunctionDef, ast.AsyncFunctionDef, ast.ClassDef)):
                continue
            elif isinstance(s, (ast.For, ast.While)):
                rec(s.body, depth + 1)
                rec(s.orelse, depth)
            else:
                for fld in ('body', 'orelse', 'finalbody'):
                    rec(getattr(s, fld, []) or [], depth)
                for h in getattr(s, 'handlers', []) or []:
                    rec(h.body, depth)
    rec(loop.body, 0)
    return out


def must_set_flow(fn_node, transfer: Callable[[ast.AST, frozenset], frozenset], init=frozenset(), edge_transfer=None):
    """Forward must-analysis over sets (join = intersection): (cfg, {node id: set on entry}).  `transfer(stmt, set)` is
    applied to every completed simple statement; an exceptional edge carries the entry state.  `edge_transfer(test, label, set)`
    (optional) refines the set on the T / F edge of a branch condition."""
    cfg = CFG(fn_node)
    state = {cfg.entry: frozenset(init)}
    work = [cfg.entry]
    while work:
        nid = work.pop()
        node = cfg.nodes[nid]
        fin = state[nid]
        fout = transfer(node.ast, fin) if node.kind == 'stmt' else fin
        for (l, y) in cfg.succ[nid]:
            f2 = fin if l == 'exc' else fout
            if edge_transfer is not None and node.kind == 'test' and l in ('T', 'F'):
                f2 = edge_transfer(node.ast, l, f2)
            old = state.get(y)
            new = f2 if old is None else (old & f2)
            if old is None or new != old:
                state[y] = new
                work.append(y)
    return cfg, state


def facts_at_tests(fn_node, test_pred: Callable[[ast.AST], bool], assume: Dict[str, bool] = None):
    """[(test expression, owning If/While statement, Facts)] : must-facts on entry to every branch condition satisfying test_pred"""
    cfg = CFG(fn_node)
    init = Facts()
    for k, v in (assume or {}).items():
        init = init.assume(ast.parse(k, mode='eval').body, v) or init
    st = cfg.must_facts(init=init)
    owner = {}
    for n in ast.walk(fn_node):
        if isinstance(n, (ast.If, ast.While)):
            owner[id(n.test)] = n
    out = []
    for n in cfg.nodes:
        if n.kind == 'test' and test_pred(n.ast):
            out.append((n.ast, owner.get(id(n.ast)), st.get(n.id)))
    return out


# ------------------------------------------------------------------ decisions as boolean functions (finite truth tables, no solver)
def comp_alpha(e):
    """copy of e with comprehension variables renamed canonically by nesting depth (_c0, _c0b, _c1, ...) so that
    `x in s for x in t` and `tx in s for tx in t` agree"""
    import copy as _copy
    e = _copy.deepcopy(e)

    def rec(n, depth):
        if isinstance(n, (ast.ListComp, ast.SetComp, ast.GeneratorExp, ast.DictComp)):
            ren = {}
            k = 0
            for g in n.generators:
                for t in ast.walk(g.target):
                    if isinstance(t, ast.Name):
                        ren[t.id] = f"_c{depth}" + (chr(ord('a') + k) if k else '')
                        k += 1
            for x in ast.walk(n):
                if isinstance(x, ast.Name) and x.id in ren:
                    x.id = ren[x.id]
            depth += 1
        for c in ast.iter_child_nodes(n):
            rec(c, depth)
    rec(e, 0)
    return e


def decision_value(fn_node, stmts, var: str, chains=None, allow_calls=(), prior=None):
    """The value `var` has after executing `stmts`, as ONE expression: if/elif/else chains become nested conditional
    expressions, every assigned value and every test is expanded to its definition (expand_names).  None when var may be left
    unassigned or a statement kind that could rebind it is not understood."""
    chains = chains or block_chains(fn_node)
    val = prior
    for st in stmts:
        if isinstance(st, ast.Assign) and len(st.targets) == 1 and isinstance(st.targets[0], ast.Name) and st.targets[0].id == var:
            val = expand_names(fn_node, st, st.value, depth=4, chains=chains, allow_calls=allow_calls)
        elif isinstance(st, ast.If):
            stores = {n.id for n in ast.walk(st) if isinstance(n, ast.Name) and isinstance(n.ctx, ast.Store)}
            if var not in stores:
                continue
            t = expand_names(fn_node, st, st.test, depth=4, chains=chains, allow_calls=allow_calls)
            a = decision_value(fn_node, st.body, var, chains, allow_calls, val)
            b = decision_value(fn_node, st.orelse, var, chains, allow_calls, val)
            if a is None or b is None:
                return None
            val = ast.IfExp(test=t, body=a, orelse=b)
        elif any(isinstance(n, ast.Name) and n.id == var and isinstance(n.ctx, ast.Store) for n in ast.walk(st)):
            return None
    return val


def _bool_atoms(e, out):
    """leaves of the boolean structure of e, as canonical literal texts"""
    if isinstance(e, ast.BoolOp):
        for v in e.values:
            _bool_atoms(v, out)
    elif isinstance(e, ast.UnaryOp) and isinstance(e.op, ast.Not):
        _bool_atoms(e.operand, out)
    elif isinstance(e, ast.IfExp):
        _bool_atoms(e.test, out)
        _bool_atoms(e.body, out)
        _bool_atoms(e.orelse, out)
    elif isinstance(e, ast.Constant) and isinstance(e.value, bool):
        pass
    elif isinstance(e, ast.Compare) and len(e.ops) > 1:
        left = e.left
        for op, right in zip(e.ops, e.comparators):
            out.add(literal(ast.Compare(left=left, ops=[op], comparators=[right]), True)[0])
            left = right
    else:
        out.add(literal(e, True)[0])


def _bool_eval(e, asg) -> bool:
    if isinstance(e, ast.BoolOp):
        if isinstance(e.op, ast.And):
            return all(_bool_eval(v, asg) for v in e.values)
        return any(_bool_eval(v, asg) for v in e.values)
    if isinstance(e, ast.UnaryOp) and isinstance(e.op, ast.Not):
        return not _bool_eval(e.operand, asg)
    if isinstance(e, ast.IfExp):
        return _bool_eval(e.body, asg) if _bool_eval(e.test, asg) else _bool_eval(e.orelse, asg)
    if isinstance(e, ast.Constant) and isinstance(e.value, bool):
        return e.value
    if isinstance(e, ast.Compare) and len(e.ops) > 1:
        left = e.left
        for op, right in zip(e.ops, e.comparators):
            t, p = literal(ast.Compare(left=left, ops=[op], comparators=[right]), True)
            if asg[t] is not p:
                return False
            left = right
        return True
    t, p = literal(e, True)
    return asg[t] is p


def tt_equal(e1, e2, max_atoms=16):
    """truth-table equivalence of two boolean-valued expressions over their (canonical, comprehension-alpha-renamed) leaves.
    (True, None) | (False, witness assignment) | (None, reason)"""
    import itertools
    e1, e2 = _split_affix_tuples(comp_alpha(e1)), _split_affix_tuples(comp_alpha(e2))
    atoms: Set[str] = set()
    _bool_atoms(e1, atoms)
    _bool_atoms(e2, atoms)
    names = sorted(atoms)
    if len(names) > max_atoms:
        return None, f"{len(names)} atoms"
    for bits in itertools.product((False, True), repeat=len(names)):
        asg = dict(zip(names, bits))
        if _bool_eval(e1, asg) != _bool_eval(e2, asg):
            return False, {k: v for k, v in asg.items()}
    return True, None


def emit_condition(fn_node, stmts, is_emit: Callable[[ast.stmt], bool], chains=None, allow_calls=()):
    """(emit, fall): boolean expressions (tests expanded to their definitions) for "some statement satisfying is_emit is executed
    while running stmts once" and "control falls off the end of stmts".  if/else, continue / break / return / raise are
    understood; any other compound statement containing an emit makes the result None."""
    chains = chains or block_chains(fn_node)
    T, Fa = ast.Constant(True), ast.Constant(False)

    def conj(a, b):
        if isinstance(a, ast.Constant):
            return b if a.value else Fa
        if isinstance(b, ast.Constant):
            return a if b.value else Fa
        return ast.BoolOp(op=ast.And(), values=[a, b])

    def disj(a, b):
        if isinstance(a, ast.Constant):
            return T if a.value else b
        if isinstance(b, ast.Constant):
            return T if b.value else a
        return ast.BoolOp(op=ast.Or(), values=[a, b])

    def neg(a):
        if isinstance(a, ast.Constant):
            return Fa if a.value else T
        return ast.UnaryOp(op=ast.Not(), operand=a)

    def run(block):
        emit, fall = Fa, T
        for st in block:
            if is_emit(st):
                emit = disj(emit, fall)
                continue
            if isinstance(st, (ast.Continue, ast.Break, ast.Return, ast.Raise)):
                return emit, Fa
            if isinstance(st, ast.If):
                t = expand_names(fn_node, st, st.test, depth=4, chains=chains, allow_calls=allow_calls)
                r1, r2 = run(st.body), run(st.orelse)
                if r1 is None or r2 is None:
                    return None
                (e1, f1), (e2, f2) = r1, r2
                emit = disj(emit, conj(fall, disj(conj(t, e1), conj(neg(t), e2))))
                fall = conj(fall, disj(conj(t, f1), conj(neg(t), f2)))
                continue
            if any(isinstance(x, ast.stmt) and x is not st and is_emit(x) for x in ast.walk(st)):
                return None
        return emit, fall
    return run(stmts)


def with_new_helpers(repo, f):
    """[f] + the NEW helper functions (not in the reference tree, and which could not be inlined) that f calls, transitively:
    a rule that looks for a construct 'in f' also looks there, so that extracting part of f into a helper does not hide it"""
    new = set((getattr(repo, 'normal_info', None) or {}).get('new_helpers', []))
    out, seen, work = [f], {f.qual}, [f]
    by_name = {}
    for q in new:
        g = repo.functions.get(q)
        if g is not None:
            by_name.setdefault(g.node.name, []).append(g)
    while work:
        cur = work.pop()
        for n in ast.walk(cur.node):
            if isinstance(n, ast.Call):
                nm = n.func.attr if isinstance(n.func, ast.Attribute) else (n.func.id if isinstance(n.func, ast.Name) else None)
                for g in by_name.get(nm, []):
                    if g.qual not in seen:
                        seen.add(g.qual)
                        out.append(g)
                        work.append(g)
    return out


def facts_at_loops(fn_node):
    """{id(for statement): Facts} : must-facts on first entry to the head of every `for` loop"""
    cfg = CFG(fn_node)
    st = cfg.must_facts()
    out = {}
    for n in cfg.nodes:
        if n.kind == 'iter':
            out[id(n.ast)] = st.get(n.id)
    return out


def _split_affix_tuples(e):
    """x.startswith((a, b)) -> x.startswith(a) or x.startswith(b)   (same for endswith): one atom per affix"""
    class T(ast.NodeTransformer):
        def visit_Call(self, n):
            self.generic_visit(n)
            if isinstance(n.func, ast.Attribute) and n.func.attr in ('startswith', 'endswith') and len(n.args) == 1 and isinstance(n.args[0], ast.Tuple) \
                    and n.args[0].elts and not n.keywords:
                import copy as _c
                return ast.BoolOp(op=ast.Or(), values=[ast.Call(func=_c.deepcopy(n.func), args=[x], keywords=[]) for x in n.args[0].elts])
            return n
    return ast.fix_missing_locations(T().visit(e))


def enum_slice_loop(fn_node, loop):
    """`for i, x in enumerate(S[lo:hi])` (optionally with leading `if <i beyond bound>: break` guards): the element x is S[lo + i] and
    i runs over [0, min(hi - lo, guard bounds)).  Returns (i, x, S, lo, frozenset(exclusive upper bounds on the POSITION lo + i),
    problems) with affine forms (len(S) is the symbol `len(S)`), or None."""
    from .affine import simple_aff, Aff
    if not (isinstance(loop, ast.For) and isinstance(loop.iter, ast.Call) and isinstance(loop.iter.func, ast.Name) and loop.iter.func.id == 'enumerate'
            and len(loop.iter.args) == 1 and not loop.iter.keywords and isinstance(loop.target, ast.Tuple) and len(loop.target.elts) == 2
            and all(isinstance(e, ast.Name) for e in loop.target.elts)):
        return None
    sl = loop.iter.args[0]
    if not (isinstance(sl, ast.Subscript) and isinstance(sl.value, ast.Name) and isinstance(sl.slice, ast.Slice) and sl.slice.step is None):
        return None
    S = sl.value.id
    LEN = Aff.sym(f'len({S})')

    def bound(e, default):
        if e is None:
            return default
        a = simple_aff(e)
        if a is None:
            return None
        if a.is_const() and a.c < 0:
            return LEN + a.c            # S[:-k] ends at len(S) - k
        return a
    lo, hi = bound(sl.slice.lower, Aff(0)), bound(sl.slice.upper, LEN)
    if lo is None or hi is None:
        return None
    i, x = (e.id for e in loop.target.elts)
    ups = {hi}
    probs = []
    # leading guards: `if <cond>: break` as the first statements of the body bound the index from above
    for st in loop.body:
        if isinstance(st, ast.If) and not st.orelse and len(st.body) == 1 and isinstance(st.body[0], ast.Break):
            t = st.test
            neg = False
            while isinstance(t, ast.UnaryOp) and isinstance(t.op, ast.Not):
                t, neg = t.operand, not neg
            if not (isinstance(t, ast.Compare) and len(t.ops) == 1):
                break
            l, r = simple_aff(t.left), simple_aff(t.comparators[0])
            if l is None or r is None:
                break
            op = type(t.ops[0])
            # the loop CONTINUES while not(break condition)
            cont = {ast.Lt: ast.GtE, ast.LtE: ast.Gt, ast.Gt: ast.LtE, ast.GtE: ast.Lt}.get(op) if not neg else op
            if cont is None:
                break
            d = l - r               # continue while d (cont) 0
            ci = d.t.get(i, 0)
            if ci == 1 and cont in (ast.Lt, ast.LtE):
                rest = Aff.sym(i) - d
                ups.add(lo + (rest if cont is ast.Lt else rest + 1))
            elif ci == -1 and cont in (ast.Gt, ast.GtE):
                rest = Aff.sym(i) + d
                ups.add(lo + (rest if cont is ast.Gt else rest + 1))
            else:
                break
        else:
            break
    for n in ast.walk(loop):
        if isinstance(n, ast.Name) and n.id in (i, x) and isinstance(n.ctx, ast.Store) and not any(n is e for e in loop.target.elts):
            probs.append(f"loop variable {n.id} is rebound inside the loop")
    return i, x, S, lo, frozenset(ups), probs


# ------------------------------------------------------------------ specialisation (constant folding under an assumption)
def specialise(fn_node, subst, tables: Dict[str, ast.AST] = None):
    """Copy of the function with every expression whose text is a key of `subst` (or for which the callable `subst` returns a
    non-None value) replaced by that constant, constants folded (comparisons, membership in literal tuples, not / and / or,
    conditional expressions), single-assignment locals that fold to a constant - or to a lambda / plain name / dotted name -
    propagated, look-ups of a constant key in a module-level table (`tables`: name -> ast.Dict) replaced by the entry, calls of a
    lambda with plain arguments beta-reduced, literal tuple assignments split, and `if` statements with a constant test replaced by
    the branch taken.  A scan written once and parametrised by the strand (`for .. in (xs if forward else reversed(xs))`,
    `if (a > b) if forward else (a < b)`, a table {1: (iter, operator.gt), -1: (reversed, operator.lt)}) becomes, per strand, the
    plain scan the rules read.  Nothing is executed: only literals of the source are combined."""
    import copy as _copy
    fn = _copy.deepcopy(fn_node)
    tables = tables or {}
    consts: Dict[str, object] = {}
    simple: Dict[str, ast.AST] = {}
    lookup = subst if callable(subst) else (lambda t: subst.get(t, _MISSING))

    def stores(name):
        return [n for n in ast.walk(fn) if isinstance(n, ast.Name) and n.id == name and isinstance(n.ctx, (ast.Store, ast.Del))]

    def cval(n):
        return (True, n.value) if isinstance(n, ast.Constant) else ((True, tuple(cval(e)[1] for e in n.elts))
                                                                   if isinstance(n, (ast.Tuple, ast.List, ast.Set)) and all(cval(e)[0] for e in n.elts) else (False, None))

    def is_table(x):
        return (isinstance(x, ast.Name) and x.id in tables) or (isinstance(x, ast.Dict) and x.keys and all(k is not None for k in x.keys))

    def table_entry(tbl, key_node):
        d = tbl if isinstance(tbl, ast.Dict) else tables.get(tbl.id if isinstance(tbl, ast.Name) else tbl)
        if not isinstance(d, ast.Dict) or not isinstance(key_node, ast.Constant):
            return _MISSING
        for k, v in zip(d.keys, d.values):
            if isinstance(k, ast.Constant) and k.value == key_node.value and type(k.value) is type(key_node.value):
                return _copy.deepcopy(v)
            if isinstance(k, ast.UnaryOp) and isinstance(k.op, ast.USub) and isinstance(k.operand, ast.Constant) and -k.operand.value == key_node.value:
                return _copy.deepcopy(v)
        if all(isinstance(k, ast.Constant) or (isinstance(k, ast.UnaryOp) and isinstance(k.operand, ast.Constant)) for k in d.keys):
            return None          # key absent from a table of constant keys
        return _MISSING

    class F(ast.NodeTransformer):
        def visit(self, node):
            if isinstance(node, ast.expr) and not isinstance(getattr(node, 'ctx', None), (ast.Store, ast.Del)):
                try:
                    t = ast.unparse(node)
                except Exception:
                    t = None
                if t is not None:
                    v = lookup(t)
                    if v is not _MISSING and v is not None:
                        return ast.copy_location(ast.Constant(value=v), node)
            return super().visit(node)

        def visit_Name(self, n):
            if isinstance(n.ctx, ast.Load) and n.id in consts:
                return ast.copy_location(ast.Constant(value=consts[n.id]), n)
            if isinstance(n.ctx, ast.Load) and n.id in simple:
                return _copy.deepcopy(simple[n.id])
            return n

        def visit_Lambda(self, n):
            return n          # the body of a lambda is folded when (and if) it is applied

        def visit_UnaryOp(self, n):
            self.generic_visit(n)
            if isinstance(n.op, ast.Not) and isinstance(n.operand, ast.Constant):
                return ast.copy_location(ast.Constant(value=not n.operand.value), n)
            if isinstance(n.op, ast.USub) and isinstance(n.operand, ast.Constant) and isinstance(n.operand.value, (int, float)):
                return ast.copy_location(ast.Constant(value=-n.operand.value), n)
            return n

        def visit_Subscript(self, n):
            self.generic_visit(n)
            if isinstance(n.ctx, ast.Load) and is_table(n.value):
                e = table_entry(n.value, n.slice)
                if e is not _MISSING and e is not None:
                    return e
            if isinstance(n.ctx, ast.Load) and isinstance(n.value, ast.Tuple) and isinstance(n.slice, ast.Constant) and isinstance(n.slice.value, int) \
                    and -len(n.value.elts) <= n.slice.value < len(n.value.elts):
                return n.value.elts[n.slice.value]
            return n

        def visit_Call(self, n):
            self.generic_visit(n)
            f = n.func
            # TABLE.get(key[, default])
            if isinstance(f, ast.Attribute) and f.attr == 'get' and is_table(f.value) and 1 <= len(n.args) <= 2 and not n.keywords:
                e = table_entry(f.value, n.args[0])
                if e is not _MISSING:
                    return e if e is not None else (n.args[1] if len(n.args) == 2 else ast.copy_location(ast.Constant(value=None), n))
            # (lambda a, b: E)(x, y) with plain arguments
            if isinstance(f, ast.Lambda) and not n.keywords and not f.args.kwonlyargs and f.args.vararg is None and f.args.kwarg is None \
                    and len(f.args.args) == len(n.args) and all(isinstance(a, (ast.Name, ast.Attribute, ast.Constant)) for a in n.args):
                m = {p.arg: a for p, a in zip(f.args.args, n.args)}

                class S(ast.NodeTransformer):
                    def visit_Name(s_, x):
                        return _copy.deepcopy(m[x.id]) if isinstance(x.ctx, ast.Load) and x.id in m else x
                return F().visit(S().visit(_copy.deepcopy(f.body)))
            # enumerate(iter(xs)) iterates like enumerate(xs)
            if isinstance(f, ast.Name) and f.id == 'enumerate' and n.args and isinstance(n.args[0], ast.Call) and isinstance(n.args[0].func, ast.Name) \
                    and n.args[0].func.id == 'iter' and len(n.args[0].args) == 1 and not n.args[0].keywords:
                n.args[0] = n.args[0].args[0]
            return n

        def visit_Compare(self, n):
            self.generic_visit(n)
            if len(n.ops) == 1:
                l_, r_ = n.left, n.comparators[0]
                # a lambda / function object is not None
                for x, y in ((l_, r_), (r_, l_)):
                    if isinstance(x, ast.Lambda) and isinstance(y, ast.Constant) and y.value is None and isinstance(n.ops[0], (ast.Is, ast.IsNot, ast.Eq, ast.NotEq)):
                        return ast.copy_location(ast.Constant(value=isinstance(n.ops[0], (ast.IsNot, ast.NotEq))), n)
                # constant key in / not in TABLE
                if isinstance(n.ops[0], (ast.In, ast.NotIn)) and is_table(r_) and isinstance(l_, ast.Constant):
                    e = table_entry(r_, l_)
                    if e is not _MISSING:
                        return ast.copy_location(ast.Constant(value=(e is not None) == isinstance(n.ops[0], ast.In)), n)
                (ka, a), (kb, b) = cval(l_), cval(r_)
                if ka and kb:
                    op = n.ops[0]
                    try:
                        r = {ast.Eq: lambda: a == b, ast.NotEq: lambda: a != b, ast.Lt: lambda: a < b, ast.LtE: lambda: a <= b, ast.Gt: lambda: a > b,
                             ast.GtE: lambda: a >= b, ast.In: lambda: a in b, ast.NotIn: lambda: a not in b,
                             ast.Is: lambda: a is b if isinstance(a, (bool, type(None))) or isinstance(b, (bool, type(None))) else a == b,
                             ast.IsNot: lambda: not (a is b if isinstance(a, (bool, type(None))) or isinstance(b, (bool, type(None))) else a == b)}[type(op)]()
                        return ast.copy_location(ast.Constant(value=bool(r)), n)
                    except Exception:
                        return n
            return n

        def visit_BoolOp(self, n):
            self.generic_visit(n)
            is_and = isinstance(n.op, ast.And)
            keep = []
            for v in n.values:
                if isinstance(v, ast.Constant) and isinstance(v.value, bool):
                    if v.value != is_and:          # False in and / True in or: decides (operands before it have no effects we model)
                        if not keep:
                            return ast.copy_location(ast.Constant(value=v.value), n)
                        keep.append(v)
                        break
                    continue                      # neutral element
                keep.append(v)
            if not keep:
                return ast.copy_location(ast.Constant(value=is_and), n)
            if len(keep) == 1:
                return keep[0]
            n.values = keep
            return n

        def visit_IfExp(self, n):
            self.generic_visit(n)
            if isinstance(n.test, ast.Constant):
                return n.body if n.test.value else n.orelse
            return n

    def fold_block(stmts):
        out = []
        for s in stmts:
            s = F().visit(s)
            for fld in ('body', 'orelse', 'finalbody'):
                b = getattr(s, fld, None)
                if isinstance(b, list) and b and isinstance(b[0], ast.stmt):
                    setattr(s, fld, fold_block(b))
            for h in getattr(s, 'handlers', []) or []:
                h.body = fold_block(h.body)
            if isinstance(s, ast.If) and isinstance(s.test, ast.Constant):
                out.extend(s.body if s.test.value else s.orelse)
                if out and isinstance(out[-1], (ast.Raise, ast.Return, ast.Continue, ast.Break)):
                    break          # the rest of the block is dead
                continue
            # a, b = (x, y)  ->  a = x; b = y   (names on the left, no name of the left read on the right)
            if isinstance(s, ast.Assign) and len(s.targets) == 1 and isinstance(s.targets[0], ast.Tuple) and isinstance(s.value, ast.Tuple) \
                    and len(s.targets[0].elts) == len(s.value.elts) and all(isinstance(t, ast.Name) for t in s.targets[0].elts) \
                    and not ({t.id for t in s.targets[0].elts} & {x.id for x in ast.walk(s.value) if isinstance(x, ast.Name)}):
                parts = [ast.copy_location(ast.Assign(targets=[t], value=v), s) for t, v in zip(s.targets[0].elts, s.value.elts)]
                out.extend(fold_block(parts))
                continue
            if isinstance(s, ast.Assign) and len(s.targets) == 1 and isinstance(s.targets[0], ast.Name) and len(stores(s.targets[0].id)) == 1:
                if isinstance(s.value, ast.Constant) and isinstance(s.value.value, (bool, int, str, type(None))):
                    consts[s.targets[0].id] = s.value.value
                elif isinstance(s.value, ast.Lambda) or (isinstance(s.value, (ast.Name, ast.Attribute)) and ast.unparse(s.value) in _SIMPLE_CALLABLES):
                    simple[s.targets[0].id] = s.value
            if isinstance(s, (ast.For, ast.While)) and not s.body:
                s.body = [ast.Pass()]
            if isinstance(s, ast.If) and not s.body:
                s.body = [ast.Pass()]
            out.append(s)
        return out
    fn.body = fold_block(fn.body)
    ast.fix_missing_locations(fn)
    return fn


_MISSING = object()
_SIMPLE_CALLABLES = {'iter', 'reversed', 'sorted', 'list', 'tuple', 'operator.gt', 'operator.lt', 'operator.ge', 'operator.le', 'operator.eq', 'operator.ne'}


def module_tables(module) -> Dict[str, ast.AST]:
    """module-level constants that are dictionaries with constant keys (dispatch / parameter tables)"""
    return {k: v for k, v in module.constants.items() if isinstance(v, ast.Dict) and v.keys and all(k_ is not None for k_ in v.keys)}


def format_call_to_fstring(call):
    """`'a{}b{}'.format(x, y)` / `'{0}-{1}'.format(..)` / `'{s}-{e}'.format(s=.., e=..)` as the equivalent JoinedStr (None when the call
    is not a str.format on a constant template with plain fields)."""
    import string
    if not (isinstance(call, ast.Call) and isinstance(call.func, ast.Attribute) and call.func.attr == 'format'
            and isinstance(call.func.value, ast.Constant) and isinstance(call.func.value.value, str)):
        return None
    if any(isinstance(a, ast.Starred) for a in call.args) or any(k.arg is None for k in call.keywords):
        return None
    kw = {k.arg: k.value for k in call.keywords}
    vals, auto = [], 0
    try:
        for lit, field, spec, conv in string.Formatter().parse(call.func.value.value):
            if lit:
                vals.append(ast.Constant(value=lit))
            if field is None:
                continue
            if field == '':
                e = call.args[auto]
                auto += 1
            elif field.isdigit():
                e = call.args[int(field)]
            elif field in kw:
                e = kw[field]
            else:
                return None
            fs = ast.JoinedStr(values=[ast.Constant(value=spec)]) if spec else None
            vals.append(ast.FormattedValue(value=e, conversion={None: -1, 's': 115, 'r': 114, 'a': 97}[conv], format_spec=fs))
    except (IndexError, KeyError, ValueError):
        return None
    return ast.fix_missing_locations(ast.copy_location(ast.JoinedStr(values=vals), call))

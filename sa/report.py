"""Findings, obligations, evidence JSON, known-findings matching, exit codes."""
from __future__ import annotations
import json
import os
import re
import time
from typing import List, Dict, Optional, Any

VERIF = os.path.dirname(os.path.dirname(os.path.abspath(__file__)))
KNOWN = os.path.join(VERIF, 'known_findings.txt')


class Finding:
    def __init__(self, rule, key, where, msg, path=None):
        self.rule = rule          # e.g. C07.a/R-DEFUSE
        self.key = key            # construct key: qualname::normalised construct
        self.where = where        # file:line
        self.msg = msg
        self.path = path or []    # printed statements for path rules

    def ident(self):
        return f"rule={self.rule} key={self.key}"

    def to_json(self):
        return {'rule': self.rule, 'key': self.key, 'where': self.where, 'msg': self.msg, 'path': self.path}


class Check:
    """Accumulates obligations / findings / notes for one property run."""

    def __init__(self, prop: str, tier: str, repo):
        self.prop = prop
        self.tier = tier
        self.repo = repo
        self.t0 = time.time()
        self.obligations: List[Dict[str, Any]] = []
        self.findings: List[Finding] = []
        self.notes: List[str] = []
        self.functions = set()
        self.call_sites = 0
        self.paths = 0
        self.rules: Dict[str, Dict[str, Any]] = {}
        self.clauses: List[str] = []
        self.not_decided: List[str] = []
        self.extra: Dict[str, Any] = {}
        self.selftest: Optional[Dict[str, Any]] = None
        self.undecided_list: List[str] = []

    # rule registration -----------------------------------------------------
    def rule(self, rid: str, text: str, floor: int = 1):
        self.rules[rid] = {'id': rid, 'rule': text, 'floor': floor, 'instances': 0, 'discharged': 0}

    def ob(self, rid: str, instance: str, where: str, ok: bool, detail: str = '', key: str = None,
           path=None, fn=None):
        """Record one obligation (rule instance).  ok=False creates a finding."""
        r = self.rules[rid]
        r['instances'] += 1
        if fn is not None:
            self.functions.add(fn)
        o = {'rule': rid, 'instance': instance, 'where': where, 'status': 'discharged' if ok else 'VIOLATED'}
        if detail:
            o['detail'] = detail
        self.obligations.append(o)
        if ok:
            r['discharged'] += 1
        else:
            self.findings.append(Finding(f"{self.prop}/{rid}", key or instance, where, detail or instance, path))
        return ok

    def undecided(self, rid: str, instance: str, where: str, reason: str, key: str = None, fn=None):
        """the rule could not recognise the construct it reasons about (shape changed): neither held nor violated.
        Reported as an analysis error (exit 2), never as a violation."""
        r = self.rules[rid]
        r['instances'] += 1
        if fn is not None:
            self.functions.add(fn)
        self.obligations.append({'rule': rid, 'instance': instance, 'where': where, 'status': 'UNDECIDED', 'detail': reason})
        self.undecided_list.append(f"{self.prop}/{rid} {where} key={key or instance}: {reason}")

    def note(self, msg):
        self.notes.append(msg)

    def uses(self, *fns):
        for f in fns:
            self.functions.add(f.qual if hasattr(f, 'qual') else f)

    # finishing -----------------------------------------------------------------
    def floors_missed(self) -> List[str]:
        out = []
        for r in self.rules.values():
            if r['instances'] < r['floor']:
                out.append(f"rule {r['id']}: {r['instances']} instances < floor {r['floor']}")
        return out


def load_known() -> List[Dict[str, str]]:
    out = []
    if not os.path.exists(KNOWN):
        return out
    for line in open(KNOWN, encoding='utf-8'):
        line = line.rstrip('\n')
        if not line.strip() or line.lstrip().startswith('#'):
            continue
        m = re.match(r'finding:\s+property=(\S+)\s+rule=(\S+)\s+key=(.*?)\s+::\s+(.*)$', line)
        if m:
            out.append({'kind': 'finding', 'property': m.group(1), 'rule': m.group(2),
                        'key': m.group(3).strip(), 'what': m.group(4)})
        elif line.startswith('fixed:'):
            out.append({'kind': 'fixed', 'raw': line})
    return out


def finish(chk: Check, evidence_dir: str, seed: int = 0, write=True) -> int:
    """Print the report, write evidence, return the exit code."""
    known = [k for k in load_known() if k['kind'] == 'finding' and k['property'] == chk.prop]
    missed = chk.floors_missed()
    for n in chk.notes:
        print(f"NOTE: property={chk.prop} {n}")
    new, listed = [], []
    for f in chk.findings:
        hit = None
        for k in known:
            if f"{k['property']}/{k['rule']}" == f.rule and k['key'] == f.key:
                hit = k
                break
        (listed if hit else new).append((f, hit))
    for f, k in listed:
        print(f"KNOWN-FINDING: property={chk.prop} {f.rule} {f.where} {k['what']}")
    replay = os.path.join(evidence_dir, f"{chk.prop}.replay.json")
    for f, _ in new:
        print(f"FINDING: property={chk.prop} rule={f.rule} at {f.where}\n    key={f.key}\n    {f.msg}")
        for line in f.path[:60]:
            print(f"      | {line}")
    nobl = len(chk.obligations)
    ndis = sum(1 for o in chk.obligations if o['status'] == 'discharged')
    print(f"[{chk.prop}] tier={chk.tier} rules={len(chk.rules)} obligations={nobl} discharged={ndis} "
          f"functions={len(chk.functions)} call_sites={chk.call_sites} paths={chk.paths} "
          f"findings={len(chk.findings)} (known {len(listed)}) notes={len(chk.notes)} "
          f"wall={time.time() - chk.t0:.2f}s")
    for r in chk.rules.values():
        print(f"    {r['id']:<10} instances={r['instances']:<4} discharged={r['discharged']:<4} floor={r['floor']:<3} {r['rule'][:100]}")
    code = 0
    if new:
        code = 1
    if missed and not new:
        for m in missed:
            print(f"ANALYSIS-ERROR property={chk.prop} vacuity guard: {m}")
        code = 2
    if chk.undecided_list and not new:
        for u in chk.undecided_list:
            print(f"ANALYSIS-ERROR property={chk.prop} undecided (construct not recognised): {u}")
        code = 2
    if chk.selftest and chk.selftest.get('missed'):
        for m in chk.selftest['missed']:
            print(f"ANALYSIS-ERROR property={chk.prop} self-test: {m}")
        if code == 0:
            code = 2
    if write:
        os.makedirs(evidence_dir, exist_ok=True)
        if new:
            with open(replay, 'wt') as h:
                json.dump({'property': chk.prop, 'findings': [f.to_json() for f, _ in new]}, h, indent=1)
        elif os.path.exists(replay):
            os.remove(replay)
        samples = []
        seen_rules = set()
        for o in chk.obligations:
            if o['rule'] not in seen_rules or o['status'] != 'discharged':
                seen_rules.add(o['rule'])
                samples.append(o)
        samples = samples[:40]
        distinct = len({(o['rule'], o['instance'], o['where']) for o in chk.obligations})
        files, funcs = chk.repo.stats()
        ev = {
            'property_id': chk.prop,
            'tier': chk.tier,
            'seed': seed,
            'level': 'other',
            'coverage': {
                'explanation': (
                    "Static analysis (stdlib ast) of /repo's current sources; nothing is imported or run. "
                    "Decides the structural clauses listed under 'clauses' (necessary conditions of the "
                    "property) on all paths of the analysed functions; the behaviour itself is NOT decided "
                    "(see 'not_decided')."),
                'clauses': chk.clauses,
                'not_decided': chk.not_decided,
                'evaluations': nobl,
                'distinct_nontrivial': distinct,
                'rule': 'one evaluation = one rule instance (obligation) enumerated from the current tree; '
                        'distinct = distinct (rule, instance, location) triples; every instance is a real '
                        'site in the analysed code, so all are non-trivial',
                'samples': samples,
                'obligations': nobl,
                'discharged': ndis,
                'checker_cmd': f"./check {chk.prop} --tier {chk.tier}",
                'trusted_base': ['python ast parser', 'sa/ engine (CFG, literal tracker, resolution rules)',
                                 'frozen rule tables in rules/%s.py' % chk.prop],
                'exhaustive': True,
                'rule_instances': list(chk.rules.values()),
                'functions_analysed': sorted(chk.functions),
                'call_sites': chk.call_sites,
                'paths_enumerated': chk.paths,
                'repo_files_parsed': files,
                'repo_functions_indexed': funcs,
                'repo_digest': chk.repo.digest(),
                'notes': chk.notes,
                'known_findings_reported': [f.ident() for f, _ in listed],
                'new_findings': [f.to_json() for f, _ in new],
                'floors_missed': missed,
                'undecided': list(chk.undecided_list),
            },
            'assumptions': [
                'sources parse as the interpreter parses them',
                'call-may-raise assumed for every statement inside a try, none outside',
                'rule tables (anchors, sinks, idioms) frozen from reading the code; a moved anchor is an analysis error, not a pass',
            ],
            'wall_s': round(time.time() - chk.t0, 3),
            'violations': len(new),
        }
        ev['coverage'].update(chk.extra)
        if chk.selftest is not None:
            ev['coverage']['selftest'] = chk.selftest
        with open(os.path.join(evidence_dir, f"{chk.prop}.json"), 'wt') as h:
            json.dump(ev, h, indent=1)
    if code == 1:
        print(f"VIOLATION property={chk.prop} replay={replay}")
    return code

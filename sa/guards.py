"""E3 - dominance-based guard facts, leaving-branch tests, write sets."""
from __future__ import annotations
import ast
import re
from typing import Dict, List, Optional, Set, Tuple, Callable, Iterable
from .cfg import CFG, Facts
from .model import unparse, walk_no_nested, call_name, norm_stmt

MUTATORS = {'append', 'add', 'update', 'extend', 'pop', 'remove', 'sort', 'setdefault', 'insert',
            'clear', 'discard', 'appendleft', 'popleft', 'reverse', '__setitem__', 'write'}
ADDITIVE = {'append', 'add', 'update', 'extend', 'setdefault', 'appendleft', 'insert'}


def assigned_names(st) -> Set[str]:
    out = set()
    tg = []
    if isinstance(st, ast.Assign):
        tg = st.targets
    elif isinstance(st, (ast.AugAssign, ast.AnnAssign)):
        tg = [st.target]
    elif isinstance(st, (ast.For,)):
        tg = [st.target]
    elif isinstance(st, ast.With):
        tg = [i.optional_vars for i in st.items if i.optional_vars is not None]
    for t in tg:
        for n in ast.walk(t):
            if isinstance(n, ast.Name) and isinstance(n.ctx, (ast.Store, ast.Del)):
                out.add(n.id)
            elif isinstance(n, ast.Name) and isinstance(t, (ast.Attribute, ast.Subscript)):
                pass
    return out


def facts_at(cfg: CFG, site: int) -> Dict[str, bool]:
    """Literals implied at `site` by dominating branch edges (atoms whose root names
    are not reassigned between the branch and the site)."""
    out: Dict[str, bool] = {}
    for n in cfg.nodes:
        if n.kind != 'test':
            continue
        for (l, y) in cfg.succ[n.id]:
            if l not in ('T', 'F'):
                continue
            if not cfg.edge_dominates(n.id, l, site):
                continue
            f = Facts()
            if not f._add(n.ast, l == 'T'):
                continue
            # nodes strictly between the edge and the site
            between = cfg.reachable(y, avoid=[n.id]) & _can_reach(cfg, site, avoid={n.id})
            killed: Set[str] = set()
            for b in between:
                nb = cfg.nodes[b]
                if b == site:
                    continue
                if nb.kind == 'stmt':
                    killed |= assigned_names(nb.ast)
                elif nb.kind == 'iter':
                    killed |= assigned_names(nb.ast)
            for k, v in f.d.items():
                if any(re.search(r'(?<![\w.])' + re.escape(name) + r'(?![\w])', k) for name in killed):
                    continue
                out[k] = v
    return out


def _can_reach(cfg: CFG, target: int, avoid=()) -> Set[int]:
    seen, stack = set(), [target]
    while stack:
        x = stack.pop()
        if x in seen or x in avoid:
            continue
        seen.add(x)
        for (_l, p) in cfg.pred[x]:
            stack.append(p)
    return seen


def block_leaves(stmts: List[ast.stmt]) -> bool:
    """Every path through the block ends in continue/return/raise/break."""
    if not stmts:
        return False
    last = stmts[-1]
    if isinstance(last, (ast.Continue, ast.Return, ast.Raise, ast.Break)):
        return True
    if isinstance(last, ast.If):
        return block_leaves(last.body) and block_leaves(last.orelse)
    if isinstance(last, ast.Try):
        body_ok = block_leaves(last.body + last.orelse) if last.orelse else block_leaves(last.body)
        return body_ok and all(block_leaves(h.body) for h in last.handlers)
    if isinstance(last, ast.With):
        return block_leaves(last.body)
    return False


def block_only_skips(stmts: List[ast.stmt], allow_calls=('debug', 'info', 'warning', 'error')) -> bool:
    """Block leaves and does nothing else but log / bump counters."""
    for st in stmts:
        if isinstance(st, (ast.Continue, ast.Return, ast.Raise, ast.Break, ast.Pass)):
            continue
        if isinstance(st, ast.Expr) and isinstance(st.value, ast.Call) and call_name(st.value) in allow_calls:
            continue
        if isinstance(st, ast.AugAssign):
            continue
        return False
    return block_leaves(stmts)


def stmts_of(fn, pred: Callable[[ast.AST], bool]) -> List[ast.AST]:
    return [n for n in walk_no_nested(fn) if pred(n)]


def find_for(fn, iter_text: str = None, target_text: str = None) -> List[ast.For]:
    out = []
    for n in walk_no_nested(fn):
        if isinstance(n, ast.For):
            if iter_text is not None and unparse(n.iter) != iter_text:
                continue
            if target_text is not None and unparse(n.target) != target_text:
                continue
            out.append(n)
    return out


def find_calls(fn, name: str = None, recv: str = None, nested=True) -> List[ast.Call]:
    out = []
    it = ast.walk(fn) if nested else walk_no_nested(fn)
    for n in it:
        if isinstance(n, ast.Call):
            if name is not None and call_name(n) != name:
                continue
            if recv is not None and not (isinstance(n.func, ast.Attribute) and unparse(n.func.value) == recv):
                continue
            out.append(n)
    return out


def writes_in(stmts: Iterable[ast.AST]) -> List[Tuple[str, str, ast.AST]]:
    """(root name, kind, node) for every store / mutator call in the statements.
    kind: 'assign' (name rebinding), 'attr', 'item', or 'call:<method>'."""
    out = []
    for st in stmts:
        for n in walk_no_nested(st):
            if isinstance(n, (ast.Assign, ast.AugAssign, ast.AnnAssign)):
                tg = n.targets if isinstance(n, ast.Assign) else [n.target]
                for t in tg:
                    for e in (t.elts if isinstance(t, (ast.Tuple, ast.List)) else [t]):
                        if isinstance(e, ast.Name):
                            out.append((e.id, 'assign', n))
                        elif isinstance(e, ast.Attribute):
                            out.append((root_name(e), 'attr', n))
                        elif isinstance(e, ast.Subscript):
                            out.append((root_name(e), 'item', n))
            elif isinstance(n, ast.Call) and isinstance(n.func, ast.Attribute) and n.func.attr in MUTATORS:
                out.append((root_name(n.func.value), f'call:{n.func.attr}', n))
    return out


def root_name(e) -> str:
    while isinstance(e, (ast.Attribute, ast.Subscript, ast.Call)):
        e = e.value if not isinstance(e, ast.Call) else e.func
    return e.id if isinstance(e, ast.Name) else unparse(e)


def reads_in(node) -> Set[str]:
    return {n.id for n in ast.walk(node) if isinstance(n, ast.Name) and isinstance(n.ctx, ast.Load)}


def conjuncts(e) -> List[ast.AST]:
    if isinstance(e, ast.BoolOp) and isinstance(e.op, ast.And):
        out = []
        for v in e.values:
            out += conjuncts(v)
        return out
    return [e]


def disjuncts(e) -> List[ast.AST]:
    if isinstance(e, ast.BoolOp) and isinstance(e.op, ast.Or):
        out = []
        for v in e.values:
            out += disjuncts(v)
        return out
    return [e]


def cmp_parts(e) -> Optional[Tuple[str, str, str]]:
    """(left, op, right) of a simple comparison, op as text."""
    if isinstance(e, ast.Compare) and len(e.ops) == 1:
        ops = {ast.Lt: '<', ast.LtE: '<=', ast.Gt: '>', ast.GtE: '>=', ast.Eq: '==', ast.NotEq: '!=',
               ast.In: 'in', ast.NotIn: 'not in', ast.Is: 'is', ast.IsNot: 'is not'}
        return unparse(e.left), ops[type(e.ops[0])], unparse(e.comparators[0])
    return None


FLIP = {'<': '>', '<=': '>=', '>': '<', '>=': '<=', '==': '==', '!=': '!='}
NEG = {'<': '>=', '<=': '>', '>': '<=', '>=': '<', '==': '!=', '!=': '==', 'in': 'not in', 'not in': 'in',
       'is': 'is not', 'is not': 'is'}


def resolve_local(fn, name: str, before: ast.AST = None) -> Optional[ast.AST]:
    """The unique expression assigned to local `name` in fn (None if 0 or >1)."""
    vals = []
    for n in walk_no_nested(fn):
        if isinstance(n, ast.Assign) and len(n.targets) == 1 and isinstance(n.targets[0], ast.Name) \
                and n.targets[0].id == name:
            vals.append(n.value)
        elif isinstance(n, ast.AnnAssign) and isinstance(n.target, ast.Name) and n.target.id == name and n.value:
            vals.append(n.value)
    return vals[0] if len(vals) == 1 else None


def paths_to(cfg: CFG, site: int, start: int = None, loop_bound: int = 1, max_paths: int = 50000):
    """All (bounded) paths from `start` (default function entry) that reach `site`."""
    start = cfg.entry if start is None else start
    can = _can_reach(cfg, site)
    ps = cfg.paths(start, stop=lambda s, l, d: d == site or d not in can, loop_bound=loop_bound, max_paths=max_paths)
    return [p for p in ps if p.steps and p.steps[-1][2] == site]


def always_at(cfg: CFG, site: int, formula: str, start: int = None, loop_bound: int = 1):
    """(holds, witness path) - formula known true on every path reaching site."""
    ps = paths_to(cfg, site, start, loop_bound)
    for p in ps:
        if p.facts.known(formula) is not True:
            return False, p, len(ps)
    return bool(ps), None, len(ps)


def must_at(cfg: CFG, site: int, formula: str, start: int = None, start_label: str = None) -> bool:
    """formula known true on every path from start (default entry) to site (dataflow, no enumeration)."""
    st = cfg.must_facts(start, start_label=start_label)
    f = st.get(site)
    return f is not None and f.known(formula) is True


def iter_covers(cfg: CFG, loop_stmt, formula: str, site_pred: Callable[[ast.AST], bool], max_paths: int = 20000):
    """R-COVER: within ONE iteration of `loop_stmt`, every path on which `formula` is not
    known False passes a statement satisfying `site_pred`.
    Returns (n_paths, n_sites_seen, witnesses) - witnesses are the offending paths."""
    from .cfg import iteration_paths
    ps = iteration_paths(cfg, loop_stmt, max_paths=max_paths)
    wit = []
    seen_sites = set()
    for p in ps:
        hit = [n for n in p.nodes() if n.kind == 'stmt' and site_pred(n.ast)]
        for n in hit:
            seen_sites.add(n.id)
        if hit:
            continue
        if p.end_kind() in ('raise',):
            continue
        if p.facts.known(formula) is False:
            continue
        wit.append(p)
    return len(ps), len(seen_sites), wit


def iter_sound(cfg: CFG, loop_stmt, formulas: List[str], site_pred: Callable[[ast.AST], bool], max_paths: int = 20000):
    """Dual of iter_covers: every iteration path that passes a `site_pred` statement knows
    one of `formulas` to be True.  Returns (n_paths_through_site, witnesses)."""
    from .cfg import iteration_paths
    ps = iteration_paths(cfg, loop_stmt, max_paths=max_paths)
    wit, n = [], 0
    for p in ps:
        if not any(x.kind == 'stmt' and site_pred(x.ast) for x in p.nodes()):
            continue
        n += 1
        if not any(p.facts.known(f) is True for f in formulas):
            wit.append(p)
    return n, wit


ONESHOT_CALLS = {'map', 'filter', 'zip', 'iter', 'reversed', 'enumerate', 'finditer', 'chain', 'islice', 'combinations',
                 'permutations', 'product', 'groupby', 'starmap', 'takewhile', 'dropwhile'}


def _maybe_oneshot(e) -> bool:
    if isinstance(e, ast.GeneratorExp):
        return True
    if isinstance(e, ast.Call) and call_name(e) in ONESHOT_CALLS:
        return True
    if isinstance(e, ast.IfExp):
        return _maybe_oneshot(e.body) or _maybe_oneshot(e.orelse)
    return False


def oneshot_misuse(fn) -> List[Tuple[ast.AST, str, str]]:
    """R-ONESHOT: a local that may hold a one-shot iterator (generator expression, map/filter/zip/
    finditer ...) is (a) the right operand of `in` / `not in` (membership on an iterator CONSUMES it:
    later tests see an exhausted iterator) or (b) iterated inside a loop that does not re-create it.
    Returns (node, name, why)."""
    binds: Dict[str, List[ast.AST]] = {}
    for n in walk_no_nested(fn):
        if isinstance(n, ast.Assign) and len(n.targets) == 1 and isinstance(n.targets[0], ast.Name):
            binds.setdefault(n.targets[0].id, []).append(n)
        elif isinstance(n, ast.AnnAssign) and isinstance(n.target, ast.Name) and n.value is not None:
            binds.setdefault(n.target.id, []).append(n)
    shots = {k: [b for b in v if _maybe_oneshot(b.value)] for k, v in binds.items()}
    shots = {k: v for k, v in shots.items() if v}
    out = []
    if not shots:
        return out
    loops = [l for l in walk_no_nested(fn) if isinstance(l, (ast.For, ast.While))]

    def inside(node, loop):
        return any(x is node for st in loop.body for x in ast.walk(st))
    for n in walk_no_nested(fn):
        if isinstance(n, ast.Compare):
            for op, c in zip(n.ops, n.comparators):
                if isinstance(op, (ast.In, ast.NotIn)) and isinstance(c, ast.Name) and c.id in shots:
                    out.append((n, c.id, f"membership test `{unparse(n)}` on a one-shot iterator (bound at line {shots[c.id][0].lineno}) consumes it"))
        its = []
        if isinstance(n, ast.For):
            its = [n.iter]
        elif isinstance(n, (ast.ListComp, ast.SetComp, ast.DictComp, ast.GeneratorExp)):
            its = [g.iter for g in n.generators]
        for it in its:
            if isinstance(it, ast.Name) and it.id in shots:
                for lp in loops:
                    if lp is n:
                        continue
                    if inside(n, lp) and not any(inside(b, lp) for b in shots[it.id]):
                        out.append((n, it.id, f"`{it.id}` (one-shot, bound at line {shots[it.id][0].lineno}) is iterated inside a loop that does not re-create it"))
    return out


PURE_CALLS = {'sorted', 'reversed', 'list', 'tuple', 'set', 'frozenset', 'dict', 'len', 'str', 'int', 'float', 'min', 'max', 'sum', 'abs',
              'any', 'all', 'zip', 'map', 'filter', 'enumerate', 'range', 'copy', 'deepcopy'}
PURE_METHODS = {'strip', 'lstrip', 'rstrip', 'upper', 'lower', 'startswith', 'endswith', 'union', 'intersection', 'difference',
                'keys', 'values', 'items'}


def discarded_pure(fn) -> List[Tuple[ast.AST, str]]:
    """R-DISCARD: an expression statement whose value is the result of a side-effect-free builtin / method
    (sorted(x), x.strip(), ...) - the author meant to use or re-bind the result."""
    out = []
    for n in walk_no_nested(fn):
        if isinstance(n, ast.Expr) and isinstance(n.value, ast.Call):
            c = n.value
            if isinstance(c.func, ast.Name) and c.func.id in PURE_CALLS:
                out.append((n, f"result of `{unparse(c)[:60]}` is discarded"))
            elif isinstance(c.func, ast.Attribute) and c.func.attr in PURE_METHODS:
                out.append((n, f"result of `{unparse(c)[:60]}` is discarded"))
    return out


def memo_key_gaps(fn) -> List[Tuple[ast.AST, str, List[str]]]:
    """R-MEMO: for the memo idiom `if K in C: return C[K]` (C not a fresh local container), every `self.<attr>`
    the function reads while computing the value must be part of the key K.  Returns (node, key text, missing attrs)."""
    out = []
    for n in walk_no_nested(fn):
        if not (isinstance(n, ast.If) and isinstance(n.test, ast.Compare) and len(n.test.ops) == 1 and isinstance(n.test.ops[0], ast.In)):
            continue
        k, c = n.test.left, n.test.comparators[0]
        if not (n.body and isinstance(n.body[0], ast.Return) and isinstance(n.body[0].value, ast.Subscript)
                and unparse(n.body[0].value.value) == unparse(c) and unparse(n.body[0].value.slice) == unparse(k)):
            continue
        # the container must outlive the call: not bound to a literal / constructor in this function
        if isinstance(c, ast.Name):
            d = resolve_local(fn, c.id)
            if d is not None and isinstance(d, (ast.Dict, ast.List, ast.Set)) or (isinstance(d, ast.Call) and call_name(d) in ('dict', 'set', 'list')):
                continue
        kexpr = k
        if isinstance(k, ast.Name):
            r = resolve_local(fn, k.id)
            kexpr = r if r is not None else k
        key_attrs = {unparse(a) for a in ast.walk(kexpr) if isinstance(a, ast.Attribute) and isinstance(a.value, ast.Name) and a.value.id == 'self'}
        read_attrs = {unparse(a) for a in walk_no_nested(fn) if isinstance(a, ast.Attribute) and isinstance(a.value, ast.Name) and a.value.id == 'self'
                      and isinstance(a.ctx, ast.Load) and not isinstance(getattr(a, '_parent_call', None), ast.Call)}
        # method calls on self (self.f(...)) are not data attributes
        called = {unparse(cl.func) for cl in walk_no_nested(fn) if isinstance(cl, ast.Call) and isinstance(cl.func, ast.Attribute)}
        missing = sorted(a for a in read_attrs - key_attrs - called if not unparse(c).startswith(a))
        out.append((n, unparse(kexpr), missing))
    return out

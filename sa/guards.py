"""E3 - dominance-based guard facts, leaving-branch tests, write sets."""
from __future__ import annotations
import ast
import re
from typing import Dict, List, Optional, Set, Tuple, Callable, Iterable
from .cfg import CFG, Facts
from .model import unparse, walk_no_nested, call_name, norm_stmt

MUTATORS = {'append', 'add', 'update', 'extend', 'pop', 'remove', 'sort', 'setdefault', 'insert',
            'clear', 'discard', 'appendleft', 'popleft', 'reverse', '__setitem__', 'write'}
ADDITIVE = {'append', 'add', 'update', 'extend', 'setdefault', 'appendleft', 'insert'}


def assigned_names(st) -> Set[str]:
    out = set()
    tg = []
    if isinstance(st, ast.Assign):
        tg = st.targets
    elif isinstance(st, (ast.AugAssign, ast.AnnAssign)):
        tg = [st.target]
    elif isinstance(st, (ast.For,)):
        tg = [st.target]
    elif isinstance(st, ast.With):
        tg = [i.optional_vars for i in st.items if i.optional_vars is not None]
    for t in tg:
        for n in ast.walk(t):
            if isinstance(n, ast.Name) and isinstance(n.ctx, (ast.Store, ast.Del)):
                out.add(n.id)
            elif isinstance(n, ast.Name) and isinstance(t, (ast.Attribute, ast.Subscript)):
                pass
    return out


def facts_at(cfg: CFG, site: int) -> Dict[str, bool]:
    """Literals implied at `site` by dominating branch edges (atoms whose root names
    are not reassigned between the branch and the site)."""
    out: Dict[str, bool] = {}
    for n in cfg.nodes:
        if n.kind != 'test':
            continue
        for (l, y) in cfg.succ[n.id]:
            if l not in ('T', 'F'):
                continue
            if not cfg.edge_dominates(n.id, l, site):
                continue
            f = Facts()
            if not f._add(n.ast, l == 'T'):
                continue
            # nodes strictly between the edge and the site
            between = cfg.reachable(y, avoid=[n.id]) & _can_reach(cfg, site, avoid={n.id})
            killed: Set[str] = set()
            for b in between:
                nb = cfg.nodes[b]
                if b == site:
                    continue
                if nb.kind == 'stmt':
                    killed |= assigned_names(nb.ast)
                elif nb.kind == 'iter':
                    killed |= assigned_names(nb.ast)
            for k, v in f.d.items():
                if any(re.search(r'(?<![\w.])' + re.escape(name) + r'(?![\w])', k) for name in killed):
                    continue
                out[k] = v
    return out


def _can_reach(cfg: CFG, target: int, avoid=()) -> Set[int]:
    seen, stack = set(), [target]
    while stack:
        x = stack.pop()
        if x in seen or x in avoid:
            continue
        seen.add(x)
        for (_l, p) in cfg.pred[x]:
            stack.append(p)
    return seen


def block_leaves(stmts: List[ast.stmt]) -> bool:
    """Every path through the block ends in continue/return/raise/break."""
    if not stmts:
        return False
    last = stmts[-1]
    if isinstance(last, (ast.Continue, ast.Return, ast.Raise, ast.Break)):
        return True
    if isinstance(last, ast.If):
        return block_leaves(last.body) and block_leaves(last.orelse)
    if isinstance(last, ast.Try):
        body_ok = block_leaves(last.body + last.orelse) if last.orelse else block_leaves(last.body)
        return body_ok and all(block_leaves(h.body) for h in last.handlers)
    if isinstance(last, ast.With):
        return block_leaves(last.body)
    return False


def block_only_skips(stmts: List[ast.stmt], allow_calls=('debug', 'info', 'warning', 'error')) -> bool:
    """Block leaves and does nothing else but log / bump counters."""
    for st in stmts:
        if isinstance(st, (ast.Continue, ast.Return, ast.Raise, ast.Break, ast.Pass)):
            continue
        if isinstance(st, ast.Expr) and isinstance(st.value, ast.Call) and call_name(st.value) in allow_calls:
            continue
        if isinstance(st, ast.AugAssign):
            continue
        return False
    return block_leaves(stmts)


def stmts_of(fn, pred: Callable[[ast.AST], bool]) -> List[ast.AST]:
    return [n for n in walk_no_nested(fn) if pred(n)]


def find_for(fn, iter_text: str = None, target_text: str = None) -> List[ast.For]:
    out = []
    for n in walk_no_nested(fn):
        if isinstance(n, ast.For):
            if iter_text is not None and unparse(n.iter) != iter_text:
                continue
            if target_text is not None and unparse(n.target) != target_text:
                continue
            out.append(n)
    return out


def find_calls(fn, name: str = None, recv: str = None, nested=True) -> List[ast.Call]:
    out = []
    it = ast.walk(fn) if nested else walk_no_nested(fn)
    for n in it:
        if isinstance(n, ast.Call):
            if name is not None and call_name(n) != name:
                continue
            if recv is not None and not (isinstance(n.func, ast.Attribute) and unparse(n.func.value) == recv):
                continue
            out.append(n)
    return out


def writes_in(stmts: Iterable[ast.AST]) -> List[Tuple[str, str, ast.AST]]:
    """(root name, kind, node) for every store / mutator call in the statements.
    kind: 'assign' (name rebinding), 'attr', 'item', or 'call:<method>'."""
    out = []
    for st in stmts:
        for n in walk_no_nested(st):
            if isinstance(n, (ast.Assign, ast.AugAssign, ast.AnnAssign)):
                tg = n.targets if isinstance(n, ast.Assign) else [n.target]
                for t in tg:
                    for e in (t.elts if isinstance(t, (ast.Tuple, ast.List)) else [t]):
                        if isinstance(e, ast.Name):
                            out.append((e.id, 'assign', n))
                        elif isinstance(e, ast.Attribute):
                            out.append((root_name(e), 'attr', n))
                        elif isinstance(e, ast.Subscript):
                            out.append((root_name(e), 'item', n))
            elif isinstance(n, ast.Call) and isinstance(n.func, ast.Attribute) and n.func.attr in MUTATORS:
                out.append((root_name(n.func.value), f'call:{n.func.attr}', n))
    return out


def root_name(e) -> str:
    while isinstance(e, (ast.Attribute, ast.Subscript, ast.Call)):
        e = e.value if not isinstance(e, ast.Call) else e.func
    return e.id if isinstance(e, ast.Name) else unparse(e)


def reads_in(node) -> Set[str]:
    return {n.id for n in ast.walk(node) if isinstance(n, ast.Name) and isinstance(n.ctx, ast.Load)}


def conjuncts(e) -> List[ast.AST]:
    if isinstance(e, ast.BoolOp) and isinstance(e.op, ast.And):
        out = []
        for v in e.values:
            out += conjuncts(v)
        return out
    return [e]


def disjuncts(e) -> List[ast.AST]:
    if isinstance(e, ast.BoolOp) and isinstance(e.op, ast.Or):
        out = []
        for v in e.values:
            out += disjuncts(v)
        return out
    return [e]


def cmp_parts(e) -> Optional[Tuple[str, str, str]]:
    """(left, op, right) of a simple comparison, op as text."""
    if isinstance(e, ast.Compare) and len(e.ops) == 1:
        ops = {ast.Lt: '<', ast.LtE: '<=', ast.Gt: '>', ast.GtE: '>=', ast.Eq: '==', ast.NotEq: '!=',
               ast.In: 'in', ast.NotIn: 'not in', ast.Is: 'is', ast.IsNot: 'is not'}
        return unparse(e.left), ops[type(e.ops[0])], unparse(e.comparators[0])
    return None


FLIP = {'<': '>', '<=': '>=', '>': '<', '>=': '<=', '==': '==', '!=': '!='}
NEG = {'<': '>=', '<=': '>', '>': '<=', '>=': '<', '==': '!=', '!=': '==', 'in': 'not in', 'not in': 'in',
       'is': 'is not', 'is not': 'is'}


def resolve_local(fn, name: str, before: ast.AST = None) -> Optional[ast.AST]:
    """The unique expression assigned to local `name` in fn (None if 0 or >1)."""
    vals = []
    for n in walk_no_nested(fn):
        if isinstance(n, ast.Assign) and len(n.targets) == 1 and isinstance(n.targets[0], ast.Name) \
                and n.targets[0].id == name:
            vals.append(n.value)
        elif isinstance(n, ast.AnnAssign) and isinstance(n.target, ast.Name) and n.target.id == name and n.value:
            vals.append(n.value)
    return vals[0] if len(vals) == 1 else None


def paths_to(cfg: CFG, site: int, start: int = None, loop_bound: int = 1, max_paths: int = 50000):
    """All (bounded) paths from `start` (default function entry) that reach `site`."""
    start = cfg.entry if start is None else start
    can = _can_reach(cfg, site)
    ps = cfg.paths(start, stop=lambda s, l, d: d == site or d not in can, loop_bound=loop_bound, max_paths=max_paths)
    return [p for p in ps if p.steps and p.steps[-1][2] == site]


def always_at(cfg: CFG, site: int, formula: str, start: int = None, loop_bound: int = 1):
    """(holds, witness path) - formula known true on every path reaching site."""
    ps = paths_to(cfg, site, start, loop_bound)
    for p in ps:
        if p.facts.known(formula) is not True:
            return False, p, len(ps)
    return bool(ps), None, len(ps)


def must_at(cfg: CFG, site: int, formula: str, start: int = None, start_label: str = None) -> bool:
    """formula known true on every path from start (default entry) to site (dataflow, no enumeration)."""
    st = cfg.must_facts(start, start_label=start_label)
    f = st.get(site)
    return f is not None and f.known(formula) is True

"""Equivalence modulo canonicalisation with the reference tree.

`ref_src.json.gz` is a snapshot of the package the rules were written against.  For every
function of the analysed tree whose text differs from its reference version, both versions are
brought into canonical form (sa/canon.py; helpers that exist on one side only are inlined
first, sa/normal.py).  When the canonical texts are identical, the current function is a
behaviour-preserving rewrite of the reference function and is analysed IN ITS REFERENCE SHAPE:
the rules then see exactly what they were validated against.  Otherwise the function is analysed
as it is.  Nothing is ever substituted for a function that is not proven equivalent, so a
behaviour-changing edit always reaches the rules.
"""
from __future__ import annotations
import ast
import copy
import gzip
import json
import os
from typing import Dict, Optional

REF_SRC = os.path.join(os.path.dirname(os.path.abspath(__file__)), 'ref_src.json.gz')
_REF = None


def ref_sources() -> Optional[Dict[str, str]]:
    global _REF
    if _REF is None and os.path.exists(REF_SRC):
        with gzip.open(REF_SRC, 'rb') as h:
            _REF = json.loads(h.read().decode())
    return _REF


def ref_repo(src):
    from .model import Repo
    # a fresh parse for every run: the reference ASTs are rewritten (inlining) and grafted
    return Repo('/nonexistent', sources=src, raw=True)


def _unit(repo, f) -> bool:
    parent = repo.parents.get(id(f.node))
    return isinstance(parent, (ast.Module, ast.ClassDef))


def apply_equivalence(cur) -> Dict[str, object]:
    from .normal import Inliner, new_helpers
    from .canon import canon_function, literal_constants, CannotCanon
    info: Dict[str, object] = {'changed': [], 'equivalent': [], 'not_equivalent': [], 'grafted': []}
    src = ref_sources()
    if src is None:
        return info
    # quick exit: nothing changed
    changed_files = [rel for rel, m in cur.modules.items() if rel in src and m.source != src[rel]]
    if not changed_files:
        return info
    ref = ref_repo(src)
    # helpers the current tree no longer has are inlined on the reference side
    cur_mods = {m.modname for m in cur.modules.values()}
    ref_only = new_helpers(ref, set(cur.functions), cur_mods, set(cur.classes))
    ref_inl = copy.deepcopy  # noqa  (documentation: ref functions are rewritten in place below)
    ref_orig = {q: copy.deepcopy(f.node) for q, f in ref.functions.items() if _unit(ref, f)}
    if ref_only:
        Inliner(ref, ref_only).run()
        ref.reindex()
    consts_cur = {m.modname: literal_constants(m.tree) for m in cur.modules.values()}
    consts_ref = {m.modname: literal_constants(m.tree) for m in ref.modules.values()}
    subs = []
    for q, f in cur.functions.items():
        rf = ref.functions.get(q)
        if rf is None or not _unit(cur, f) or f.module.modname.startswith('util'):
            continue
        if f.module.relpath not in changed_files:
            continue
        if ast.dump(f.node) == ast.dump(rf.node):
            continue
        info['changed'].append(q)
        try:
            a = canon_function(f.node, consts_cur.get(f.module.modname))
            b = canon_function(rf.node, consts_ref.get(rf.module.modname))
        except (CannotCanon, RecursionError, SyntaxError, ValueError, IndexError, KeyError, AttributeError, TypeError) as e:
            info['not_equivalent'].append(q)
            info.setdefault('errors', []).append(f"{q}: {type(e).__name__}: {e}")
            continue
        if a == b:
            info['equivalent'].append(q)
            subs.append((f, q))
        else:
            info['not_equivalent'].append(q)
    if not subs:
        return info
    for f, q in subs:
        orig = ref_orig.get(q)
        if orig is None:
            continue
        new = copy.deepcopy(orig)
        delta = f.node.lineno - new.lineno
        ast.increment_lineno(new, delta)
        f.node.args, f.node.body, f.node.decorator_list = new.args, new.body, new.decorator_list
        f.node.returns = new.returns
    # reference helpers that the substituted bodies call but the current tree dropped: graft them back
    need = set()
    names = {q.split(':')[1].split('.')[-1]: q for q in ref_only}
    for f, q in subs:
        for n in ast.walk(f.node):
            if isinstance(n, ast.Call):
                nm = n.func.attr if isinstance(n.func, ast.Attribute) else (n.func.id if isinstance(n.func, ast.Name) else '')
                if nm in names:
                    need.add(names[nm])
    for q in sorted(need):
        node = ref_orig.get(q)
        if node is None or q in cur.functions:
            continue
        modname, scope = q.split(':')
        parts = scope.split('.')
        m = next((m for m in cur.modules.values() if m.modname == modname), None)
        if m is None:
            continue
        host = m.tree
        for p in parts[:-1]:
            host = next((s for s in host.body if isinstance(s, ast.ClassDef) and s.name == p), None)
            if host is None:
                break
        if host is None:
            continue
        host.body.append(copy.deepcopy(node))
        info['grafted'].append(q)
    cur.reindex()
    return info

"""Canonical form of a function, used to PROVE that a changed function is a behaviour-
preserving rewrite of its reference version (sa/equiv.py).

Every pass below is a semantics-preserving rewrite (stated approximations at the bottom);
the same passes are applied to the reference function and to the current function, and the
two are declared equivalent only when the resulting texts are identical.  A pass that is
missing only costs completeness (an equivalent function is then analysed in its current shape
by the rules); a pass that is wrong would cost soundness, which is why tools/canon_audit.py
runs every generic mutant and every stored seed through the same comparison and requires that
none of them is declared equivalent.

Passes
  S  strip docstrings, annotations, `pass`, logger calls, `assert` of nothing
  K  substitute module-level literal constants
  F  control flow: else-flattening after a terminating branch, tail-position guard form
     (`if c: BODY` at the end of a loop/function body == `if not c: continue/return` + BODY),
     splitting of `if p or q: <exit>`, merging of nested ifs, `return a if c else b`,
     guard chains of boolean returns, `yield from`
  E  expressions: negation normal form (De Morgan under `not`, `not x in y`), flattening of
     nested and/or, comparison chains with a simple middle operand
  I  idioms: comprehension assignment / return / extend -> explicit loop, dict.setdefault,
     `for k, v in d.items()` -> key loop, `x += y` on a local list -> extend, tuple assignment split
  P  copy propagation of single-assignment locals with a pure value; removal of dead pure locals
  A  alpha-renaming of locals and parameters by order of first occurrence
"""
from __future__ import annotations
import ast
import copy
from typing import Dict, List, Optional, Set, Tuple

PURE_CALLS = {'len', 'str', 'int', 'float', 'bool', 'min', 'max', 'abs', 'tuple', 'isinstance', 'repr', 'hash',
              'frozenset', 'range', 'sum', 'any', 'all', 'type', 'id'}
FRESH_CALLS = {'list', 'set', 'dict', 'sorted', 'copy', 'deepcopy', 'reversed', 'enumerate', 'zip', 'map', 'filter',
               'iter', 'deque', 'OrderedDict', 'defaultdict'}
PURE_METHOD_PREFIX = ('get_', 'is_', 'has_', 'find_')
PURE_METHODS = {'get', 'keys', 'values', 'items', 'lower', 'upper', 'split', 'rsplit', 'strip', 'rstrip', 'lstrip',
                'startswith', 'endswith', 'join', 'format', 'find', 'rfind', 'index', 'count', 'isdecimal', 'isdigit',
                'replace', 'jsonfy', 'end', 'start', 'group', 'tell', 'exists', 'with_suffix', 'molecular_weight', 'rsplit',
                'reverse_complement', 'translate', 'union', 'intersection', 'difference', 'issubset', 'decode', 'encode'}
MUTATORS = {'append', 'add', 'update', 'pop', 'remove', 'extend', 'insert', 'clear', 'sort', 'setdefault', 'discard',
            'appendleft', 'popleft', 'reverse', 'write', 'seek', 'read', 'readline', 'close'}
LOGGER_ROOTS = {'logger', 'logging'}


class CannotCanon(Exception):
    pass


# ------------------------------------------------------------------------------- utilities
def _term(stmts) -> bool:
    """every path through the block leaves it (return / raise / continue / break)"""
    if not stmts:
        return False
    last = stmts[-1]
    if isinstance(last, (ast.Return, ast.Raise, ast.Continue, ast.Break)):
        return True
    if isinstance(last, ast.If):
        return bool(last.orelse) and _term(last.body) and _term(last.orelse)
    return False


def _is_exit(st, kind) -> bool:
    if kind == 'loop':
        return isinstance(st, ast.Continue)
    if kind == 'func':
        return isinstance(st, ast.Return) and (st.value is None or (isinstance(st.value, ast.Constant) and st.value.value is None))
    return False


def _mk_exit(kind):
    return ast.Continue() if kind == 'loop' else ast.Return(value=None)


def _not(e):
    return nnf(e, True)


def _boolish(e) -> bool:
    """syntactically bool-valued"""
    if isinstance(e, ast.Compare):
        return True
    if isinstance(e, ast.UnaryOp) and isinstance(e.op, ast.Not):
        return True
    if isinstance(e, ast.Constant) and isinstance(e.value, bool):
        return True
    if isinstance(e, ast.BoolOp):
        return all(_boolish(v) for v in e.values)
    if isinstance(e, ast.Call):
        f = e.func
        nm = f.attr if isinstance(f, ast.Attribute) else (f.id if isinstance(f, ast.Name) else '')
        return nm in ('isinstance', 'bool', 'any', 'all', 'startswith', 'endswith', 'isdecimal', 'isdigit', 'exists') or nm.startswith(('is_', 'has_'))
    return False


def nnf(e, neg=False):
    if isinstance(e, ast.UnaryOp) and isinstance(e.op, ast.Not):
        return nnf(e.operand, not neg)
    if isinstance(e, ast.BoolOp):
        if neg:
            op = ast.Or() if isinstance(e.op, ast.And) else ast.And()
            vals = [nnf(v, True) for v in e.values]
        else:
            op = e.op
            vals = [nnf(v, False) if _under_not(v) else v for v in e.values]
        return _flat_bool(ast.BoolOp(op=op, values=vals))
    if neg and isinstance(e, ast.Compare) and len(e.ops) == 1:
        flip = {ast.In: ast.NotIn, ast.NotIn: ast.In, ast.Is: ast.IsNot, ast.IsNot: ast.Is}
        t = type(e.ops[0])
        if t in flip:
            return ast.Compare(left=e.left, ops=[flip[t]()], comparators=e.comparators)
    if neg and isinstance(e, ast.Constant) and isinstance(e.value, bool):
        return ast.Constant(not e.value)
    return ast.UnaryOp(op=ast.Not(), operand=e) if neg else e


def _under_not(v):
    return isinstance(v, ast.UnaryOp) and isinstance(v.op, ast.Not)


def _flat_bool(e):
    if not isinstance(e, ast.BoolOp):
        return e
    vals = []
    for v in e.values:
        if isinstance(v, ast.BoolOp) and type(v.op) is type(e.op):
            vals += _flat_bool(v).values
        else:
            vals.append(v)
    return ast.BoolOp(op=e.op, values=vals)


def _simple(e) -> bool:
    if isinstance(e, (ast.Name, ast.Constant)):
        return True
    if isinstance(e, ast.Attribute):
        return _simple(e.value)
    return False


def _u(e) -> str:
    try:
        return ast.unparse(e)
    except AttributeError:
        if isinstance(e, ast.stmt):
            ast.fix_missing_locations(ast.Module(body=[e], type_ignores=[]))
        else:
            ast.fix_missing_locations(ast.Expression(body=e))
        return ast.unparse(e)


def _walk_shallow(node):
    stack = [node]
    first = True
    while stack:
        n = stack.pop()
        yield n
        if not first and isinstance(n, (ast.FunctionDef, ast.AsyncFunctionDef, ast.ClassDef, ast.Lambda)):
            continue
        first = False
        stack.extend(ast.iter_child_nodes(n))


# ------------------------------------------------------------------------------- S strip
class _Strip(ast.NodeTransformer):
    keep_logging = False

    def visit_FunctionDef(self, n):
        if n.name == 'log' or n.name.startswith(('log_', 'print_')):
            self.keep_logging = True          # functions whose purpose is reporting
        n.returns = None
        for a in n.args.posonlyargs + n.args.args + n.args.kwonlyargs:
            a.annotation = None
        if n.args.vararg:
            n.args.vararg.annotation = None
        if n.args.kwarg:
            n.args.kwarg.annotation = None
        n.type_comment = None
        self.generic_visit(n)
        n.body = _strip_block(n.body, keep_logging=self.keep_logging)
        return n
    visit_AsyncFunctionDef = visit_FunctionDef

    def visit_AnnAssign(self, n):
        self.generic_visit(n)
        if n.value is None:
            return None
        return ast.Assign(targets=[n.target], value=n.value)

    def generic_visit(self, n):
        super().generic_visit(n)
        for fld in ('body', 'orelse', 'finalbody'):
            blk = getattr(n, fld, None)
            if isinstance(blk, list) and blk and isinstance(blk[0], ast.stmt) and not isinstance(n, (ast.FunctionDef, ast.AsyncFunctionDef)):
                setattr(n, fld, _strip_block(blk, keep_one=(fld == 'body'), keep_logging=self.keep_logging))
        return n


def _is_logger_call(st) -> bool:
    if not (isinstance(st, ast.Expr) and isinstance(st.value, ast.Call)):
        return False
    f = st.value.func
    if isinstance(f, ast.Attribute) and f.attr in ('debug', 'info', 'warning', 'error', 'critical', 'exception'):
        root = f.value
        if isinstance(root, ast.Name) and root.id in LOGGER_ROOTS:
            return True
        if isinstance(root, ast.Call) and isinstance(root.func, ast.Name) and root.func.id == 'get_logger':
            return True
        if isinstance(root, ast.Attribute) and root.attr == 'logger':
            return True
    return False


def _strip_block(stmts, keep_one=True, keep_logging=False):
    out = []
    for st in stmts:
        if st is None or isinstance(st, ast.Pass):
            continue
        if isinstance(st, ast.Expr) and isinstance(st.value, ast.Constant):
            continue           # docstrings / stray literals
        if _is_logger_call(st) and not keep_logging:
            continue
        out.append(st)
    if not out and keep_one:
        out = [ast.Pass()]
    return out


# ------------------------------------------------------------------------------- K constants
class _Consts(ast.NodeTransformer):
    def __init__(self, consts, shadow):
        self.consts = consts
        self.shadow = shadow

    def visit_Name(self, n):
        if isinstance(n.ctx, ast.Load) and n.id in self.consts and n.id not in self.shadow:
            return copy.deepcopy(self.consts[n.id])
        return n


def literal_constants(module_tree: ast.Module) -> Dict[str, ast.AST]:
    cands: Dict[str, ast.AST] = {}
    stores: Dict[str, int] = {}
    for n in ast.walk(module_tree):
        if isinstance(n, ast.Name) and isinstance(n.ctx, (ast.Store, ast.Del)):
            stores[n.id] = stores.get(n.id, 0) + 1
    for st in module_tree.body:
        tgt, val = None, None
        if isinstance(st, ast.Assign) and len(st.targets) == 1 and isinstance(st.targets[0], ast.Name):
            tgt, val = st.targets[0].id, st.value
        elif isinstance(st, ast.AnnAssign) and isinstance(st.target, ast.Name) and st.value is not None:
            tgt, val = st.target.id, st.value
        if tgt and stores.get(tgt, 0) == 1:
            cands[tgt] = val
    out = {}

    def lit(e, depth=0):
        if isinstance(e, ast.Constant):
            return e
        if isinstance(e, ast.UnaryOp) and isinstance(e.op, ast.USub) and isinstance(e.operand, ast.Constant):
            return e
        if isinstance(e, (ast.Tuple, ast.List)) and len(e.elts) <= 12:
            els = [lit(x, depth) for x in e.elts]
            if all(x is not None for x in els):
                return type(e)(elts=els, ctx=ast.Load())
            return None
        if isinstance(e, ast.Name) and e.id in cands and depth < 4:
            return lit(cands[e.id], depth + 1)
        return None
    for k, v in cands.items():
        l = lit(v)
        if l is not None and len(_u(l)) <= 120:
            out[k] = l
    return out


# ------------------------------------------------------------------------------- F control flow
def _shape(e) -> str:
    """name-insensitive structural key of an expression / statement list (local names erased)"""
    if isinstance(e, list):
        return '|'.join(_shape(x) for x in e)
    parts = []
    for n in ast.walk(e):
        t = type(n).__name__
        if isinstance(n, ast.Constant):
            t += repr(n.value)
        elif isinstance(n, ast.Attribute):
            t += n.attr
        elif isinstance(n, ast.Name) and n.id in ('self', 'cls'):
            t += n.id
        parts.append(t)
    return ' '.join(parts)


def _atom_pure(e) -> bool:
    return _pure(e, False)


class Leaf:
    __slots__ = ('stmts',)

    def __init__(self, stmts):
        self.stmts = stmts


class Node:
    __slots__ = ('atom', 'hi', 'lo')

    def __init__(self, atom, hi, lo):
        self.atom, self.hi, self.lo = atom, hi, lo


class Flow:
    """control-flow normal form.  Consecutive conditionals with PURE tests that are evaluated in
    the same state form a *region*: a function from truth assignments of the atomic tests to
    action blocks.  The region is rebuilt as a reduced ordered decision tree (atoms ordered by a
    name-insensitive key) and printed with fixed conventions, so that re-ordered branches,
    merged / split / nested guards, De Morgan variants and else-vs-early-exit styles coincide."""
    MAX_ATOMS = 9

    def fn(self, fn):
        has_value_return = any(isinstance(n, ast.Return) and n.value is not None and not (isinstance(n.value, ast.Constant) and n.value.value is None)
                               for n in _walk_shallow(fn))
        kind = 'func' if (not has_value_return) else None
        fn.body = self.block(fn.body, kind) or [ast.Pass()]
        return fn

    def inner(self, st, tail):
        if isinstance(st, (ast.For, ast.AsyncFor, ast.While)):
            st.body = self.block(st.body, 'loop') or [ast.Pass()]
            st.orelse = self.block(st.orelse, None)
        elif isinstance(st, (ast.With, ast.AsyncWith)):
            st.body = self.block(st.body, None) or [ast.Pass()]
        elif isinstance(st, ast.Try):
            st.body = self.block(st.body, None) or [ast.Pass()]
            for h in st.handlers:
                h.body = self.block(h.body, None) or [ast.Pass()]
            st.orelse = self.block(st.orelse, None)
            st.finalbody = self.block(st.finalbody, None)
        elif isinstance(st, (ast.FunctionDef, ast.AsyncFunctionDef)):
            Flow().fn(st)
        return st

    # ------------------------------------------------------------------ blocks
    def block(self, stmts, tail) -> List[ast.stmt]:
        work = [s for s in stmts if not isinstance(s, ast.Pass)]
        out: List[ast.stmt] = []
        while work:
            st = work.pop(0)
            if isinstance(st, ast.Return) and isinstance(st.value, ast.IfExp):
                v = st.value
                work = [ast.If(test=v.test, body=[ast.Return(value=v.body)], orelse=[ast.Return(value=v.orelse)])] + work
                continue
            if isinstance(st, (ast.Return, ast.Raise, ast.Continue, ast.Break)):
                if not (tail and _is_exit(st, tail)):
                    out.append(st)
                break
            if isinstance(st, ast.For) and self.is_yield_loop(st):
                out.append(ast.Expr(value=ast.YieldFrom(value=st.iter)))
                continue
            if not isinstance(st, ast.If):
                out.append(self.inner(st, tail if not work else None))
                continue
            A = [s for s in st.body if not isinstance(s, ast.Pass)]
            B = [s for s in st.orelse if not isinstance(s, ast.Pass)]
            # single statements that differ in one sub-expression: `if c: S[a] else: S[b]` -> S[a if c else b]
            if len(A) == 1 and len(B) == 1 and type(A[0]) is type(B[0]) and isinstance(A[0], (ast.Assign, ast.Expr, ast.AugAssign)) \
                    and _pure(st.test, False):
                m = merge_cond(A[0], B[0], st.test)
                if m is not None and not (isinstance(m, ast.Expr) and isinstance(m.value, ast.IfExp)):
                    out.append(m)
                    continue
            atoms: List[Tuple[str, ast.AST]] = []
            tree, remaining = self.region([st] + work, atoms, top=True)
            if tree is not None and len(atoms) <= self.MAX_ATOMS:
                end = not remaining
                out += self.emit_region(tree, atoms, tail if end else None)
                work = remaining
                continue
            # impure test: keep the statement, normalise inside
            last = not work
            t = tail if last else None
            if B and _term(A) and not _term(B):
                work = B + work
                B = []
            elif B and _term(B) and not _term(A):
                st = ast.If(test=_not(st.test), body=B, orelse=[])
                work = A + work
                A, B = st.body, []
            A2 = self.block(A, t if last else None)
            B2 = self.block(B, t if last else None)
            if not A2 and not B2:
                out.append(ast.Expr(value=st.test))
            elif not A2:
                out.append(ast.If(test=_not(st.test), body=B2, orelse=[]))
            else:
                out.append(ast.If(test=nnf(st.test), body=A2, orelse=B2))
        return self.fold_bool_returns(out)

    # ------------------------------------------------------------------ regions
    def short_exit(self, stmts) -> bool:
        if len(stmts) != 1:
            return False
        s = stmts[0]
        if isinstance(s, (ast.Continue, ast.Break)):
            return True
        if isinstance(s, ast.Return):
            return s.value is None or _simple(s.value) or (isinstance(s.value, ast.Constant))
        return False

    def region(self, stmts, atoms, top=False):
        """stmts[0] is an If.  -> (tree | None, statements that follow the region)"""
        st = stmts[0]
        rest = stmts[1:]
        if not isinstance(st, ast.If) or not _atom_pure(st.test):
            return None, rest
        A = [s for s in st.body if not isinstance(s, ast.Pass)]
        B = [s for s in st.orelse if not isinstance(s, ast.Pass)]
        remaining: List[ast.stmt] = []
        if _term(A) and _term(B):
            pass
        elif _term(A):
            B = B + rest
        elif _term(B):
            A = A + rest
        elif not rest:
            pass
        elif self.short_exit(rest):
            A = A + copy.deepcopy(rest)
            B = B + copy.deepcopy(rest)
        elif top:
            remaining = rest
        else:
            return None, rest            # nested, would duplicate a long continuation: treat as a leaf
        hi = self.sub(A, atoms)
        lo = self.sub(B, atoms)
        return self.test_tree(st.test, hi, lo, atoms), remaining

    def sub(self, stmts, atoms):
        stmts = [s for s in stmts if not isinstance(s, ast.Pass)]
        if stmts and isinstance(stmts[0], ast.If) and _atom_pure(stmts[0].test):
            # `x = a if c else b` candidates stay leaves
            s0 = stmts[0]
            is_assign_pair = (len(s0.body) == 1 and len(s0.orelse) == 1 and type(s0.body[0]) is type(s0.orelse[0])
                              and isinstance(s0.body[0], (ast.Assign, ast.Expr, ast.AugAssign)) and merge_cond(s0.body[0], s0.orelse[0], s0.test) is not None
                              and not (isinstance(s0.body[0], ast.Expr) and isinstance(merge_cond(s0.body[0], s0.orelse[0], s0.test).value, ast.IfExp)))
            if not is_assign_pair:
                saved = list(atoms)
                t, rem = self.region(stmts, atoms, top=False)
                if t is not None and not rem:
                    return t
                atoms[:] = saved
        return Leaf(stmts)

    def atom(self, e, atoms) -> Tuple[int, bool]:
        """index of the canonical atom of a non-boolean-operator test and its polarity"""
        pol = True
        if isinstance(e, ast.Compare) and len(e.ops) == 1:
            op, l, r = type(e.ops[0]), e.left, e.comparators[0]
            if op is ast.Gt:
                op, l, r = ast.Lt, r, l
            elif op is ast.GtE:
                op, l, r = ast.LtE, r, l
            elif op is ast.NotIn:
                op, pol = ast.In, False
            elif op is ast.IsNot:
                op, pol = ast.Is, False
            elif op is ast.NotEq:
                op, pol = ast.Eq, False
            e = ast.Compare(left=l, ops=[op()], comparators=[r])
        key = _u(e)
        for i, (k, _e) in enumerate(atoms):
            if k == key:
                return i, pol
        atoms.append((key, e))
        return len(atoms) - 1, pol

    def test_tree(self, e, hi, lo, atoms):
        while isinstance(e, ast.UnaryOp) and isinstance(e.op, ast.Not):
            e, hi, lo = e.operand, lo, hi
        if isinstance(e, ast.BoolOp):
            vals = list(e.values)
            if isinstance(e.op, ast.And):
                t = hi
                for v in reversed(vals):
                    t = self.test_tree(v, t, lo, atoms)
                return t
            t = lo
            for v in reversed(vals):
                t = self.test_tree(v, hi, t, atoms)
            return t
        if isinstance(e, ast.Compare) and len(e.ops) > 1 and all(_simple(c) for c in e.comparators[:-1]):
            parts = []
            left = e.left
            for op, right in zip(e.ops, e.comparators):
                parts.append(ast.Compare(left=left, ops=[op], comparators=[right]))
                left = right
            return self.test_tree(ast.BoolOp(op=ast.And(), values=parts), hi, lo, atoms)
        if isinstance(e, ast.Constant):
            return hi if e.value else lo
        i, pol = self.atom(e, atoms)
        return Node(i, hi, lo) if pol else Node(i, lo, hi)

    def emit_region(self, tree, atoms, tail) -> List[ast.stmt]:
        """print the region: every distinct action block once, guarded by the canonical boolean
        formula of the assignments that select it"""
        leaf_txt: Dict[int, Tuple[str, List[ast.stmt]]] = {}

        def leaf_of(l: Leaf):
            if id(l) not in leaf_txt:
                blk = self.block(copy.deepcopy(l.stmts), tail)
                leaf_txt[id(l)] = ('\n'.join(_u(s) for s in blk), blk)
            return leaf_txt[id(l)]

        def ev(t, asg):
            while isinstance(t, Node):
                t = t.hi if asg[t.atom] else t.lo
            return leaf_of(t)
        n = len(atoms)
        order = sorted(range(n), key=lambda i: (_shape(atoms[i][1]), i))
        leaves: List[Tuple[str, List[ast.stmt]]] = []       # in order of first reachability (hi before lo)
        index: Dict[str, int] = {}

        def build(k, asg):
            if k == n:
                txt, blk = ev(tree, asg)
                if txt not in index:
                    index[txt] = len(leaves)
                    leaves.append((txt, blk))
                return index[txt]
            a = order[k]
            asg[a] = True
            hi = build(k + 1, asg)
            asg[a] = False
            lo = build(k + 1, asg)
            del asg[a]
            if hi == lo:
                return hi
            return (a, hi, lo)
        full = build(0, {})
        if not isinstance(full, tuple):
            return copy.deepcopy(leaves[full][1])

        def indicator(t, i):
            """reduced tree of [leaf == i] -> boolean expression (None = False, True = True)"""
            if not isinstance(t, tuple):
                return True if t == i else None
            a, hi, lo = t
            eh, el = indicator(hi, i), indicator(lo, i)
            pos = copy.deepcopy(atoms[a][1])
            neg = nnf(copy.deepcopy(atoms[a][1]), True)
            if eh is None and el is None:
                return None
            if eh is True and el is True:
                return True
            if el is None:
                return pos if eh is True else _flat_bool(ast.BoolOp(op=ast.And(), values=[pos, eh]))
            if eh is None:
                return neg if el is True else _flat_bool(ast.BoolOp(op=ast.And(), values=[neg, el]))
            if eh is True:
                return _flat_bool(ast.BoolOp(op=ast.Or(), values=[pos, el]))
            if el is True:
                return _flat_bool(ast.BoolOp(op=ast.Or(), values=[neg, eh]))
            return ast.BoolOp(op=ast.Or(), values=[_flat_bool(ast.BoolOp(op=ast.And(), values=[pos, eh])),
                                                     _flat_bool(ast.BoolOp(op=ast.And(), values=[neg, el]))])
        # order of printing: terminating / exiting blocks first (as guards), the fall-through block last
        k = len(leaves)
        blocks = [copy.deepcopy(b) for (_t, b) in leaves]
        hard = [_term(b) for b in blocks]
        idx = list(range(k))
        # the unguarded last block: prefer a non-terminating one (it falls through to what follows);
        # among candidates the one reached last
        soft = [i for i in idx if not hard[i]]
        last = soft[-1] if soft else idx[-1]
        seq = [i for i in idx if i != last]
        out: List[ast.stmt] = []
        if tail:
            for i in seq:
                body = blocks[i] if hard[i] else blocks[i] + [_mk_exit(tail)]
                out.append(ast.If(test=indicator(full, i), body=body, orelse=[]))
            return out + blocks[last]
        if all(hard[i] for i in seq):
            for i in seq:
                out.append(ast.If(test=indicator(full, i), body=blocks[i], orelse=[]))
            return out + blocks[last]
        # some guarded block falls through: if / elif / else chain
        chain: List[ast.stmt] = blocks[last]
        for i in reversed(seq):
            chain = [ast.If(test=indicator(full, i), body=blocks[i] or [ast.Pass()], orelse=chain)]
        # an empty final else is dropped
        def drop_empty(sts):
            for s_ in sts:
                if isinstance(s_, ast.If):
                    if len(s_.orelse) == 1 and isinstance(s_.orelse[0], ast.If):
                        drop_empty(s_.orelse)
            return sts
        return drop_empty(chain)

    def is_yield_loop(self, st: ast.For) -> bool:
        if not (not st.orelse and len(st.body) == 1 and isinstance(st.body[0], ast.Expr) and isinstance(st.body[0].value, ast.Yield)
                and st.body[0].value.value is not None):
            return False
        y = st.body[0].value.value
        if isinstance(st.target, ast.Name):
            return isinstance(y, ast.Name) and y.id == st.target.id
        if isinstance(st.target, ast.Tuple) and isinstance(y, ast.Tuple) and len(y.elts) == len(st.target.elts):
            return all(isinstance(a, ast.Name) and isinstance(b, ast.Name) and a.id == b.id for a, b in zip(st.target.elts, y.elts))
        return False

    def fold_bool_returns(self, out):
        """[if c: return False]* ; return E(bool)   ->  return (not c) and ... and E"""
        if len(out) < 2 or not isinstance(out[-1], ast.Return) or out[-1].value is None or not _boolish(out[-1].value):
            return out
        i = len(out) - 1
        conj = []
        while i - 1 >= 0:
            g = out[i - 1]
            if isinstance(g, ast.If) and not g.orelse and len(g.body) == 1 and isinstance(g.body[0], ast.Return) \
                    and isinstance(g.body[0].value, ast.Constant) and g.body[0].value.value is False:
                conj.insert(0, _not(g.test))
                i -= 1
            else:
                break
        if not conj:
            # if c: return True ; return False  -> return c   (c boolish)
            g = out[-2]
            if isinstance(g, ast.If) and not g.orelse and len(g.body) == 1 and isinstance(g.body[0], ast.Return) \
                    and isinstance(g.body[0].value, ast.Constant) and g.body[0].value.value is True \
                    and isinstance(out[-1].value, ast.Constant) and out[-1].value.value is False and _boolish(g.test):
                return out[:-2] + [ast.Return(value=g.test)]
            return out
        last = out[-1].value
        vals = conj if (isinstance(last, ast.Constant) and last.value is True) else conj + [last]
        e = vals[0] if len(vals) == 1 else _flat_bool(ast.BoolOp(op=ast.And(), values=vals))
        return out[:i] + [ast.Return(value=e)]


# ------------------------------------------------------------------------------- E expressions
def fold_fstrings(root):
    """f"{'SECT'}-{x}" -> f"SECT-{x}": a formatted value that is a plain string constant (left behind by constant propagation)
    is text; adjacent text parts are merged; an f-string without formatted values becomes a plain constant"""
    class F(ast.NodeTransformer):
        def visit_FormattedValue(self, n):
            n.value = self.visit(n.value)          # the format spec is itself a JoinedStr and must stay one
            return n

        def visit_JoinedStr(self, n):
            self.generic_visit(n)
            vals = []
            for v in n.values:
                if isinstance(v, ast.FormattedValue) and isinstance(v.value, ast.Constant) and isinstance(v.value.value, str) \
                        and v.conversion in (-1, 115) and v.format_spec is None:
                    v = ast.copy_location(ast.Constant(value=v.value.value), v)
                if isinstance(v, ast.Constant) and vals and isinstance(vals[-1], ast.Constant):
                    vals[-1] = ast.copy_location(ast.Constant(value=str(vals[-1].value) + str(v.value)), vals[-1])
                else:
                    vals.append(v)
            if len(vals) == 1 and isinstance(vals[0], ast.Constant):
                return ast.copy_location(ast.Constant(value=vals[0].value), n)
            n.values = vals
            return n
    return F().visit(root)


class _Expr(ast.NodeTransformer):
    def visit_FormattedValue(self, n):
        n.value = self.visit(n.value)
        return n

    def visit_JoinedStr(self, n):
        self.generic_visit(n)
        return fold_fstrings(n)

    def visit_UnaryOp(self, n):
        self.generic_visit(n)
        if isinstance(n.op, ast.Not):
            return nnf(n)
        return n

    def visit_BoolOp(self, n):
        self.generic_visit(n)
        n = _flat_bool(n)
        if isinstance(n, ast.BoolOp):
            # pure boolean operands commute (evaluation order of pure atoms is not distinguished);
            # impure operands are barriers
            vals, run = [], []
            for v in n.values:
                if _pure(v, False) and _boolish(v):
                    run.append(v)
                else:
                    vals += sorted(run, key=_shape)
                    run = []
                    vals.append(v)
            vals += sorted(run, key=_shape)
            n.values = vals
        return n

    def visit_IfExp(self, n):
        self.generic_visit(n)
        if isinstance(n.test, ast.UnaryOp) and isinstance(n.test.op, ast.Not):
            n = ast.IfExp(test=n.test.operand, body=n.orelse, orelse=n.body)
        if _pure(n.test, False) and type(n.body) is type(n.orelse) and not isinstance(n.body, _NO_DESCEND):
            m = merge_cond(n.body, n.orelse, n.test)
            if m is not None and not isinstance(m, ast.IfExp):
                return m
        return n

    def visit_Compare(self, n):
        self.generic_visit(n)
        if len(n.ops) == 1 and isinstance(n.ops[0], (ast.Gt, ast.GtE)) and _pure(n.left, False) and _pure(n.comparators[0], False):
            # a > b  ==  b < a   (operands pure: their evaluation order does not matter)
            return ast.Compare(left=n.comparators[0], ops=[ast.Lt() if isinstance(n.ops[0], ast.Gt) else ast.LtE()], comparators=[n.left])
        if len(n.ops) > 1 and all(_simple(c) for c in n.comparators[:-1]):
            parts = []
            left = n.left
            for op, right in zip(n.ops, n.comparators):
                parts.append(ast.Compare(left=left, ops=[op], comparators=[right]))
                left = right
            return ast.BoolOp(op=ast.And(), values=parts)
        return n

    _EAGER_CONSUMERS = {'max', 'min', 'sum', 'sorted', 'set', 'frozenset', 'list', 'tuple', 'dict', 'Counter'}
    _EAGER_METHODS = {'join', 'extend', 'update'}

    _OPERATOR = {'gt': ast.Gt, 'lt': ast.Lt, 'ge': ast.GtE, 'le': ast.LtE, 'eq': ast.Eq, 'ne': ast.NotEq, 'contains': None}

    def visit_Call(self, n):
        self.generic_visit(n)
        # (lambda: E)() == E
        if isinstance(n.func, ast.Lambda) and not n.args and not n.keywords and not n.func.args.args and not n.func.args.kwonlyargs \
                and n.func.args.vararg is None and n.func.args.kwarg is None:
            return n.func.body
        # any(E(x) for x in (a, b, c)) == E(a) or E(b) or E(c); all(...) == ... and ...   (a literal tuple / list of elements, one plain target,
        # no filter: the short-circuit order is the order of the elements, as in the generator)
        if isinstance(n.func, ast.Name) and n.func.id in ('any', 'all') and len(n.args) == 1 and not n.keywords \
                and isinstance(n.args[0], (ast.GeneratorExp, ast.ListComp)) and len(n.args[0].generators) == 1:
            g = n.args[0].generators[0]
            if isinstance(g.iter, (ast.Tuple, ast.List)) and g.iter.elts and len(g.iter.elts) <= 8 and not g.ifs and isinstance(g.target, ast.Name) \
                    and not any(isinstance(e, ast.Starred) for e in g.iter.elts) and not g.is_async \
                    and all(isinstance(e, ast.Lambda) or _pure(e, False) for e in g.iter.elts):
                import copy as _cp

                class _Sub(ast.NodeTransformer):
                    def __init__(s_, val):
                        s_.val = val

                    def visit_Name(s_, x):
                        return _cp.deepcopy(s_.val) if x.id == g.target.id and isinstance(x.ctx, ast.Load) else x
                vals = [_Expr().visit(_Sub(e).visit(_cp.deepcopy(n.args[0].elt))) for e in g.iter.elts]
                return self.visit_BoolOp(ast.BoolOp(op=ast.Or() if n.func.id == 'any' else ast.And(), values=vals)) if len(vals) > 1 else vals[0]
        # operator.gt(a, b) == (a > b)
        if isinstance(n.func, ast.Attribute) and isinstance(n.func.value, ast.Name) and n.func.value.id == 'operator' and n.func.attr in self._OPERATOR \
                and self._OPERATOR[n.func.attr] is not None and len(n.args) == 2 and not n.keywords:
            return self.visit_Compare(ast.Compare(left=n.args[0], ops=[self._OPERATOR[n.func.attr]()], comparators=[n.args[1]]))
        # f([e for ...]) == f((e for ...)) for a consumer that reads its whole argument; any / all only when the elements are pure
        f = n.func
        nm = f.id if isinstance(f, ast.Name) else (f.attr if isinstance(f, ast.Attribute) else None)
        if n.args and isinstance(n.args[0], ast.ListComp) and not any(isinstance(a, ast.Starred) for a in n.args):
            lc = n.args[0]
            eager = (isinstance(f, ast.Name) and nm in self._EAGER_CONSUMERS) or (isinstance(f, ast.Attribute) and nm in self._EAGER_METHODS)
            lazy_ok = isinstance(f, ast.Name) and nm in ('any', 'all') and _pure(lc.elt, False) and \
                all(_pure(g.iter, False) and all(_pure(c, False) for c in g.ifs) for g in lc.generators)
            if (eager or lazy_ok) and (len(n.args) == 1 or nm in ('max', 'min', 'sum', 'sorted')):
                n.args[0] = ast.GeneratorExp(elt=lc.elt, generators=lc.generators)
        return n

    def visit_If(self, n):
        self.generic_visit(n)
        n.test = nnf(n.test)
        return n

    def visit_While(self, n):
        self.generic_visit(n)
        n.test = nnf(n.test)
        return n


# ------------------------------------------------------------------------------- I idioms
class Idioms:
    def __init__(self):
        self.n = 0

    def fresh(self):
        self.n += 1
        return f"_cmp{self.n}"

    def block(self, stmts) -> List[ast.stmt]:
        out: List[ast.stmt] = []
        for st in stmts:
            for fld in ('body', 'orelse', 'finalbody'):
                blk = getattr(st, fld, None)
                if isinstance(blk, list) and blk and isinstance(blk[0], ast.stmt) and not isinstance(st, (ast.FunctionDef, ast.AsyncFunctionDef, ast.ClassDef)):
                    setattr(st, fld, self.block(blk))
            if isinstance(st, ast.Try):
                for h in st.handlers:
                    h.body = self.block(h.body)
            out += self.stmt(st)
        return out

    def comp_loop(self, comp, emit) -> List[ast.stmt]:
        """nested loops of a comprehension; emit(elt nodes) -> innermost statement"""
        inner: List[ast.stmt] = [emit]
        for g in reversed(comp.generators):
            if g.is_async:
                raise CannotCanon('async comprehension')
            body = inner
            for cond in reversed(g.ifs):
                body = [ast.If(test=cond, body=body, orelse=[])]
            inner = [ast.For(target=g.target, iter=g.iter, body=body, orelse=[], type_comment=None)]
        return inner

    def expand(self, target: ast.AST, comp) -> Optional[List[ast.stmt]]:
        """target = <comprehension>  ->  explicit loop"""
        tl = lambda: copy.deepcopy(target)
        load = copy.deepcopy(target)
        for n in ast.walk(load):
            if hasattr(n, 'ctx'):
                n.ctx = ast.Load()
        if isinstance(comp, ast.ListComp):
            init = ast.Assign(targets=[tl()], value=ast.List(elts=[], ctx=ast.Load()))
            emit = ast.Expr(value=ast.Call(func=ast.Attribute(value=load, attr='append', ctx=ast.Load()), args=[comp.elt], keywords=[]))
        elif isinstance(comp, ast.SetComp):
            init = ast.Assign(targets=[tl()], value=ast.Call(func=ast.Name(id='set', ctx=ast.Load()), args=[], keywords=[]))
            emit = ast.Expr(value=ast.Call(func=ast.Attribute(value=load, attr='add', ctx=ast.Load()), args=[comp.elt], keywords=[]))
        elif isinstance(comp, ast.DictComp):
            init = ast.Assign(targets=[tl()], value=ast.Dict(keys=[], values=[]))
            emit = ast.Assign(targets=[ast.Subscript(value=load, slice=comp.key, ctx=ast.Store())], value=comp.value)
        else:
            return None
        return [init] + self.comp_loop(comp, emit)

    def stmt(self, st) -> List[ast.stmt]:
        # x = [comprehension]
        if isinstance(st, ast.Assign) and len(st.targets) == 1 and isinstance(st.targets[0], ast.Name) \
                and isinstance(st.value, (ast.ListComp, ast.SetComp, ast.DictComp)):
            if not any(isinstance(n, ast.Name) and n.id == st.targets[0].id for n in ast.walk(st.value)):
                r = self.expand(st.targets[0], st.value)
                if r:
                    return self.block(r)
        # return [comprehension]
        if isinstance(st, ast.Return) and isinstance(st.value, (ast.ListComp, ast.SetComp, ast.DictComp)):
            nm = self.fresh()
            r = self.expand(ast.Name(id=nm, ctx=ast.Store()), st.value)
            if r:
                return self.block(r) + [ast.Return(value=ast.Name(id=nm, ctx=ast.Load()))]
        # x.extend(<comp/genexp>) / x.update(<set comp/genexp>)  and  x += [comp]
        if isinstance(st, ast.Expr) and isinstance(st.value, ast.Call) and isinstance(st.value.func, ast.Attribute) \
                and st.value.func.attr in ('extend', 'update') and len(st.value.args) == 1 and not st.value.keywords \
                and isinstance(st.value.args[0], (ast.ListComp, ast.GeneratorExp, ast.SetComp)) and _simple(st.value.func.value):
            comp = st.value.args[0]
            meth = 'append' if st.value.func.attr == 'extend' else 'add'
            emit = ast.Expr(value=ast.Call(func=ast.Attribute(value=copy.deepcopy(st.value.func.value), attr=meth, ctx=ast.Load()), args=[comp.elt], keywords=[]))
            return self.block(self.comp_loop(comp, emit))
        if isinstance(st, ast.AugAssign) and isinstance(st.op, ast.Add) and isinstance(st.target, ast.Name) and isinstance(st.value, ast.ListComp):
            emit = ast.Expr(value=ast.Call(func=ast.Attribute(value=ast.Name(id=st.target.id, ctx=ast.Load()), attr='append', ctx=ast.Load()), args=[st.value.elt], keywords=[]))
            return self.block(self.comp_loop(st.value, emit))
        # x.extend(E) -> for _c in E: x.append(_c)      (x a simple receiver)
        if isinstance(st, ast.Expr) and isinstance(st.value, ast.Call) and isinstance(st.value.func, ast.Attribute) \
                and st.value.func.attr == 'extend' and len(st.value.args) == 1 and not st.value.keywords and _simple(st.value.func.value):
            nm = self.fresh()
            emit = ast.Expr(value=ast.Call(func=ast.Attribute(value=copy.deepcopy(st.value.func.value), attr='append', ctx=ast.Load()),
                                           args=[ast.Name(id=nm, ctx=ast.Load())], keywords=[]))
            return [ast.For(target=ast.Name(id=nm, ctx=ast.Store()), iter=st.value.args[0], body=[emit], orelse=[], type_comment=None)]
        # d.setdefault(k, v)  as a statement  ->  if k not in d: d[k] = v
        if isinstance(st, ast.Expr) and isinstance(st.value, ast.Call) and isinstance(st.value.func, ast.Attribute) \
                and st.value.func.attr == 'setdefault' and len(st.value.args) == 2 and _simple(st.value.func.value) and self.cheap(st.value.args[1]):
            d, (k, v) = st.value.func.value, st.value.args
            return [ast.If(test=ast.Compare(left=k, ops=[ast.NotIn()], comparators=[d]),
                           body=[ast.Assign(targets=[ast.Subscript(value=copy.deepcopy(d), slice=copy.deepcopy(k), ctx=ast.Store())], value=v)], orelse=[])]
        # d.setdefault(k, []).append(v)  ->  if k not in d: d[k] = [] ; d[k].append(v)
        if isinstance(st, ast.Expr) and isinstance(st.value, ast.Call) and isinstance(st.value.func, ast.Attribute) \
                and isinstance(st.value.func.value, ast.Call) and isinstance(st.value.func.value.func, ast.Attribute) \
                and st.value.func.value.func.attr == 'setdefault' and len(st.value.func.value.args) == 2 \
                and _simple(st.value.func.value.func.value) and self.cheap(st.value.func.value.args[1]) and _simple_key(st.value.func.value.args[0]):
            inner = st.value.func.value
            d, (k, v) = inner.func.value, inner.args
            sub = ast.Subscript(value=copy.deepcopy(d), slice=copy.deepcopy(k), ctx=ast.Load())
            call = ast.Call(func=ast.Attribute(value=sub, attr=st.value.func.attr, ctx=ast.Load()), args=st.value.args, keywords=st.value.keywords)
            return [ast.If(test=ast.Compare(left=copy.deepcopy(k), ops=[ast.NotIn()], comparators=[copy.deepcopy(d)]),
                           body=[ast.Assign(targets=[ast.Subscript(value=copy.deepcopy(d), slice=copy.deepcopy(k), ctx=ast.Store())], value=v)], orelse=[]),
                    ast.Expr(value=call)]
        # if k in d: d[k].append(v) else: d[k] = [v]
        if isinstance(st, ast.If) and len(st.body) == 1 and len(st.orelse) == 1:
            r = self.in_else(st)
            if r:
                return r
        # for k, v in d.items()  -> for k in d  (v := d[k])
        if isinstance(st, ast.For) and isinstance(st.target, ast.Tuple) and len(st.target.elts) == 2 \
                and all(isinstance(e, ast.Name) for e in st.target.elts) and isinstance(st.iter, ast.Call) \
                and isinstance(st.iter.func, ast.Attribute) and st.iter.func.attr == 'items' and not st.iter.args and _simple(st.iter.func.value):
            k, v = st.target.elts
            d = st.iter.func.value
            stored = {n.id for s in st.body for n in _walk_shallow(s) if isinstance(n, ast.Name) and isinstance(n.ctx, (ast.Store, ast.Del))}
            if v.id not in stored and k.id not in stored:
                class R(ast.NodeTransformer):
                    def visit_Name(self, n):
                        if n.id == v.id and isinstance(n.ctx, ast.Load):
                            return ast.Subscript(value=copy.deepcopy(d), slice=ast.Name(id=k.id, ctx=ast.Load()), ctx=ast.Load())
                        return n
                st.body = [R().visit(s) for s in st.body]
                st.target = ast.Name(id=k.id, ctx=ast.Store())
                st.iter = d
                return [st]
        # for k in d.keys() -> for k in d
        if isinstance(st, ast.For) and isinstance(st.iter, ast.Call) and isinstance(st.iter.func, ast.Attribute) \
                and st.iter.func.attr == 'keys' and not st.iter.args and _simple(st.iter.func.value):
            st.iter = st.iter.func.value
            return [st]
        # a, b = x, y  -> a = x ; b = y   (independent)
        if isinstance(st, ast.Assign) and len(st.targets) == 1 and isinstance(st.targets[0], ast.Tuple) and isinstance(st.value, ast.Tuple) \
                and len(st.targets[0].elts) == len(st.value.elts) and all(isinstance(t, ast.Name) for t in st.targets[0].elts):
            names = {t.id for t in st.targets[0].elts}
            used = {n.id for v in st.value.elts for n in ast.walk(v) if isinstance(n, ast.Name)}
            if not (names & used) and len(names) == len(st.targets[0].elts):
                return [ast.Assign(targets=[t], value=v) for t, v in zip(st.targets[0].elts, st.value.elts)]
        # x = set(); x.update(y)  is left alone.  x = x + y: left alone.
        return [st]

    def cheap(self, e) -> bool:
        if isinstance(e, (ast.Constant, ast.Name)):
            return True
        if isinstance(e, (ast.List, ast.Tuple, ast.Set)):
            return all(self.cheap(x) for x in e.elts)
        if isinstance(e, ast.Dict):
            return all(self.cheap(x) for x in e.keys + e.values if x is not None)
        if isinstance(e, ast.Attribute):
            return self.cheap(e.value)
        if isinstance(e, ast.Call) and isinstance(e.func, ast.Name) and e.func.id in ('set', 'list', 'dict', 'tuple') and not e.args:
            return True
        return False

    def in_else(self, st: ast.If) -> Optional[List[ast.stmt]]:
        t = st.test
        if not (isinstance(t, ast.Compare) and len(t.ops) == 1 and isinstance(t.ops[0], (ast.In, ast.NotIn)) and _simple(t.comparators[0]) and _simple_key(t.left)):
            return None
        k, d = t.left, t.comparators[0]
        has, no = (st.body[0], st.orelse[0]) if isinstance(t.ops[0], ast.In) else (st.orelse[0], st.body[0])
        sub = _u(ast.Subscript(value=d, slice=k, ctx=ast.Load()))
        # no: d[k] = [v] / {v} ; has: d[k].append(v) / add(v)
        if isinstance(no, ast.Assign) and len(no.targets) == 1 and _u(no.targets[0]) == sub and isinstance(no.value, (ast.List, ast.Set)) and len(no.value.elts) == 1 \
                and isinstance(has, ast.Expr) and isinstance(has.value, ast.Call) and isinstance(has.value.func, ast.Attribute) \
                and _u(has.value.func.value) == sub and has.value.func.attr in ('append', 'add') and len(has.value.args) == 1 \
                and _u(has.value.args[0]) == _u(no.value.elts[0]):
            empty = ast.List(elts=[], ctx=ast.Load()) if isinstance(no.value, ast.List) else ast.Call(func=ast.Name(id='set', ctx=ast.Load()), args=[], keywords=[])
            return [ast.If(test=ast.Compare(left=copy.deepcopy(k), ops=[ast.NotIn()], comparators=[copy.deepcopy(d)]),
                           body=[ast.Assign(targets=[copy.deepcopy(no.targets[0])], value=empty)], orelse=[]), has]
        # no: d[k] = c ; has: d[k] += c      ->  d[k] = d.get(k, 0) + c
        if isinstance(no, ast.Assign) and len(no.targets) == 1 and _u(no.targets[0]) == sub and isinstance(no.value, ast.Constant) \
                and isinstance(has, ast.AugAssign) and isinstance(has.op, ast.Add) and _u(has.target) == sub and _u(has.value) == _u(no.value) \
                and isinstance(no.value.value, int):
            get = ast.Call(func=ast.Attribute(value=copy.deepcopy(d), attr='get', ctx=ast.Load()), args=[copy.deepcopy(k), ast.Constant(0)], keywords=[])
            return [ast.Assign(targets=[copy.deepcopy(no.targets[0])], value=ast.BinOp(left=get, op=ast.Add(), right=no.value))]
        return None


def _simple_key(e) -> bool:
    return _simple(e) or (isinstance(e, ast.Subscript) and _simple(e.value) and isinstance(e.slice, (ast.Constant, ast.Name)))


# ------------------------------------------------------------------------------- P copy propagation
def _pure(e, single_use: bool) -> bool:
    """may the evaluation of e be moved / duplicated?"""
    for n in ast.walk(e):
        if isinstance(n, (ast.Yield, ast.YieldFrom, ast.Await, ast.NamedExpr, ast.Starred)):
            return False
        if isinstance(n, ast.Lambda) and not (single_use and (n is e or (isinstance(e, (ast.Tuple, ast.List)) and any(n is x for x in e.elts)))):
            return False
        if isinstance(n, (ast.ListComp, ast.SetComp, ast.DictComp, ast.GeneratorExp, ast.List, ast.Dict, ast.Set)) and not single_use:
            return False
        if isinstance(n, ast.Call):
            f = n.func
            nm = f.attr if isinstance(f, ast.Attribute) else (f.id if isinstance(f, ast.Name) else '')
            if nm in PURE_CALLS or (isinstance(f, ast.Attribute) and (nm in PURE_METHODS or nm.startswith(PURE_METHOD_PREFIX))):
                continue
            if single_use and (nm in FRESH_CALLS or nm[:1].isupper() or nm.startswith(('create_', 'load_', 'parse_', 'to_', 'from_'))):
                continue
            if single_use and isinstance(f, ast.Attribute) and nm not in MUTATORS:
                continue
            if single_use and isinstance(f, ast.Name):
                continue
            return False
    return True


def copy_propagate(fn) -> bool:
    """one round; returns True when something changed"""
    params = {a.arg for a in fn.args.posonlyargs + fn.args.args + fn.args.kwonlyargs}
    if fn.args.vararg:
        params.add(fn.args.vararg.arg)
    if fn.args.kwarg:
        params.add(fn.args.kwarg.arg)
    stores: Dict[str, List[ast.Name]] = {}
    for n in _walk_shallow(fn):
        if isinstance(n, ast.Name) and isinstance(n.ctx, (ast.Store, ast.Del)):
            stores.setdefault(n.id, []).append(n)
        elif isinstance(n, ast.ExceptHandler) and n.name:
            stores.setdefault(n.name, []).append(n)
    captured = set()
    for n in ast.walk(fn):
        if isinstance(n, (ast.Lambda, ast.FunctionDef, ast.AsyncFunctionDef)) and n is not fn:
            for x in ast.walk(n):
                if isinstance(x, ast.Name):
                    captured.add(x.id)
    globs = {x for n in _walk_shallow(fn) if isinstance(n, (ast.Global, ast.Nonlocal)) for x in n.names}
    for name in sorted(stores):
        if name in params or name in captured or name in globs or len(stores[name]) != 1 or not isinstance(stores[name][0], ast.Name):
            continue
        if _prop_one(fn, name, stores[name][0]):
            return True
    return False


def _prop_one(fn, name, store) -> bool:
    found = []

    def find(stmts, loops):
        for i, st in enumerate(stmts):
            if isinstance(st, (ast.FunctionDef, ast.AsyncFunctionDef, ast.ClassDef)):
                continue
            if isinstance(st, ast.Assign) and len(st.targets) == 1 and st.targets[0] is store:
                found.append((stmts, i, st, list(loops)))
            for fld in ('body', 'orelse', 'finalbody'):
                blk = getattr(st, fld, None)
                if isinstance(blk, list) and blk and isinstance(blk[0], ast.stmt):
                    find(blk, loops + [st] if isinstance(st, (ast.For, ast.While)) and fld == 'body' else loops)
            if isinstance(st, ast.Try):
                for h in st.handlers:
                    find(h.body, loops)
    find(fn.body, [])
    if len(found) != 1:
        return False
    block, idx, st, loops = found[0]
    value = st.value
    uses = [n for n in ast.walk(fn) if isinstance(n, ast.Name) and n.id == name and isinstance(n.ctx, ast.Load)]
    if not uses:
        if _pure(value, False):
            del block[idx]
            if not block:
                block.append(ast.Pass())
            return True
        return False
    later = block[idx + 1:]
    inside = {id(n) for s in later for n in ast.walk(s)}
    if any(id(u) not in inside for u in uses):
        return False
    single = len(uses) == 1
    if not _pure(value, single):
        return False
    # a single use inside a loop that does not contain the definition would re-evaluate a non-trivial value
    if single and not _pure(value, False):
        u = uses[0]
        for s in later:
            for lp in [n for n in ast.walk(s) if isinstance(n, (ast.For, ast.While, ast.ListComp, ast.SetComp, ast.DictComp, ast.GeneratorExp))]:
                body_nodes = {id(x) for x in ast.walk(lp)}
                hdr = {id(x) for x in ast.walk(lp.iter)} if isinstance(lp, ast.For) else set()
                if isinstance(lp, (ast.ListComp, ast.SetComp, ast.DictComp, ast.GeneratorExp)):
                    hdr = {id(x) for x in ast.walk(lp.generators[0].iter)}
                if id(u) in body_nodes and id(u) not in hdr:
                    return False
    inputs = {n.id for n in ast.walk(value) if isinstance(n, ast.Name) and isinstance(n.ctx, ast.Load)}
    attr_inputs = {_u(n) for n in ast.walk(value) if isinstance(n, (ast.Attribute, ast.Subscript))}
    roots = set(inputs)
    # region between the definition and the last use (conservatively: everything after the definition in its
    # block, plus the enclosing loops)
    # region between the definition and the last use: the statements of the same block up to the one that
    # contains the last use (definition and uses run in the same iteration of any enclosing loop)
    last_use_idx = max(i for i, s in enumerate(later) if any(id(u) in {id(n) for n in ast.walk(s)} for u in uses))
    region: List[ast.AST] = list(later[:last_use_idx + 1])
    lu = later[last_use_idx]
    head = lu.test if isinstance(lu, ast.If) else (lu.iter if isinstance(lu, ast.For) else None)
    if head is not None:
        head_ids = {id(n) for n in ast.walk(head)}
        if all(id(u) in head_ids or any(id(u) in {id(n) for n in ast.walk(s)} for s in later[:last_use_idx]) for u in uses):
            region = list(later[:last_use_idx]) + [head]
    for r in region:
        for n in _walk_shallow(r):
            if isinstance(n, ast.Name) and isinstance(n.ctx, (ast.Store, ast.Del)) and n.id in inputs:
                return False
            if isinstance(n, (ast.Attribute, ast.Subscript)) and isinstance(n.ctx, (ast.Store, ast.Del)):
                t = _u(n)
                if t in attr_inputs or any(t.startswith(a) or a.startswith(t) for a in attr_inputs):
                    return False
                base = n
                while isinstance(base, (ast.Attribute, ast.Subscript)):
                    base = base.value
                if isinstance(base, ast.Name) and base.id in roots and not isinstance(value, (ast.Name, ast.Constant)):
                    if any(a.startswith(base.id) for a in attr_inputs) or base.id in inputs and attr_inputs:
                        return False
            if isinstance(n, ast.Call) and isinstance(n.func, ast.Attribute) and n.func.attr in MUTATORS:
                base = n.func.value
                while isinstance(base, (ast.Attribute, ast.Subscript)):
                    base = base.value
                if isinstance(base, ast.Name) and base.id in roots:
                    return False
    # the definition must not be skipped relative to intervening side effects when it contains a call:
    # moving a (non-pure) call past other calls changes the order of effects -> only past pure statements
    if single and not _pure(value, False):
        for s in later[:last_use_idx]:
            if any(isinstance(n, ast.Call) for n in ast.walk(s)) or isinstance(s, (ast.For, ast.While, ast.Try, ast.With)):
                # allow pure guard statements (`if <pure>: continue/return`) in between
                if not _pure_stmt(s):
                    return False
    for u in uses:
        _replace(fn, u, copy.deepcopy(value))
    del block[idx]
    if not block:
        block.append(ast.Pass())
    return True


def _pure_stmt(s) -> bool:
    if isinstance(s, ast.If):
        return _pure(s.test, False) and all(_pure_stmt(x) for x in s.body + s.orelse)
    if isinstance(s, (ast.Continue, ast.Break, ast.Pass)):
        return True
    if isinstance(s, ast.Return):
        return s.value is None or _pure(s.value, False)
    if isinstance(s, ast.Assign):
        return all(isinstance(t, ast.Name) for t in s.targets) and _pure(s.value, False)
    if isinstance(s, ast.Raise):
        return True
    return False


def _replace(root, old, new) -> bool:
    for parent in ast.walk(root):
        for fld, val in ast.iter_fields(parent):
            if val is old:
                setattr(parent, fld, new)
                return True
            if isinstance(val, list):
                for i, v in enumerate(val):
                    if v is old:
                        val[i] = new
                        return True
    return False


# ------------------------------------------------------------------------------- D sink trivial definitions
def _trivial_init(e) -> bool:
    if isinstance(e, ast.Constant):
        return True
    if isinstance(e, (ast.List, ast.Set, ast.Tuple)) and not e.elts:
        return True
    if isinstance(e, ast.Dict) and not e.keys:
        return True
    if isinstance(e, ast.Call) and isinstance(e.func, ast.Name) and e.func.id in ('set', 'list', 'dict', 'tuple') and not e.args and not e.keywords:
        return True
    if isinstance(e, ast.UnaryOp) and isinstance(e.op, ast.USub) and isinstance(e.operand, ast.Constant):
        return True
    return False


def sink_inits(block: List[ast.stmt]) -> List[ast.stmt]:
    """`x = <constant / empty container>` is moved down to just before the first later statement of the
    same block that mentions x (exact: the skipped statements do not mention x)."""
    for st in block:
        for fld in ('body', 'orelse', 'finalbody'):
            blk = getattr(st, fld, None)
            if isinstance(blk, list) and blk and isinstance(blk[0], ast.stmt) and not isinstance(st, (ast.FunctionDef, ast.AsyncFunctionDef, ast.ClassDef)):
                setattr(st, fld, sink_inits(blk))
        if isinstance(st, ast.Try):
            for h in st.handlers:
                h.body = sink_inits(h.body)
    out = list(block)
    i = len(out) - 1
    while i >= 0:
        st = out[i]
        if isinstance(st, ast.Assign) and len(st.targets) == 1 and isinstance(st.targets[0], ast.Name) and _trivial_init(st.value):
            x = st.targets[0].id
            j = None
            for k in range(i + 1, len(out)):
                if any((isinstance(n, ast.Name) and n.id == x) or (isinstance(n, (ast.Global, ast.Nonlocal)) and x in n.names)
                       or (isinstance(n, ast.ExceptHandler) and n.name == x) for n in ast.walk(out[k])):
                    j = k
                    break
            if j is not None and j > i + 1:
                out.insert(j - 1, out.pop(i))
        i -= 1
    return out



# ------------------------------------------------------------------------------- M merge / push conditionals
_NO_DESCEND = (ast.Lambda, ast.ListComp, ast.SetComp, ast.DictComp, ast.GeneratorExp, ast.BoolOp, ast.IfExp, ast.JoinedStr)


def merge_cond(a, b, c):
    """one node that equals `a` when c is true and `b` otherwise, with the conditional expression at the
    innermost single differing sub-expression; None when a and b differ in more than one place"""
    if ast.dump(a) == ast.dump(b):
        return a
    if type(a) is type(b) and not isinstance(a, _NO_DESCEND):
        diffs = []
        ok = True
        for fld in a._fields:
            va, vb = getattr(a, fld, None), getattr(b, fld, None)
            if isinstance(va, ast.AST) and isinstance(vb, ast.AST):
                if ast.dump(va) != ast.dump(vb):
                    diffs.append((fld, None, va, vb))
            elif isinstance(va, list) and isinstance(vb, list):
                if len(va) != len(vb):
                    ok = False
                    break
                for i, (x, y) in enumerate(zip(va, vb)):
                    if isinstance(x, ast.AST) and isinstance(y, ast.AST):
                        if ast.dump(x) != ast.dump(y):
                            diffs.append((fld, i, x, y))
                    elif x != y:
                        ok = False
            elif va != vb:
                ok = False
        if ok and len(diffs) == 1:
            fld, i, x, y = diffs[0]
            if fld not in ('targets', 'target', 'ops', 'op', 'ctx') and isinstance(x, ast.expr) and isinstance(y, ast.expr):
                m = merge_cond(x, y, c)
                if m is not None:
                    new = copy.copy(a)
                    if i is None:
                        setattr(new, fld, m)
                    else:
                        lst = list(getattr(a, fld))
                        lst[i] = m
                        setattr(new, fld, lst)
                    return new
    if isinstance(a, ast.expr) and isinstance(b, ast.expr) and not isinstance(getattr(a, 'ctx', None), (ast.Store, ast.Del)):
        return ast.IfExp(test=copy.deepcopy(c), body=a, orelse=b)
    return None


# ------------------------------------------------------------------------------- R sequential redefinitions / dead stores
def split_redefs(fn):
    """`x = E1 ... x = E2(x) ...` at the top level of the function body: every redefinition starts a new
    variable.  Only when all bindings of x are plain top-level assignments of the function body."""
    captured = set()
    for n in ast.walk(fn):
        if isinstance(n, (ast.Lambda, ast.FunctionDef, ast.AsyncFunctionDef)) and n is not fn:
            captured |= {x.id for x in ast.walk(n) if isinstance(x, ast.Name)}
    top_defs: Dict[str, List[int]] = {}
    for i, st in enumerate(fn.body):
        if isinstance(st, ast.Assign) and len(st.targets) == 1:
            for t in ast.walk(st.targets[0]):
                if isinstance(t, ast.Name) and isinstance(t.ctx, ast.Store):
                    top_defs.setdefault(t.id, []).append(i)
    all_stores: Dict[str, int] = {}
    for n in _walk_shallow(fn):
        if isinstance(n, ast.Name) and isinstance(n.ctx, (ast.Store, ast.Del)):
            all_stores[n.id] = all_stores.get(n.id, 0) + 1
        elif isinstance(n, ast.ExceptHandler) and n.name:
            all_stores[n.name] = all_stores.get(n.name, 0) + 5
    globs = {x for n in _walk_shallow(fn) if isinstance(n, (ast.Global, ast.Nonlocal)) for x in n.names}
    k = 0
    for name, pos in sorted(top_defs.items()):
        if name in captured or name in globs or len(pos) < 2 or all_stores.get(name, 0) != len(pos) or len(set(pos)) != len(pos):
            continue
        for seg, p in enumerate(pos[1:], start=2):
            k += 1
            new = f"{name}__r{seg}"
            nxt = pos[seg] if seg < len(pos) else len(fn.body)
            # the store at p and loads after p up to (and including the right-hand side of) the next definition
            for t in ast.walk(fn.body[p].targets[0]):
                if isinstance(t, ast.Name) and t.id == name:
                    t.id = new
            for j in range(p + 1, nxt):
                for n in ast.walk(fn.body[j]):
                    if isinstance(n, ast.Name) and n.id == name:
                        n.id = new
            if nxt < len(fn.body):
                for n in ast.walk(fn.body[nxt].value):
                    if isinstance(n, ast.Name) and n.id == name:
                        n.id = new
            name_prev = new
        # later segments were renamed relative to `name`; chain them
        # (each pass above renames occurrences of the ORIGINAL name only inside its own segment, so they are disjoint)
    return fn


def dead_stores(fn):
    """`x = <call>` where x is never read: the value is kept as an expression statement"""
    loads = {n.id for n in ast.walk(fn) if isinstance(n, ast.Name) and isinstance(n.ctx, ast.Load)}
    loads |= {n.target.id for n in ast.walk(fn) if isinstance(n, ast.AugAssign) and isinstance(n.target, ast.Name)}   # x += 1 reads x
    globs = {x for n in _walk_shallow(fn) if isinstance(n, (ast.Global, ast.Nonlocal)) for x in n.names}

    def rec(stmts):
        out = []
        for st in stmts:
            for fld in ('body', 'orelse', 'finalbody'):
                blk = getattr(st, fld, None)
                if isinstance(blk, list) and blk and isinstance(blk[0], ast.stmt) and not isinstance(st, (ast.FunctionDef, ast.AsyncFunctionDef, ast.ClassDef)):
                    setattr(st, fld, rec(blk) or [ast.Pass()])
            if isinstance(st, ast.Try):
                for h in st.handlers:
                    h.body = rec(h.body) or [ast.Pass()]
            if isinstance(st, ast.Assign) and len(st.targets) == 1 and isinstance(st.targets[0], ast.Name) \
                    and st.targets[0].id not in loads and st.targets[0].id not in globs:
                if _pure(st.value, False):
                    continue
                out.append(ast.Expr(value=st.value))
                continue
            out.append(st)
        return out
    fn.body = rec(fn.body) or [ast.Pass()]
    return fn


# ------------------------------------------------------------------------------- W split loop variables
def split_loop_vars(fn):
    """a name that is only ever bound as a `for` target (or comprehension target) and only read inside
    the loops that bind it gets a fresh name per loop: `for v in a: ...; for v in b: ...` uses two
    variables that merely share a name."""
    params = {a.arg for a in ast.walk(fn.args) if isinstance(a, ast.arg)}
    for_targets: Dict[str, List[ast.For]] = {}
    other_store: Set[str] = set()
    COMP = (ast.ListComp, ast.SetComp, ast.DictComp, ast.GeneratorExp)
    for n in _walk_shallow(fn):
        if isinstance(n, (ast.For, ast.AsyncFor)):
            for t in ast.walk(n.target):
                if isinstance(t, ast.Name):
                    for_targets.setdefault(t.id, []).append(n)
        elif isinstance(n, COMP):
            for g in n.generators:
                for t in ast.walk(g.target):
                    if isinstance(t, ast.Name) and n not in for_targets.get(t.id, []):
                        for_targets.setdefault(t.id, []).append(n)
    tg_ids = set()
    for loops in for_targets.values():
        for lp in loops:
            if isinstance(lp, COMP):
                for g in lp.generators:
                    tg_ids |= {id(t) for t in ast.walk(g.target)}
            else:
                tg_ids |= {id(t) for t in ast.walk(lp.target)}
    for n in _walk_shallow(fn):
        if isinstance(n, ast.Name) and isinstance(n.ctx, (ast.Store, ast.Del)) and id(n) not in tg_ids:
            other_store.add(n.id)
        elif isinstance(n, ast.ExceptHandler) and n.name:
            other_store.add(n.name)
    captured = set()
    for n in ast.walk(fn):
        if isinstance(n, (ast.Lambda, ast.FunctionDef, ast.AsyncFunctionDef)) and n is not fn:
            captured |= {x.id for x in ast.walk(n) if isinstance(x, ast.Name)}
    counter = 0
    for name, loops in sorted(for_targets.items()):
        if name in params or name in other_store or name in captured or len(loops) < 2:
            continue
        # nested loops over the same name, or reads outside the binding loops: leave alone
        inside: Set[int] = set()
        nested = False
        for lp in loops:
            ids = {id(x) for x in ast.walk(lp)}
            if any(id(o) in ids for o in loops if o is not lp):
                nested = True
            inside |= ids
        if nested:
            continue
        reads = [n for n in ast.walk(fn) if isinstance(n, ast.Name) and n.id == name and isinstance(n.ctx, ast.Load)]
        if any(id(r) not in inside for r in reads):
            continue
        for lp in loops:
            counter += 1
            new = f"{name}__l{counter}"
            for x in ast.walk(lp):
                if isinstance(x, ast.Name) and x.id == name:
                    x.id = new
    return fn


# ------------------------------------------------------------------------------- A alpha
def alpha(fn):
    params = [a for a in fn.args.posonlyargs + fn.args.args + fn.args.kwonlyargs]
    ren: Dict[str, str] = {}
    for i, a in enumerate(params):
        if a.arg not in ('self', 'cls'):
            ren[a.arg] = f"_p{i}"
    if fn.args.vararg:
        ren[fn.args.vararg.arg] = '_pv'
    if fn.args.kwarg:
        ren[fn.args.kwarg.arg] = '_pk'
    local: Set[str] = set()
    for n in ast.walk(fn):
        if isinstance(n, ast.Name) and isinstance(n.ctx, (ast.Store, ast.Del)):
            local.add(n.id)
        elif isinstance(n, ast.ExceptHandler) and n.name:
            local.add(n.name)
        elif isinstance(n, ast.arg) and n not in params:
            local.add(n.arg)
        elif isinstance(n, (ast.FunctionDef, ast.AsyncFunctionDef)) and n is not fn:
            local.add(n.name)
    globs = {x for n in ast.walk(fn) if isinstance(n, (ast.Global, ast.Nonlocal)) for x in n.names}
    local -= globs
    counter = [0]

    def name_for(x):
        if x in ren:
            return ren[x]
        if x in local:
            ren[x] = f"_v{counter[0]}"
            counter[0] += 1
            return ren[x]
        return x

    class V(ast.NodeVisitor):
        """visit in source (evaluation-ish) order: value before targets for assignments"""

        def visit_Assign(self, n):
            self.visit(n.value)
            for t in n.targets:
                self.visit(t)

        def visit_AugAssign(self, n):
            self.visit(n.target)
            self.visit(n.value)

        def visit_For(self, n):
            self.visit(n.iter)
            self.visit(n.target)
            for s in n.body + n.orelse:
                self.visit(s)

        def visit_comp(self, n):
            for g in n.generators:
                self.visit(g.iter)
                self.visit(g.target)
                for c in g.ifs:
                    self.visit(c)
            if isinstance(n, ast.DictComp):
                self.visit(n.key)
                self.visit(n.value)
            else:
                self.visit(n.elt)
        visit_ListComp = visit_SetComp = visit_GeneratorExp = visit_DictComp = visit_comp

        def visit_Name(self, n):
            n.id = name_for(n.id)

        def visit_arg(self, n):
            n.arg = name_for(n.arg)

        def visit_ExceptHandler(self, n):
            if n.type:
                self.visit(n.type)
            if n.name:
                n.name = name_for(n.name)
            for s in n.body:
                self.visit(s)

        def visit_FunctionDef(self, n):
            if n is not fn:
                n.name = name_for(n.name)
            self.generic_visit(n)

        def visit_keyword(self, n):
            self.visit(n.value)
    V().visit(fn)
    return fn


# ------------------------------------------------------------------------------- driver
def canon_function(fn_node, consts: Dict[str, ast.AST] = None, rounds=5, keep_name=True) -> str:
    fn = copy.deepcopy(fn_node)
    fn = _Strip().visit(fn)
    if consts:
        local = {n.id for n in ast.walk(fn) if isinstance(n, ast.Name) and isinstance(n.ctx, (ast.Store, ast.Del))}
        local |= {a.arg for a in ast.walk(fn) if isinstance(a, ast.arg)}
        fn = _Consts(consts, local).visit(fn)
    prev = None
    fn = split_redefs(fn)
    for _ in range(rounds):
        fn = dead_stores(fn)
        fn.body = Idioms().block(fn.body)
        fn = _Expr().visit(fn)
        Flow().fn(fn)
        fn = _Expr().visit(fn)
        fn.body = sink_inits(fn.body)
        for _k in range(60):
            if not copy_propagate(fn):
                break
        ast.fix_missing_locations(fn)
        txt = ast.unparse(fn)
        if txt == prev:
            break
        prev = txt
        fn = ast.parse(txt).body[0]
    fn = split_loop_vars(fn)
    fn = alpha(fn)
    fn.decorator_list = [d for d in fn.decorator_list]
    ast.fix_missing_locations(fn)
    return ast.unparse(fn)


def normal_form(fn_node, consts: Dict[str, ast.AST] = None, idioms=False, flow=True, rounds=4):
    """the canonicalisation passes WITHOUT alpha-renaming, as an AST (rules that reason about path
    conditions run on this form: guard style, helper extraction and hoisted locals do not matter)"""
    fn = copy.deepcopy(fn_node)
    fn = _Strip().visit(fn)
    if consts:
        local = {n.id for n in ast.walk(fn) if isinstance(n, ast.Name) and isinstance(n.ctx, (ast.Store, ast.Del))}
        local |= {a.arg for a in ast.walk(fn) if isinstance(a, ast.arg)}
        fn = _Consts(consts, local).visit(fn)
    prev = None
    for _ in range(rounds):
        fn = dead_stores(fn)
        if idioms:
            fn.body = Idioms().block(fn.body)
        fn = _Expr().visit(fn)
        if flow:
            Flow().fn(fn)
            fn = _Expr().visit(fn)
        for _k in range(60):
            if not copy_propagate(fn):
                break
        ast.fix_missing_locations(fn)
        txt = ast.unparse(fn)
        if txt == prev:
            break
        prev = txt
    # positions: everything points at the function header (reports name the function anyway)
    for n in ast.walk(fn):
        if isinstance(n, (ast.expr, ast.stmt, ast.ExceptHandler)):
            n.lineno = getattr(fn_node, 'lineno', 1)
            n.col_offset = 0
            n.end_lineno = n.lineno
            n.end_col_offset = 0
    return fn

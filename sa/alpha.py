"""Alpha-normalisation of local variable names.

Many rules name locals of the analysed functions (`tx_sorted`, `results`, `is_valid`...).
To keep them robust against a behaviour-preserving *rename*, every analysed function is
alpha-renamed back to the reference names before the rules run: each local gets a
signature computed from its first defining expression (with other locals replaced by
THEIR signatures, recursively), and `alpha_table.json` (generated from the reference
tree by tools/gen_alpha_table.py) maps signature -> reference name.  A local whose
signature is in the table under another name is renamed in the AST (positions are kept,
so reports still point at the right lines).  On the reference tree this is the identity.
"""
from __future__ import annotations
import ast
import hashlib
import json
import os
from typing import Dict, List, Tuple, Optional

TABLE = os.path.join(os.path.dirname(os.path.abspath(__file__)), 'alpha_table.json')


def _defs(fn: ast.FunctionDef) -> Dict[str, Tuple[str, ast.AST, int]]:
    """name -> (kind, defining expression, position) of the FIRST binding in source order.
    Nested function bodies are not entered (their locals are their own)."""
    out: Dict[str, Tuple[str, ast.AST, int]] = {}
    params = {a.arg for a in fn.args.posonlyargs + fn.args.args + fn.args.kwonlyargs}
    if fn.args.vararg:
        params.add(fn.args.vararg.arg)
    if fn.args.kwarg:
        params.add(fn.args.kwarg.arg)

    def bind(target, kind, value, pos=0):
        if isinstance(target, ast.Name):
            if target.id not in params and target.id not in out:
                out[target.id] = (kind, value, pos)
        elif isinstance(target, (ast.Tuple, ast.List)):
            for i, e in enumerate(target.elts):
                bind(e, kind + f'[{i}]', value, pos)

    def walk(stmts):
        for st in stmts:
            if isinstance(st, (ast.FunctionDef, ast.AsyncFunctionDef, ast.ClassDef)):
                if st.name not in out and st.name not in params:
                    out[st.name] = ('def', ast.Constant(st.name), 0)
                continue
            if isinstance(st, ast.Assign):
                for t in st.targets:
                    bind(t, 'assign', st.value)
            elif isinstance(st, ast.AnnAssign) and st.value is not None:
                bind(st.target, 'assign', st.value)
            elif isinstance(st, (ast.For, ast.AsyncFor)):
                bind(st.target, 'for', st.iter)
                walk(st.body)
                walk(st.orelse)
            elif isinstance(st, ast.While):
                walk(st.body)
                walk(st.orelse)
            elif isinstance(st, ast.If):
                walk(st.body)
                walk(st.orelse)
            elif isinstance(st, (ast.With, ast.AsyncWith)):
                for it in st.items:
                    if it.optional_vars is not None:
                        bind(it.optional_vars, 'with', it.context_expr)
                walk(st.body)
            elif isinstance(st, ast.Try):
                walk(st.body)
                for h in st.handlers:
                    if h.name and h.name not in out and h.name not in params:
                        out[h.name] = ('except', h.type if h.type is not None else ast.Constant('bare'), 0)
                    walk(h.body)
                walk(st.orelse)
                walk(st.finalbody)
    walk(fn.body)
    # comprehension targets (own scopes, but rules quote them textually): first occurrence in source order
    comps = []
    stack = list(fn.body)
    while stack:
        n = stack.pop()
        if isinstance(n, (ast.FunctionDef, ast.AsyncFunctionDef, ast.ClassDef, ast.Lambda)):
            continue
        if isinstance(n, (ast.ListComp, ast.SetComp, ast.GeneratorExp, ast.DictComp)):
            comps.append(n)
        stack.extend(ast.iter_child_nodes(n))
    comps.sort(key=lambda c: (c.lineno, c.col_offset))
    for c in comps:
        for g in c.generators:
            bind(g.target, 'comp', g.iter)
    return out


def signatures(fn: ast.FunctionDef) -> Dict[str, str]:
    defs = _defs(fn)
    memo: Dict[str, str] = {}
    active = set()

    def sig(name: str) -> str:
        if name in memo:
            return memo[name]
        if name in active:
            return 'CYCLE'
        active.add(name)
        kind, expr, _pos = defs[name]
        txt = norm(expr)
        active.discard(name)
        s = hashlib.sha1(f"{kind}|{txt}".encode()).hexdigest()[:12]
        memo[name] = s
        return s

    def norm(e) -> str:
        class R(ast.NodeTransformer):
            def visit_Name(self, n):
                if n.id in defs:
                    return ast.copy_location(ast.Name(id='$' + sig(n.id), ctx=n.ctx), n)
                return n

            def visit_Lambda(self, n):
                # lambda parameters are positional placeholders
                names = [a.arg for a in n.args.args]
                body = ast.unparse(n.body)
                sub = ast.parse(body, mode='eval').body
                class L(ast.NodeTransformer):
                    def visit_Name(self, m):
                        if m.id in names:
                            return ast.Name(id=f'$p{names.index(m.id)}', ctx=m.ctx)
                        if m.id in defs:
                            return ast.Name(id='$' + sig(m.id), ctx=m.ctx)
                        return m
                return ast.Constant('lambda:' + ast.unparse(L().visit(sub)))
        import copy
        return ast.unparse(R().visit(copy.deepcopy(e)))
    out = {}
    seen: Dict[str, int] = {}
    for name in sorted(defs, key=lambda k: (getattr(defs[k][1], 'lineno', 0), k)):
        s = sig(name)
        n = seen.get(s, 0)
        seen[s] = n + 1
        out[name] = s if n == 0 else f"{s}#{n}"
    return out


def load_table() -> Dict[str, Dict[str, str]]:
    if not os.path.exists(TABLE):
        return {}
    with open(TABLE, 'rt') as h:
        return json.load(h)


def normalise(qual: str, fn: ast.FunctionDef, table: Dict[str, Dict[str, str]]) -> Dict[str, str]:
    """Rename locals of fn back to the reference names (in place). Returns {current: reference}."""
    ref = table.get(qual)
    if not ref:
        return {}
    sigs = signatures(fn)
    current = set(sigs)
    ren: Dict[str, str] = {}
    for name, s in sigs.items():
        want = ref.get(s)
        if want and want != name and want not in current and want not in ren.values():
            ren[name] = want
    if not ren:
        return {}

    def rename(node, shadow):
        for ch in ast.iter_child_nodes(node):
            sh = shadow
            if isinstance(ch, ast.Lambda):
                sh = shadow | {a.arg for a in ch.args.args + ch.args.kwonlyargs}
            elif isinstance(ch, (ast.FunctionDef, ast.AsyncFunctionDef)):
                sh = shadow | {a.arg for a in ch.args.args + ch.args.kwonlyargs}
            if isinstance(ch, ast.Name) and ch.id in ren and ch.id not in shadow:
                ch.id = ren[ch.id]
            if isinstance(ch, ast.ExceptHandler) and ch.name in ren:
                ch.name = ren[ch.name]
            rename(ch, sh)
    rename(fn, frozenset())
    return ren

"""E6 - regex-AST normaliser for the ExPASy cleavage tables (no string is matched).

A rule is a list of alternatives; each alternative is (lookbehind classes, core
classes, lookahead classes) where a class is a frozenset over the alphabet A-Z + '*'.
"""
from __future__ import annotations
import string
from typing import List, Tuple, FrozenSet
try:
    import re._parser as sre_parse          # py >= 3.11
    import re._constants as C
except ImportError:                          # pragma: no cover
    import sre_parse
    import sre_constants as C

ALPHABET = frozenset(string.ascii_uppercase + '*')
WORD = frozenset(string.ascii_uppercase)

Cls = FrozenSet[str]


class RxError(Exception):
    pass


def _in_set(items) -> Cls:
    neg = False
    s = set()
    for (op, av) in items:
        if op is C.NEGATE:
            neg = True
        elif op is C.LITERAL:
            s.add(chr(av))
        elif op is C.RANGE:
            s |= {chr(x) for x in range(av[0], av[1] + 1)}
        elif op is C.CATEGORY:
            if av is C.CATEGORY_WORD:
                s |= WORD
            else:
                raise RxError(f"unsupported category {av}")
        else:
            raise RxError(f"unsupported set item {op}")
    s &= ALPHABET
    return frozenset(ALPHABET - s) if neg else frozenset(s)


def _seq(items) -> List[Tuple[str, object]]:
    """Flatten a SubPattern into a list of ('cls', set) | ('lb', [sets]) | ('la', [sets]) | ('alt', [[...]])."""
    out = []
    for (op, av) in items:
        if op is C.LITERAL:
            out.append(('cls', frozenset({chr(av)}) & ALPHABET))
        elif op is C.NOT_LITERAL:
            out.append(('cls', frozenset(ALPHABET - {chr(av)})))
        elif op is C.ANY:
            out.append(('cls', ALPHABET))
        elif op is C.IN:
            out.append(('cls', _in_set(av)))
        elif op is C.CATEGORY:
            if av is C.CATEGORY_WORD:
                out.append(('cls', WORD))
            else:
                raise RxError(f"unsupported category {av}")
        elif op is C.SUBPATTERN:
            out += _seq(av[3])
        elif op is C.MAX_REPEAT or op is C.MIN_REPEAT:
            lo, hi, sub = av
            if lo != hi:
                raise RxError("variable-width repeat")
            inner = _seq(sub)
            for _ in range(lo):
                out += inner
        elif op is C.ASSERT:
            direction, sub = av
            inner = _seq(sub)
            if any(k != 'cls' for k, _ in inner):
                raise RxError("nested construct inside lookaround")
            out.append(('lb' if direction < 0 else 'la', [c for _, c in inner]))
        elif op is C.ASSERT_NOT:
            raise RxError("negative lookaround")
        elif op is C.BRANCH:
            out.append(('alt', [_seq(b) for b in av[1]]))
        else:
            raise RxError(f"unsupported regex op {op}")
    return out


def alternatives(pattern: str) -> List[List[Tuple[str, object]]]:
    items = _seq(sre_parse.parse(pattern))
    if len(items) == 1 and items[0][0] == 'alt':
        return items[0][1]
    if any(k == 'alt' for k, _ in items):
        raise RxError("alternation mixed with concatenation")
    return [items]


def site_alt(alt) -> Tuple[List[Cls], List[Cls], List[Cls]]:
    """(lookbehind, core, lookahead) of one alternative of a *site* pattern."""
    lb, core, la = [], [], []
    state = 0
    for k, v in alt:
        if k == 'lb':
            if state != 0 or lb:
                raise RxError("lookbehind not leading")
            lb = list(v)
        elif k == 'cls':
            if state > 1:
                raise RxError("core after lookahead")
            state = 1
            core.append(v)
        elif k == 'la':
            if la:
                raise RxError("two lookaheads")
            state = 2
            la = list(v)
        else:
            raise RxError("nested alternation")
    return lb, core, la


def range_alt(alt) -> List[Cls]:
    out = []
    for k, v in alt:
        if k != 'cls':
            raise RxError("lookaround / alternation inside a range alternative")
        out.append(v)
    return out


def show(c: Cls) -> str:
    if c == ALPHABET:
        return '.'
    if c == WORD:
        return '\\w'
    if len(c) > 14:
        return '[^' + ''.join(sorted(ALPHABET - c)) + ']'
    return '[' + ''.join(sorted(c)) + ']' if len(c) != 1 else next(iter(c))


def overlap_satisfiable(win_a: List[Cls], off_a: int, win_b: List[Cls], off_b: int) -> bool:
    """Two windows (class lists) placed at absolute offsets: is there a string on
    which both match?  (true iff every overlapped position has a common letter)"""
    for i, ca in enumerate(win_a):
        j = off_a + i - off_b
        if 0 <= j < len(win_b):
            if not (ca & win_b[j]):
                return False
    return all(c for c in win_a) and all(c for c in win_b)

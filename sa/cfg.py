"""E2 - statement-level control-flow graph with exception edges, dominators and a
bounded, literal-tracking path enumerator.  Pure stdlib.

Nodes are simple statements, branch tests (If/While), loop heads (For) and handler
entries.  Edge labels: 'next', 'T', 'F', 'loop', 'done', 'back', 'continue', 'break',
'exc', 'return', 'raise'.

Approximations (stated in DESIGN §2/E2):
* inside a ``try`` body every statement that contains a call / subscript / attribute
  load, and every ``raise``/``assert``, may transfer to each handler of that try;
  outside a ``try`` no implicit exception flow is modelled;
* ``finally`` bodies are placed on the normal-completion paths only.
"""
from __future__ import annotations
import ast
from typing import Dict, List, Tuple, Optional, Iterable, Set, Callable
from .model import unparse, norm_stmt, walk_no_nested

CATCH_ALL = {'', 'Exception', 'BaseException'}


class Node:
    __slots__ = ('id', 'kind', 'ast', 'try_depth')

    def __init__(self, i, kind, a):
        self.id = i
        self.kind = kind      # entry exit raise_exit stmt test iter handler
        self.ast = a
        self.try_depth = 0

    @property
    def line(self):
        return getattr(self.ast, 'lineno', 0)

    def text(self):
        if self.kind in ('entry', 'exit', 'raise_exit', 'join'):
            return f'<{self.kind}>'
        if self.kind == 'test':
            return f"test {unparse(self.ast)}"
        if self.kind == 'iter':
            return f"for {unparse(self.ast.target)} in {unparse(self.ast.iter)}"
        if self.kind == 'handler':
            return norm_stmt(self.ast)
        return norm_stmt(self.ast)

    def __repr__(self):
        return f"<N{self.id} {self.kind} L{self.line} {self.text()[:50]}>"


def may_raise(stmt) -> bool:
    if isinstance(stmt, (ast.Raise, ast.Assert)):
        return True
    for n in walk_no_nested(stmt):
        if isinstance(n, (ast.Call, ast.Subscript)):
            return True
        if isinstance(n, ast.Attribute) and isinstance(n.ctx, ast.Load):
            return True
        if isinstance(n, (ast.BinOp,)):
            return True
    return False


class _Ctx:
    def __init__(self, handlers=None, cont=None, brk=None):
        self.handlers: List[List[int]] = handlers or []   # stack of handler-entry lists
        self.catch_all: List[bool] = []
        self.cont = cont
        self.brk: Optional[List[Tuple[int, str]]] = brk


class CFG:
    def __init__(self, fn: ast.AST):
        self.fn = fn
        self.nodes: List[Node] = []
        self.succ: Dict[int, List[Tuple[str, int]]] = {}
        self.pred: Dict[int, List[Tuple[str, int]]] = {}
        self.by_ast: Dict[int, List[int]] = {}
        self.entry = self._new('entry', fn).id
        self.exit = self._new('exit', fn).id
        self.raise_exit = self._new('raise_exit', fn).id
        self._handler_stack: List[Tuple[List[int], bool]] = []
        self._loop_stack: List[Tuple[int, List[Tuple[int, str]]]] = []
        body = fn.body if hasattr(fn, 'body') else [fn]
        outs = self._block(body, [(self.entry, 'next')])
        for (n, l) in outs:
            self._edge(n, self.exit, l if l != 'next' else 'fallthrough')
        self._idom = None

    # ---------------------------------------------------------------- build
    def _new(self, kind, a) -> Node:
        n = Node(len(self.nodes), kind, a)
        n.try_depth = len(getattr(self, '_handler_stack', []))
        self.nodes.append(n)
        self.succ[n.id] = []
        self.pred[n.id] = []
        self.by_ast.setdefault(id(a), []).append(n.id)
        return n

    def _join(self, a) -> int:
        """synthetic end-of-loop-body node, so that T/F labels of a trailing `if` survive."""
        ps = ast.Pass()
        ps.lineno = getattr(a, 'end_lineno', getattr(a, 'lineno', 0))
        n = Node(len(self.nodes), 'join', ps)
        n.try_depth = len(self._handler_stack)
        self.nodes.append(n)
        self.succ[n.id] = []
        self.pred[n.id] = []
        return n.id

    def _edge(self, a, b, label):
        if (label, b) not in self.succ[a]:
            self.succ[a].append((label, b))
            self.pred[b].append((label, a))

    def _connect(self, ins, target):
        for (n, l) in ins:
            self._edge(n, target, l)

    def _exc_edges(self, nid):
        """exceptional successors of a node given the handler stack."""
        for handlers, catch_all in reversed(self._handler_stack):
            for h in handlers:
                self._edge(nid, h, 'exc')
            if catch_all:
                return
        # may propagate out of the function (only recorded when inside some try,
        # or for explicit raise)
        self._edge(nid, self.raise_exit, 'raise')

    def _block(self, stmts, ins):
        for st in stmts:
            ins = self._stmt(st, ins)
        return ins

    def _stmt(self, st, ins):
        if isinstance(st, ast.If):
            t = self._new('test', st.test)
            self.by_ast.setdefault(id(st), []).append(t.id)
            self._connect(ins, t.id)
            if self._handler_stack and may_raise(st.test):
                self._exc_edges(t.id)
            outs = self._block(st.body, [(t.id, 'T')])
            if st.orelse:
                outs += self._block(st.orelse, [(t.id, 'F')])
            else:
                outs.append((t.id, 'F'))
            return outs
        if isinstance(st, (ast.For, ast.AsyncFor)):
            h = self._new('iter', st)
            self._connect(ins, h.id)
            if self._handler_stack and may_raise(st.iter):
                self._exc_edges(h.id)
            brk: List[Tuple[int, str]] = []
            self._loop_stack.append((h.id, brk))
            outs = self._block(st.body, [(h.id, 'loop')])
            self._loop_stack.pop()
            if outs:
                j = self._join(st)
                self._connect(outs, j)
                self._edge(j, h.id, 'back')
            done = [(h.id, 'done')]
            if st.orelse:
                done = self._block(st.orelse, done)
            return done + brk
        if isinstance(st, ast.While):
            t = self._new('test', st.test)
            self.by_ast.setdefault(id(st), []).append(t.id)
            self._connect(ins, t.id)
            if self._handler_stack and may_raise(st.test):
                self._exc_edges(t.id)
            brk = []
            self._loop_stack.append((t.id, brk))
            outs = self._block(st.body, [(t.id, 'T')])
            self._loop_stack.pop()
            if outs:
                j = self._join(st)
                self._connect(outs, j)
                self._edge(j, t.id, 'back')
            infinite = isinstance(st.test, ast.Constant) and bool(st.test.value)
            done = [] if infinite else [(t.id, 'F')]
            if st.orelse and done:
                done = self._block(st.orelse, done)
            return done + brk
        if isinstance(st, ast.Try):
            hentries = []
            catch_all = False
            for h in st.handlers:
                hn = self._new('handler', h)
                hentries.append(hn.id)
                tn = unparse(h.type) if h.type else ''
                names = {x.strip().split('.')[-1] for x in tn.strip('()').split(',')} if tn else {''}
                if names & CATCH_ALL:
                    catch_all = True
            self._handler_stack.append((hentries, catch_all))
            mark = self._new('stmt', st)         # 'try' marker node (no-op)
            self._connect(ins, mark.id)
            outs = self._block(st.body, [(mark.id, 'next')])
            self._handler_stack.pop()
            if st.orelse:
                outs = self._block(st.orelse, outs)
            for h, hid in zip(st.handlers, hentries):
                outs += self._block(h.body, [(hid, 'next')])
            if st.finalbody:
                outs = self._block(st.finalbody, outs)
            return outs
        if isinstance(st, (ast.With, ast.AsyncWith)):
            w = self._new('stmt', st)
            self._connect(ins, w.id)
            if self._handler_stack:
                self._exc_edges(w.id)
            return self._block(st.body, [(w.id, 'next')])
        # simple statements
        n = self._new('stmt', st)
        self._connect(ins, n.id)
        if isinstance(st, ast.Return):
            if self._handler_stack and st.value is not None and may_raise(st.value):
                self._exc_edges(n.id)
            self._edge(n.id, self.exit, 'return')
            return []
        if isinstance(st, ast.Raise):
            self._exc_edges(n.id)
            return []
        if isinstance(st, ast.Continue):
            if self._loop_stack:
                self._edge(n.id, self._loop_stack[-1][0], 'continue')
            return []
        if isinstance(st, ast.Break):
            if self._loop_stack:
                self._loop_stack[-1][1].append((n.id, 'break'))
            return []
        if self._handler_stack and may_raise(st):
            self._exc_edges(n.id)
        return [(n.id, 'next')]

    # -------------------------------------------------------------- queries
    def nodes_for(self, a) -> List[int]:
        return self.by_ast.get(id(a), [])

    def node_for(self, a) -> int:
        ids = self.nodes_for(a)
        if not ids:
            raise KeyError(f"no cfg node for {norm_stmt(a)[:60]}")
        return ids[0]

    def stmt_nodes(self, pred: Callable[[ast.AST], bool]) -> List[int]:
        return [n.id for n in self.nodes if n.kind in ('stmt', 'test', 'iter', 'handler') and pred(n.ast)]

    def reachable(self, start: int, avoid: Iterable[int] = (), skip_labels: Iterable[str] = ()) -> Set[int]:
        avoid = set(avoid)
        skip = set(skip_labels)
        seen, stack = set(), [start]
        while stack:
            x = stack.pop()
            if x in seen or x in avoid:
                continue
            seen.add(x)
            for (l, y) in self.succ[x]:
                if l not in skip:
                    stack.append(y)
        return seen

    def reachable_edges(self, start_edges: List[Tuple[int, str, int]], avoid=()) -> Set[int]:
        seen = set()
        for (_a, _l, b) in start_edges:
            seen |= self.reachable(b, avoid)
        return seen

    def dominators(self) -> Dict[int, Set[int]]:
        if self._idom is not None:
            return self._idom
        allr = self.reachable(self.entry)
        dom = {n: set(allr) for n in allr}
        dom[self.entry] = {self.entry}
        changed = True
        order = sorted(allr)
        while changed:
            changed = False
            for n in order:
                if n == self.entry:
                    continue
                ps = [p for (_l, p) in self.pred[n] if p in allr]
                if not ps:
                    continue
                new = set.intersection(*(dom[p] for p in ps)) | {n}
                if new != dom[n]:
                    dom[n] = new
                    changed = True
        self._idom = dom
        return dom

    def dominates(self, a: int, b: int) -> bool:
        d = self.dominators()
        return b in d and a in d[b]

    def edge_dominates(self, src: int, label: str, b: int) -> bool:
        """Every path entry->b uses the edge (src,label)."""
        # remove the edge and test reachability
        seen, stack = set(), [self.entry]
        while stack:
            x = stack.pop()
            if x in seen:
                continue
            seen.add(x)
            for (l, y) in self.succ[x]:
                if x == src and l == label:
                    continue
                stack.append(y)
        return b not in seen

    # ---------------------------------------------------------------- paths
    def paths(self, start: int, stop: Callable[[int, str, int], bool] = None,
              start_label: Optional[str] = None, loop_bound: int = 1,
              max_paths: int = 200000, facts: Optional['Facts'] = None,
              track: bool = True) -> Iterable['Path']:
        """Enumerate paths from `start` until an edge for which stop(src,label,dst) is
        true (edge included) or a function exit.  Each loop head may be entered at
        most `loop_bound` times per path.  With track=True infeasible paths (by the
        literal tracker) are pruned."""
        count = [0]
        out: List[Path] = []

        def rec(nid, steps, visits, fx):
            if count[0] >= max_paths:
                raise PathBudgetExceeded(max_paths)
            node = self.nodes[nid]
            if track and node.kind == 'stmt':
                fx = fx.after_stmt(node.ast)
            succs = self.succ[nid]
            if start_label is not None and not steps:
                succs = [(l, y) for (l, y) in succs if l == start_label]
            if not succs:
                count[0] += 1
                out.append(Path(self, steps + [(nid, 'end', -1)], fx))
                return
            for (l, y) in succs:
                f2 = fx
                if track and node.kind == 'test' and l in ('T', 'F'):
                    f2 = fx.assume(node.ast, l == 'T')
                    if f2 is None:
                        continue
                if track and node.kind == 'iter' and l in ('loop', 'done'):
                    f2 = fx.after_iter(node.ast, l == 'loop')
                    if f2 is None:
                        continue
                step = (nid, l, y)
                if stop is not None and stop(nid, l, y):
                    count[0] += 1
                    out.append(Path(self, steps + [step], f2))
                    continue
                if y in (self.exit, self.raise_exit):
                    count[0] += 1
                    out.append(Path(self, steps + [step], f2))
                    continue
                v2 = visits
                if (node.kind == 'iter' and l == 'loop') or \
                        (node.kind == 'test' and l == 'T' and self._is_while(nid)):
                    c = visits.get(nid, 0)
                    if c >= loop_bound:
                        continue
                    v2 = dict(visits)
                    v2[nid] = c + 1
                rec(y, steps + [step], v2, f2)

        rec(start, [], {}, facts or Facts())
        return out

    def must_facts(self, start: int = None, init: 'Facts' = None, start_label: str = None) -> Dict[int, 'Facts']:
        """Forward must-analysis: facts known on EVERY path from `start` to each node (join =
        intersection).  Sound where path enumeration would explode; loses flag correlations at
        merges.  State at a node = facts on entry to the node."""
        start = self.entry if start is None else start
        state: Dict[int, Facts] = {start: init or Facts()}
        work = [start]
        first = True
        while work:
            nid = work.pop()
            node = self.nodes[nid]
            fin = state[nid]
            fx = fin.after_stmt(node.ast) if node.kind == 'stmt' else fin
            for (l, y) in self.succ[nid]:
                if first and start_label is not None and l != start_label:
                    continue
                f2 = fx
                if node.kind == 'test' and l in ('T', 'F'):
                    f2 = fx.assume(node.ast, l == 'T')
                    if f2 is None:
                        continue
                elif node.kind == 'iter' and l in ('loop', 'done'):
                    f2 = fx.after_iter(node.ast, l == 'loop')
                elif l == 'exc':
                    f2 = fin          # the statement did not complete
                if y in (self.exit, self.raise_exit):
                    continue
                old = state.get(y)
                new = f2 if old is None else old.meet(f2)
                if old is None or not old.same(new):
                    state[y] = new
                    work.append(y)
            first = False
        return state

    def _is_while(self, nid):
        n = self.nodes[nid]
        if n.kind != 'test':
            return False
        return any(l in ('back', 'continue') for (l, _p) in self.pred[nid])

    def describe_path(self, steps, relpath='') -> List[str]:
        out = []
        for (nid, l, _y) in steps:
            n = self.nodes[nid]
            if n.kind in ('entry', 'join'):
                continue
            out.append(f"{relpath}:{n.line}: {n.text()[:90]} [{l}]")
        return out


class PathBudgetExceeded(Exception):
    pass


class Path:
    def __init__(self, cfg: CFG, steps, facts):
        self.cfg = cfg
        self.steps: List[Tuple[int, str, int]] = steps
        self.facts: 'Facts' = facts

    def node_ids(self) -> List[int]:
        return [s[0] for s in self.steps]

    def nodes(self) -> List[Node]:
        return [self.cfg.nodes[s[0]] for s in self.steps]

    def last_edge(self) -> Tuple[int, str, int]:
        return self.steps[-1]

    def end_kind(self) -> str:
        nid, l, y = self.steps[-1]
        if l == 'end':
            return 'end'
        if y == self.cfg.exit:
            return 'return'
        if y == self.cfg.raise_exit:
            return 'raise'
        return l

    def count(self, pred: Callable[[Node], bool]) -> int:
        return sum(1 for n in self.nodes() if pred(n))

    def took(self, test_ast, label) -> bool:
        for (nid, l, _y) in self.steps:
            if self.cfg.nodes[nid].ast is test_ast and l == label:
                return True
        return False

    def describe(self, relpath=''):
        return self.cfg.describe_path(self.steps, relpath)


# ------------------------------------------------------------------ literals
_CANON = {ast.NotIn: (ast.In, False), ast.IsNot: (ast.Is, False), ast.NotEq: (ast.Eq, False),
          ast.In: (ast.In, True), ast.Is: (ast.Is, True), ast.Eq: (ast.Eq, True),
          ast.Lt: (ast.Lt, True), ast.LtE: (ast.LtE, True)}
_SYM = {ast.In: 'in', ast.Is: 'is', ast.Eq: '==', ast.Lt: '<', ast.LtE: '<='}


def literal(e, truth=True):
    """Canonical (atom text, polarity) of a non-boolean-operator expression."""
    while True:
        if isinstance(e, ast.UnaryOp) and isinstance(e.op, ast.Not):
            e, truth = e.operand, not truth
        elif isinstance(e, ast.Call) and isinstance(e.func, ast.Name) and e.func.id == 'bool' and len(e.args) == 1 and not e.keywords:
            e = e.args[0]          # bool(x) has the truth value of x
        else:
            break
    if isinstance(e, ast.Compare) and len(e.ops) == 1:
        op = type(e.ops[0])
        l, r = e.left, e.comparators[0]
        if op is ast.Gt:          # a > b  ==  b < a
            op, l, r = ast.Lt, r, l
        elif op is ast.GtE:       # a >= b ==  b <= a
            op, l, r = ast.LtE, r, l
        if op in _CANON:
            cop, pol = _CANON[op]
            lt, rt = unparse(l), unparse(r)
            if cop is ast.Eq and lt > rt:
                lt, rt = rt, lt
            elif cop is ast.Is:
                # identity is symmetric: constants go right (`x is None`), otherwise lexicographic order
                if isinstance(l, ast.Constant) and not isinstance(r, ast.Constant):
                    lt, rt = rt, lt
                elif not isinstance(l, ast.Constant) and not isinstance(r, ast.Constant) and lt > rt:
                    lt, rt = rt, lt
            return f"{lt} {_SYM[cop]} {rt}", (truth if pol else not truth)
    return unparse(e), truth


def _flatten(e, truth, op_true, out):
    """Collect literals of a disjunction (op_true=ast.Or under truth=True, i.e. a clause)."""
    while isinstance(e, ast.UnaryOp) and isinstance(e.op, ast.Not):
        e, truth = e.operand, not truth
    if isinstance(e, ast.BoolOp):
        # truth=True: Or is a disjunction; truth=False: And is a disjunction (De Morgan)
        if (isinstance(e.op, ast.Or) and truth) or (isinstance(e.op, ast.And) and not truth):
            return all(_flatten(v, truth, op_true, out) for v in e.values)
        return False
    out.append(literal(e, truth))
    return True


def _cnf(e, truth, limit=64):
    """CNF (list of clauses = lists of literals) of a boolean expression under a polarity; None when too big"""
    while isinstance(e, ast.UnaryOp) and isinstance(e.op, ast.Not):
        e, truth = e.operand, not truth
    if isinstance(e, ast.BoolOp):
        conj = (isinstance(e.op, ast.And) and truth) or (isinstance(e.op, ast.Or) and not truth)
        parts = [_cnf(v, truth, limit) for v in e.values]
        if any(p is None for p in parts):
            return None
        if conj:
            out = [c for p in parts for c in p]
            return out if len(out) <= limit else None
        out = [[]]
        for p in parts:
            out = [a + b for a in out for b in p]
            if len(out) > limit:
                return None
        return out
    return [[literal(e, truth)]]


class Facts:
    """Literals (canonical atom -> bool) and clauses (disjunctions of literals) known on a
    path.  Assignments kill everything mentioning the assigned root name; assignments of
    a constant to a plain name are remembered."""

    def __init__(self, d=None, clauses=None, defs=None, cons=None):
        self.d: Dict[str, bool] = d or {}
        self.clauses: List[frozenset] = clauses or []
        self.defs: Dict[str, ast.AST] = defs or {}      # flag variable -> defining boolean expression
        self.cons: List[Tuple[str, ast.AST, bool]] = cons or []   # compound conditions known (text, expr, truth): decided by truth table

    def copy(self):
        return Facts(dict(self.d), list(self.clauses), dict(self.defs), list(self.cons))

    def meet(self, o: 'Facts') -> 'Facts':
        d = {k: v for k, v in self.d.items() if o.d.get(k) is v}
        oc = set(o.clauses)
        cl = [c for c in self.clauses if c in oc]
        # a unit fact on one side satisfies a clause of the other side
        for c in o.clauses:
            if c not in cl and any(self.d.get(a) is t for (a, t) in c):
                cl.append(c)
        for c in self.clauses:
            if c not in cl and any(o.d.get(a) is t for (a, t) in c):
                cl.append(c)
        df = {k: v for k, v in self.defs.items() if k in o.defs and unparse(o.defs[k]) == unparse(v)}
        ok = {(t, tr) for (t, _e, tr) in o.cons}
        cs = [c for c in self.cons if (c[0], c[2]) in ok]
        return Facts(d, cl, df, cs)

    def same(self, o: 'Facts') -> bool:
        return self.d == o.d and set(self.clauses) == set(o.clauses) and set(self.defs) == set(o.defs) and \
            {(t, tr) for (t, _e, tr) in self.cons} == {(t, tr) for (t, _e, tr) in o.cons}

    def known(self, expr) -> Optional[bool]:
        if isinstance(expr, str):
            expr = ast.parse(expr, mode='eval').body
        v = self._eval(expr)
        if v is None and (self.cons or self.clauses):
            v = self._tt(expr)
        return v

    # ---- truth-table decision over the atoms of the compound conditions (finite, no solver)
    @staticmethod
    def _atoms(e, out):
        while isinstance(e, ast.UnaryOp) and isinstance(e.op, ast.Not):
            e = e.operand
        if isinstance(e, ast.BoolOp):
            for v in e.values:
                Facts._atoms(v, out)
        elif isinstance(e, ast.Compare) and len(e.ops) > 1:
            left = e.left
            for op, right in zip(e.ops, e.comparators):
                out.add(literal(ast.Compare(left=left, ops=[op], comparators=[right]))[0])
                left = right
        elif not isinstance(e, ast.Constant):
            out.add(literal(e)[0])

    @staticmethod
    def _ev(e, asg) -> bool:
        if isinstance(e, ast.UnaryOp) and isinstance(e.op, ast.Not):
            return not Facts._ev(e.operand, asg)
        if isinstance(e, ast.BoolOp):
            if isinstance(e.op, ast.And):
                return all(Facts._ev(v, asg) for v in e.values)
            return any(Facts._ev(v, asg) for v in e.values)
        if isinstance(e, ast.Constant):
            return bool(e.value)
        if isinstance(e, ast.Compare) and len(e.ops) > 1:
            left = e.left
            for op, right in zip(e.ops, e.comparators):
                a, pol = literal(ast.Compare(left=left, ops=[op], comparators=[right]))
                if asg[a] != pol:
                    return False
                left = right
            return True
        a, pol = literal(e)
        return asg[a] == pol

    def _tt(self, q, max_atoms=14) -> Optional[bool]:
        atoms = set()
        self._atoms(q, atoms)
        rel = []
        # constraints connected to the query through shared atoms
        pool = [(e, tr) for (_t, e, tr) in self.cons]
        clause_atoms = [({a for (a, _p) in c}, c) for c in self.clauses]
        changed = True
        used = set()
        while changed:
            changed = False
            for i, (e, tr) in enumerate(pool):
                if i in used:
                    continue
                a2 = set()
                self._atoms(e, a2)
                if a2 & atoms:
                    atoms |= a2
                    rel.append((e, tr))
                    used.add(i)
                    changed = True
        cls = [c for (a2, c) in clause_atoms if a2 & atoms]
        for c in cls:
            atoms |= {a for (a, _p) in c}
        free = sorted(a for a in atoms if a not in self.d)
        if len(free) > max_atoms or (not rel and not cls):
            return None
        seen_true = seen_false = False
        import itertools
        for vals in itertools.product((True, False), repeat=len(free)):
            asg = {a: self.d[a] for a in atoms if a in self.d}
            asg.update(zip(free, vals))
            if not all(self._ev(e, asg) == tr for (e, tr) in rel):
                continue
            if not all(any(asg[a] == p for (a, p) in c) for c in cls):
                continue
            if self._ev(q, asg):
                seen_true = True
            else:
                seen_false = True
            if seen_true and seen_false:
                return None
        if seen_true and not seen_false:
            return True
        if seen_false and not seen_true:
            return False
        return None          # no consistent assignment: the point is unreachable

    def _eval(self, e) -> Optional[bool]:
        if isinstance(e, ast.Constant):
            return bool(e.value)
        if isinstance(e, ast.UnaryOp) and isinstance(e.op, ast.Not):
            v = self._eval(e.operand)
            return None if v is None else (not v)
        if isinstance(e, ast.BoolOp):
            vals = [self._eval(v) for v in e.values]
            if isinstance(e.op, ast.And):
                if any(v is False for v in vals):
                    return False
                if all(v is True for v in vals):
                    return True
                # not(And) as clause?
                lits = []
                if _flatten(e, False, None, lits) and self._clause_entails(lits):
                    return False
                return None
            if any(v is True for v in vals):
                return True
            if all(v is False for v in vals):
                return False
            lits = []
            if _flatten(e, True, None, lits) and self._clause_entails(lits):
                return True
            return None
        k, pol = literal(e)
        if k in self.d:
            return self.d[k] == pol
        return None

    def _clause_entails(self, lits) -> bool:
        q = set(lits)
        for c in self.clauses:
            rest = {(a, t) for (a, t) in c if not (a in self.d and self.d[a] != t)}
            if rest <= q:
                return True
        return False

    def assume(self, expr, truth: bool) -> Optional['Facts']:
        v = self._eval(expr)
        if v is not None and v != truth:
            return None
        f = self.copy()
        if not f._add(expr, truth):
            return None
        return f

    def _add(self, e, truth) -> bool:
        while isinstance(e, ast.UnaryOp) and isinstance(e.op, ast.Not):
            e, truth = e.operand, not truth
        if isinstance(e, ast.BoolOp):
            if (isinstance(e.op, ast.And) and truth) or (isinstance(e.op, ast.Or) and not truth):
                return all(self._add(v, truth) for v in e.values)
            txt = unparse(e)
            if not any(t == txt and tr == truth for (t, _e, tr) in self.cons):
                self.cons.append((txt, e, truth))
            lits = []
            if _flatten(e, truth, None, lits):
                return self._add_clause(lits)
            # a disjunction with conjunctive members: distribute into CNF (bounded)
            cnf = _cnf(e, truth)
            if cnf is not None:
                for cl in cnf:
                    if not self._add_clause(cl):
                        return False
            return True
        if isinstance(e, ast.Constant):
            return bool(e.value) == truth
        k, pol = literal(e, truth)
        if k in self.d and self.d[k] != pol:
            return False
        self.d[k] = pol
        if isinstance(e, ast.Name) and e.id in self.defs:
            dexpr = self.defs.pop(e.id)          # expand the flag's definition once
            ok = self._add(dexpr, pol)
            self.defs[e.id] = dexpr
            if not ok:
                return False
        return self._propagate()

    def _add_clause(self, lits) -> bool:
        live = [(a, t) for (a, t) in lits if not (a in self.d and self.d[a] != t)]
        if any(a in self.d and self.d[a] == t for (a, t) in lits):
            return True
        if not live:
            return False
        if len(live) == 1:
            if live[0][0] in self.d and self.d[live[0][0]] != live[0][1]:
                return False
            self.d[live[0][0]] = live[0][1]
            return self._propagate()
        self.clauses.append(frozenset(live))
        return True

    def _propagate(self) -> bool:
        changed = True
        while changed:
            changed = False
            for c in list(self.clauses):
                if any(a in self.d and self.d[a] == t for (a, t) in c):
                    self.clauses.remove(c)
                    continue
                live = [(a, t) for (a, t) in c if a not in self.d]
                if not live:
                    return False
                if len(live) == 1:
                    self.d[live[0][0]] = live[0][1]
                    self.clauses.remove(c)
                    changed = True
        return True

    def _kill(self, root: str):
        import re
        pat = re.compile(r'(?<![\w.])' + re.escape(root) + r'(?![\w])')
        for k in [k for k in self.d if pat.search(k)]:
            del self.d[k]
        self.clauses = [c for c in self.clauses if not any(pat.search(a) for (a, _t) in c)]
        self.cons = [c for c in self.cons if not pat.search(c[0])]
        for k in [k for k, v in self.defs.items() if k == root or pat.search(unparse(v))]:
            del self.defs[k]

    def after_stmt(self, st) -> 'Facts':
        targets = []
        value = None
        if isinstance(st, ast.Assign):
            targets, value = st.targets, st.value
        elif isinstance(st, ast.AnnAssign) and st.value is not None:
            targets, value = [st.target], st.value
        elif isinstance(st, ast.AugAssign):
            targets = [st.target]
        elif isinstance(st, (ast.With,)):
            targets = [i.optional_vars for i in st.items if i.optional_vars is not None]
        if not targets:
            return self
        f = self.copy()
        for t in targets:
            if isinstance(t, (ast.Attribute, ast.Subscript)):
                f._kill(unparse(t))
                continue
            for n in ast.walk(t):
                if isinstance(n, ast.Name):
                    f._kill(n.id)
        if value is not None and len(targets) == 1 and isinstance(targets[0], ast.Name):
            name = targets[0].id
            if isinstance(value, ast.Constant):
                if value.value is None:
                    f.d[f"{name} is None"] = True
                    f.d[name] = False
                elif isinstance(value.value, bool):
                    f.d[name] = value.value
            elif isinstance(value, (ast.List, ast.Dict, ast.Set, ast.Tuple)) and \
                    not getattr(value, 'elts', getattr(value, 'keys', [])):
                f.d[name] = False        # empty container is falsy
            elif isinstance(value, (ast.BoolOp, ast.UnaryOp, ast.Compare, ast.Name, ast.Call, ast.Attribute)):
                v = self._eval(value) if isinstance(value, (ast.BoolOp, ast.UnaryOp, ast.Compare, ast.Name)) else None
                if v is not None:
                    f.d[name] = v
                if name not in {n.id for n in ast.walk(value) if isinstance(n, ast.Name)}:
                    f.defs[name] = value
        return f

    def after_iter(self, forst, entered: bool) -> Optional['Facts']:
        f = self.copy()
        for n in ast.walk(forst.target):
            if isinstance(n, ast.Name):
                f._kill(n.id)
        return f


def iteration_paths(cfg: CFG, loop_stmt, loop_bound=1, max_paths=200000, facts=None) -> List[Path]:
    """Paths of ONE iteration of `loop_stmt` (For): from the head's 'loop' edge until
    control returns to the head (back/continue), leaves the loop (break/done), or
    leaves the function."""
    head = cfg.node_for(loop_stmt)

    def stop(src, label, dst):
        return dst == head and label in ('back', 'continue')
    ps = cfg.paths(head, stop=stop, start_label='loop' if cfg.nodes[head].kind == 'iter' else 'T',
                   loop_bound=loop_bound, max_paths=max_paths, facts=facts)
    return ps

"""E7 - value provenance of a string parameter (here: the cleavage `exception`).

classify() maps an argument expression at a call site to one of
  clean     <obj>.exception read (normalised by the CleavageParams constructor)
  param     pass-through of a parameter of the enclosing function
  literal   string / None constants (each must be a table member)
  tainted   the raw CLI value (args.cleavage_exception), possibly through a local
  unknown   anything else (fail closed)
"""
from __future__ import annotations
import ast
from typing import List, Tuple, Optional
from .model import FuncInfo, unparse, walk_no_nested

SOURCE_ATTR = 'cleavage_exception'


def classify(fi: FuncInfo, expr, depth=3) -> Tuple[str, object]:
    if isinstance(expr, ast.Constant):
        if expr.value is None or isinstance(expr.value, str):
            return 'literal', [expr.value]
        return 'unknown', unparse(expr)
    if isinstance(expr, ast.IfExp):
        a, b = classify(fi, expr.body, depth), classify(fi, expr.orelse, depth)
        if a[0] == b[0] == 'literal':
            return 'literal', a[1] + b[1]
        for k in ('tainted', 'unknown'):
            for x in (a, b):
                if x[0] == k:
                    return x
        return a if a[0] == b[0] else ('unknown', unparse(expr))
    if isinstance(expr, ast.Attribute):
        if expr.attr == SOURCE_ATTR:
            return 'tainted', unparse(expr)
        if expr.attr == 'exception':
            return 'clean', unparse(expr)
        return 'unknown', unparse(expr)
    if isinstance(expr, ast.Name):
        if fi is not None and expr.id in fi.params():
            # a parameter that is re-bound locally is treated through its bindings too
            binds = _bindings(fi, expr.id)
            if not binds:
                return 'param', expr.id
            kinds = [classify(fi, b, depth - 1) for b in binds if not _is_self_resolve(b, expr.id)]
            bad = [k for k in kinds if k[0] in ('tainted', 'unknown')]
            return bad[0] if bad else ('param', expr.id)
        if fi is not None and depth > 0:
            binds = _bindings(fi, expr.id)
            if binds:
                kinds = [classify(fi, b, depth - 1) for b in binds]
                for k in ('tainted', 'unknown'):
                    for x in kinds:
                        if x[0] == k:
                            return x
                if all(x[0] == 'literal' for x in kinds):
                    return 'literal', sum((x[1] for x in kinds), [])
                if all(x[0] == kinds[0][0] for x in kinds):
                    return kinds[0]
                return 'unknown', unparse(expr)
        return 'unknown', unparse(expr)
    return 'unknown', unparse(expr)


def _is_self_resolve(value, name) -> bool:
    """`exception = EXPASY_RULES.get(exception, exception)` - the name->regex resolution."""
    return isinstance(value, ast.Call) and unparse(value) == f"EXPASY_RULES.get({name}, {name})"


def _bindings(fi: FuncInfo, name: str) -> List[ast.AST]:
    out = []
    for n in walk_no_nested(fi.node):
        if isinstance(n, ast.Assign):
            for t in n.targets:
                if isinstance(t, ast.Name) and t.id == name:
                    out.append(n.value)
        elif isinstance(n, ast.AnnAssign) and isinstance(n.target, ast.Name) and n.target.id == name and n.value is not None:
            out.append(n.value)
    return out

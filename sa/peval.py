"""E9 - partial evaluation of one function over a constant domain (no execution of repository code).

Writer/reader agreement rules need to know "what does this function produce when the variant type is 'Fusion'" or "what
type and end does the reader derive from '<DEL>'", whether the function is written as an if/elif chain, a lookup table, a
helper that was inlined by the normal form, or conditional expressions.  This evaluator walks the AST with an environment
of known constants; everything else is an `Unk` carrying the source text of the expression with the known parts
substituted.  Undecidable branches are both explored (or decided by an explicit assumption supplied by the rule), so the
result is the finite set of outcomes.  Only a fixed white-list of pure str / container operations is ever applied, to
constants that appear in the source.
"""
from __future__ import annotations
import ast
from typing import Any, Callable, Dict, List, Optional, Tuple

MAX_OUTCOMES = 256


class Unk:
    """an unknown value: `text` is the defining expression with known sub-values substituted"""
    __slots__ = ('text',)

    def __init__(self, text: str):
        self.text = text

    def __repr__(self):
        return f"<{self.text}>"

    def __eq__(self, o):
        return isinstance(o, Unk) and o.text == self.text

    def __hash__(self):
        return hash(('Unk', self.text))


class TruthyUnk(Unk):
    """an unknown value whose truthiness is known (`x or '.'` is truthy whatever x is)"""
    __slots__ = ('truthy',)

    def __init__(self, text, truthy: bool):
        Unk.__init__(self, text)
        self.truthy = truthy


class Rec(Unk):
    """an object built by a constructor call whose keyword arguments are modelled as its fields (rule-supplied table:
    PEval(records={'FeatureLocation', ...})): attribute reads return the argument value"""
    __slots__ = ('fields',)

    def __init__(self, text, fields):
        Unk.__init__(self, text)
        self.fields = fields


class Hole:
    """a hole of a string template: the (unknown) value formatted into the string, with its format spec"""
    __slots__ = ('value', 'spec')

    def __init__(self, value, spec: str = ''):
        self.value, self.spec = value, spec

    def __repr__(self):
        return '{' + show(self.value) + (':' + self.spec if self.spec else '') + '}'


class Tmpl(Unk):
    """a string whose shape is known: constant text interleaved with holes (f-strings, `+` of strings, sep.join of a list of
    known length).  It is an Unk (the text is the f-string spelling) so rules that only compare texts keep working."""
    __slots__ = ('parts',)

    def __init__(self, parts):
        merged: List[Any] = []
        for x in parts:
            if isinstance(x, str):
                if not x:
                    continue
                if merged and isinstance(merged[-1], str):
                    merged[-1] += x
                    continue
            merged.append(x)
        self.parts = merged
        Unk.__init__(self, "f'" + ''.join(x if isinstance(x, str) else repr(x) for x in merged) + "'")

    @staticmethod
    def of(v) -> Optional['Tmpl']:
        """the template of a string-like value (None when v cannot be a piece of a string)"""
        if isinstance(v, Tmpl):
            return v
        if isinstance(v, str):
            return Tmpl([v])
        if isinstance(v, Unk):
            return Tmpl([Hole(v)])
        return None

    def split(self, sep: str) -> List['Tmpl']:
        """split on a separator that occurs in the constant text only"""
        out, cur = [], []
        for x in self.parts:
            if isinstance(x, str):
                bits = x.split(sep)
                cur.append(bits[0])
                for b in bits[1:]:
                    out.append(Tmpl(cur))
                    cur = [b]
            else:
                cur.append(x)
        out.append(Tmpl(cur))
        return out

    def single(self):
        """the value of a template that is exactly one hole without format spec (else None)"""
        if len(self.parts) == 1 and isinstance(self.parts[0], Hole) and not self.parts[0].spec:
            return self.parts[0].value
        return None


class SymList(Unk):
    """a list of unknown length whose generic element is known: a comprehension over an unknown iterable (`elt` is the element
    value with the target bound to `<item of ...>`), or sep.join over such a list (then `sep` is set and the value is a string)"""
    __slots__ = ('elt', 'src', 'sep')

    def __init__(self, text, elt, src, sep=None):
        Unk.__init__(self, text)
        self.elt, self.src, self.sep = elt, src, sep


def known(v) -> bool:
    if isinstance(v, Unk):
        return False
    if isinstance(v, (list, tuple, set, frozenset)):
        return all(known(x) for x in v)
    if isinstance(v, dict):
        return all(known(k) and known(x) for k, x in v.items())
    return True


def show(v) -> str:
    """source-like text of a value"""
    if isinstance(v, Unk):
        return v.text
    if isinstance(v, tuple):
        return '(' + ', '.join(show(x) for x in v) + (',' if len(v) == 1 else '') + ')'
    if isinstance(v, list):
        return '[' + ', '.join(show(x) for x in v) + ']'
    if isinstance(v, dict):
        return '{' + ', '.join(f"{show(k)}: {show(x)}" for k, x in v.items()) + '}'
    if isinstance(v, (set, frozenset)):
        return '{' + ', '.join(sorted(show(x) for x in v)) + '}' if v else 'set()'
    return repr(v)


_STR_METHODS = {'upper', 'lower', 'strip', 'lstrip', 'rstrip', 'startswith', 'endswith', 'split', 'rsplit', 'replace', 'join', 'title',
                'capitalize', 'find', 'index', 'count', 'isdigit', 'format', 'zfill', 'partition', 'removeprefix', 'removesuffix'}
_CONT_METHODS = {'get', 'keys', 'values', 'items', 'index', 'count', 'copy'}
_BUILTINS = {'str': str, 'int': int, 'len': len, 'bool': bool, 'list': list, 'tuple': tuple, 'set': set, 'sorted': sorted, 'min': min, 'max': max,
             'frozenset': frozenset, 'dict': dict, 'abs': abs, 'sum': sum, 'any': any, 'all': all, 'reversed': lambda x: list(reversed(x)),
             'enumerate': lambda x, start=0: list(enumerate(x, start)), 'zip': lambda *a: list(zip(*a)), 'range': lambda *a: list(range(*a))}


class Outcome:
    def __init__(self, kind: str, value, env: Dict[str, Any], effects: List[Tuple], calls: List[Dict[str, Any]], assumed: Dict[str, bool]):
        self.kind, self.value, self.env, self.effects, self.calls, self.assumed = kind, value, env, effects, calls, assumed

    def __repr__(self):
        return f"Outcome({self.kind}, {show(self.value) if self.value is not None else None})"


class _State:
    def __init__(self, env, effects=None, calls=None, assumed=None):
        self.env = env
        self.effects = effects or []
        self.calls = calls or []
        self.assumed = assumed or {}

    def fork(self):
        return _State(dict(self.env), list(self.effects), list(self.calls), dict(self.assumed))


class PEval:
    def __init__(self, resolve_const: Callable[[ast.AST], Any] = None, assume: Dict[str, bool] = None, record: Tuple[str, ...] = (), unroll: bool = False, records=(),
                 split_unknown=True):
        """resolve_const(expr) -> python value or raises KeyError: module-level / imported constants
        assume: canonical test text (ast.unparse of the test with env substituted) -> forced truth
        record: names of calls whose evaluated arguments are recorded in Outcome.calls"""
        self.resolve_const = resolve_const
        self.assume = assume or {}
        self.record = set(record)
        self.split_unknown = split_unknown
        self.unroll = unroll
        self.records = set(records)
        self.n_out = 0

    # ------------------------------------------------------------------ expressions
    def ev(self, e, st: _State):
        env = st.env
        if e is None:
            return None
        if isinstance(e, ast.Constant):
            return e.value
        if isinstance(e, (ast.Name, ast.Attribute)):
            t = ast.unparse(e)
            if t in env:
                return env[t]
            if isinstance(e, ast.Attribute):
                base = self.ev(e.value, st)
                if isinstance(base, Rec) and e.attr in base.fields:
                    return base.fields[e.attr]
                if not isinstance(base, Unk) and known(base):
                    return Unk(f"{show(base)}.{e.attr}")
                if self.resolve_const is not None:
                    try:
                        return self.resolve_const(e)
                    except KeyError:
                        pass
                return Unk(f"{show(base)}.{e.attr}")
            if self.resolve_const is not None:
                try:
                    return self.resolve_const(e)
                except KeyError:
                    pass
            return Unk(t)
        if isinstance(e, ast.JoinedStr):
            parts, all_known = [], True
            for v in e.values:
                if isinstance(v, ast.Constant):
                    parts.append(str(v.value))
                else:
                    x = self.ev(v.value, st)
                    spec_c = None
                    if v.format_spec is not None and all(isinstance(p_, ast.Constant) for p_ in v.format_spec.values):
                        spec_c = ''.join(str(p_.value) for p_ in v.format_spec.values)
                    if known(x) and v.format_spec is None and v.conversion in (-1, 115):
                        parts.append(str(x))
                        continue
                    if known(x) and spec_c is not None and v.conversion == -1 and isinstance(x, (int, float, str)):
                        try:
                            parts.append(format(x, spec_c))
                            continue
                        except Exception:
                            pass
                    all_known = False
                    if isinstance(x, Tmpl) and v.format_spec is None and v.conversion in (-1, 115):
                        parts.extend(x.parts)
                        continue
                    spec = ''.join(str(p.value) for p in v.format_spec.values if isinstance(p, ast.Constant)) if v.format_spec is not None else ''
                    parts.append(Hole(x, spec))
            return ''.join(parts) if all_known else Tmpl(parts)
        if isinstance(e, (ast.Tuple, ast.List)):
            xs = [self.ev(x, st) for x in e.elts]
            return tuple(xs) if isinstance(e, ast.Tuple) else xs
        if isinstance(e, ast.Set):
            xs = [self.ev(x, st) for x in e.elts]
            return set(xs) if all(known(x) for x in xs) else Unk('{' + ', '.join(show(x) for x in xs) + '}')
        if isinstance(e, ast.Dict):
            if any(k is None for k in e.keys):
                return Unk(ast.unparse(e))
            ks, vs = [self.ev(k, st) for k in e.keys], [self.ev(v, st) for v in e.values]
            if all(known(k) for k in ks):
                try:
                    return dict(zip(ks, vs))
                except TypeError:
                    pass
            return Unk(ast.unparse(e))
        if isinstance(e, ast.UnaryOp):
            v = self.ev(e.operand, st)
            if isinstance(e.op, ast.Not):
                b = self.truth(v)
                return (not b) if b is not None else Unk(f"not {show(v)}")
            if isinstance(e.op, ast.USub):
                return -v if known(v) and isinstance(v, (int, float)) else Unk(f"-({show(v)})")
            return Unk(ast.unparse(e))
        if isinstance(e, ast.BoolOp):
            is_and = isinstance(e.op, ast.And)
            rest, last_known = [], None
            for x in e.values:
                v = self.ev(x, st)
                b = self.truth(v)
                if b is None:
                    rest.append(v)
                    continue
                if is_and and not b:
                    # falsy whatever the unknown operands are (the value is one of the falsy operands)
                    return v if not rest else TruthyUnk(' and '.join([self.paren(r) for r in rest] + [show(v)]), False)
                if not is_and and b:
                    return v if not rest else TruthyUnk(' or '.join([self.paren(r) for r in rest] + [show(v)]), True)
                last_known = v
            if not rest:
                return last_known
            if len(rest) == 1:
                return rest[0]
            return Unk((' and ' if is_and else ' or ').join(self.paren(r) for r in rest))
        if isinstance(e, ast.IfExp):
            t = self.ev(e.test, st)
            b = self.decide(t, st)
            if b is None:
                a1, a2 = self.ev(e.body, st), self.ev(e.orelse, st)
                return a1 if (known(a1) and known(a2) and a1 == a2) else Unk(f"{show(a1)} if {show(t)} else {show(a2)}")
            return self.ev(e.body if b else e.orelse, st)
        if isinstance(e, ast.Compare):
            left = self.ev(e.left, st)
            res = True
            texts = []
            for op, right_e in zip(e.ops, e.comparators):
                right = self.ev(right_e, st)
                r = self.cmp(op, left, right)
                texts.append((left, op, right))
                if r is False:
                    return False
                if r is None:
                    res = None
                left = right
            if res is None:
                return Unk(' and '.join(f"{show(a)} {self.opname(o)} {show(b)}" for a, o, b in texts))
            return True
        if isinstance(e, ast.BinOp):
            a, b = self.ev(e.left, st), self.ev(e.right, st)
            if known(a) and known(b):
                try:
                    if isinstance(e.op, ast.Add):
                        return a + b
                    if isinstance(e.op, ast.Sub):
                        return a - b
                    if isinstance(e.op, ast.Mult):
                        return a * b
                    if isinstance(e.op, ast.Mod) and not isinstance(a, str):
                        return a % b
                    if isinstance(e.op, ast.FloorDiv):
                        return a // b
                except Exception:
                    pass
            if isinstance(e.op, ast.Add) and (isinstance(a, Tmpl) or isinstance(b, Tmpl)) and isinstance(a, (Tmpl, str)) and isinstance(b, (Tmpl, str)):
                return Tmpl(Tmpl.of(a).parts + Tmpl.of(b).parts)
            sym = {ast.Add: '+', ast.Sub: '-', ast.Mult: '*', ast.Mod: '%', ast.FloorDiv: '//', ast.Div: '/'}.get(type(e.op), '?')
            return Unk(f"{self.paren(a)} {sym} {self.paren(b)}")
        if isinstance(e, ast.Subscript):
            t_ = ast.unparse(e)
            if t_ in env:
                return env[t_]
            base = self.ev(e.value, st)
            if isinstance(e.slice, ast.Slice):
                lo, hi, stp = (self.ev(x, st) for x in (e.slice.lower, e.slice.upper, e.slice.step))
                if not isinstance(base, (Unk, dict, set)) and all(x is None or (known(x) and isinstance(x, int)) for x in (lo, hi, stp)):
                    try:
                        return base[lo:hi:stp]
                    except Exception:
                        pass
                sl = f"{'' if lo is None else show(lo)}:{'' if hi is None else show(hi)}" + (f":{show(stp)}" if stp is not None else '')
                return Unk(f"{show(base)}[{sl}]")
            idx = self.ev(e.slice, st)
            if not isinstance(base, Unk) and known(idx):
                try:
                    return base[idx]
                except Exception:
                    return Unk(f"{show(base)}[{show(idx)}]")
            return Unk(f"{show(base)}[{show(idx)}]")
        if isinstance(e, ast.Call):
            return self.call(e, st)
        if isinstance(e, (ast.ListComp, ast.GeneratorExp, ast.SetComp)) and len(e.generators) == 1 and not e.generators[0].ifs:
            it = self.ev(e.generators[0].iter, st)
            if not isinstance(it, Unk) and (known(it) or isinstance(it, (list, tuple))) and isinstance(e.generators[0].target, (ast.Name, ast.Tuple)):
                out = []
                for x in it:
                    s2 = st.fork()
                    self.assign(e.generators[0].target, x, s2)
                    out.append(self.ev(e.elt, s2))
                return out if not isinstance(e, ast.SetComp) else (set(out) if all(known(x) for x in out) else Unk(ast.unparse(e)))
            if isinstance(it, Unk) and not isinstance(e, ast.SetComp):
                s2 = st.fork()
                item = it.elt if isinstance(it, SymList) and it.sep is None else Unk(f"<item of {show(it)}>")
                self.assign(e.generators[0].target, item, s2)
                return SymList(self.subst_text(e, st), self.ev(e.elt, s2), it)
        if isinstance(e, ast.DictComp) and len(e.generators) == 1 and not e.generators[0].ifs:
            it = self.ev(e.generators[0].iter, st)
            if not isinstance(it, Unk) and known(it) and isinstance(it, (list, tuple)):
                out = {}
                for x in it:
                    s2 = st.fork()
                    self.assign(e.generators[0].target, x, s2)
                    k = self.ev(e.key, s2)
                    if not known(k):
                        return Unk(self.subst_text(e, st))
                    out[k] = self.ev(e.value, s2)
                return out
        return Unk(self.subst_text(e, st))

    def subst_text(self, e, st) -> str:
        class R(ast.NodeTransformer):
            def visit_Name(s, n):
                if isinstance(n.ctx, ast.Load) and n.id in st.env:
                    v = st.env[n.id]
                    try:
                        return ast.parse(show(v), mode='eval').body
                    except SyntaxError:
                        return n
                return n
        import copy
        return ast.unparse(R().visit(copy.deepcopy(e)))

    @staticmethod
    def paren(v):
        t = show(v)
        return f"({t})" if isinstance(v, Unk) and any(c in t for c in ' +-') and not (t.startswith('(') and t.endswith(')')) and not t.endswith(')') else t

    @staticmethod
    def opname(op):
        return {ast.Eq: '==', ast.NotEq: '!=', ast.Lt: '<', ast.LtE: '<=', ast.Gt: '>', ast.GtE: '>=', ast.In: 'in', ast.NotIn: 'not in',
                ast.Is: 'is', ast.IsNot: 'is not'}.get(type(op), '?')

    def cmp(self, op, a, b) -> Optional[bool]:
        if isinstance(op, (ast.In, ast.NotIn)):
            if isinstance(b, Unk):
                return None
            if isinstance(a, Unk):
                if isinstance(b, (list, tuple, set, frozenset, dict, str)) and len(b) == 0:
                    return isinstance(op, ast.NotIn)
                return None
            try:
                r = a in b
            except TypeError:
                return None
            if not r and isinstance(b, (list, tuple, set, frozenset)) and not all(known(x) for x in b):
                return None
            return r if isinstance(op, ast.In) else not r
        if isinstance(op, (ast.Is, ast.IsNot, ast.Eq, ast.NotEq)) and ((a is None and isinstance(b, TruthyUnk) and b.truthy) or
                                                                        (b is None and isinstance(a, TruthyUnk) and a.truthy)):
            return isinstance(op, (ast.IsNot, ast.NotEq))          # a truthy value is not None
        if isinstance(a, Unk) or isinstance(b, Unk) or not known(a) or not known(b):
            if isinstance(op, (ast.Is, ast.IsNot)) and (a is None or b is None) and not (isinstance(a, Unk) or isinstance(b, Unk)):
                r = (a is None) == (b is None)
                return r if isinstance(op, ast.Is) else not r
            if isinstance(op, (ast.Eq, ast.Is)) and isinstance(a, Unk) and isinstance(b, Unk) and a == b:
                return None
            return None
        try:
            if isinstance(op, ast.Eq):
                return a == b
            if isinstance(op, ast.NotEq):
                return a != b
            if isinstance(op, ast.Is):
                return a is b or (a == b and isinstance(a, (bool, type(None))))
            if isinstance(op, ast.IsNot):
                return not (a is b or (a == b and isinstance(a, (bool, type(None)))))
            if isinstance(op, ast.Lt):
                return a < b
            if isinstance(op, ast.LtE):
                return a <= b
            if isinstance(op, ast.Gt):
                return a > b
            if isinstance(op, ast.GtE):
                return a >= b
        except TypeError:
            return None
        return None

    def truth(self, v) -> Optional[bool]:
        if isinstance(v, TruthyUnk):
            return v.truthy
        if isinstance(v, Unk):
            return None
        if isinstance(v, (list, tuple, dict, set, frozenset, str)):
            return len(v) > 0
        return bool(v)

    def decide(self, v, st: _State) -> Optional[bool]:
        b = self.truth(v)
        if b is not None:
            return b
        t = show(v)
        if t in self.assume:
            st.assumed[t] = self.assume[t]
            return self.assume[t]
        if t.startswith('not ') and t[4:] in self.assume:
            st.assumed[t[4:]] = self.assume[t[4:]]
            return not self.assume[t[4:]]
        return None

    def call(self, c: ast.Call, st: _State):
        args = [self.ev(a, st) for a in c.args if not isinstance(a, ast.Starred)]
        starred = any(isinstance(a, ast.Starred) for a in c.args)
        kwargs = {k.arg: self.ev(k.value, st) for k in c.keywords if k.arg}
        f = c.func
        nm = f.attr if isinstance(f, ast.Attribute) else (f.id if isinstance(f, ast.Name) else None)
        if nm in self.record:
            st.calls.append({'name': nm, 'args': args, 'kwargs': kwargs, 'node': c})
        if isinstance(f, ast.Attribute) and not starred:
            recv = self.ev(f.value, st)
            if isinstance(recv, str) and nm in _STR_METHODS and all(known(a) for a in args) and not kwargs:
                try:
                    return getattr(recv, nm)(*args)
                except Exception:
                    pass
            if isinstance(recv, Tmpl) and nm in ('rstrip', 'lstrip', 'strip') and len(args) == 1 and isinstance(args[0], str) and not kwargs and recv.parts:
                # constant edge text is stripped; a hole at the edge is left as it is (shape of the string, not its exact value)
                ps = list(recv.parts)
                if nm in ('rstrip', 'strip') and isinstance(ps[-1], str):
                    ps[-1] = ps[-1].rstrip(args[0])
                if nm in ('lstrip', 'strip') and isinstance(ps[0], str):
                    ps[0] = ps[0].lstrip(args[0])
                return Tmpl(ps)
            if isinstance(recv, str) and nm == 'join' and len(args) == 1 and not kwargs:
                a0 = args[0]
                if isinstance(a0, (list, tuple)) and all(isinstance(x, (str, Unk)) for x in a0) and not isinstance(a0, Unk):
                    parts: List[Any] = []
                    for i, x in enumerate(a0):
                        if i:
                            parts.append(recv)
                        parts.extend(Tmpl.of(x).parts)
                    return Tmpl(parts) if parts else ''
                if isinstance(a0, SymList) and a0.sep is None:
                    return SymList(f"{recv!r}.join({a0.text})", a0.elt, a0.src, sep=recv)
            if isinstance(recv, (dict, list, tuple)) and nm in _CONT_METHODS and all(known(a) for a in args) and not kwargs:
                try:
                    r = getattr(recv, nm)(*args)
                    return list(r) if nm in ('keys', 'values', 'items') else r
                except Exception:
                    pass
            return Unk(f"{show(recv)}.{nm}({', '.join([show(a) for a in args] + [f'{k}={show(v)}' for k, v in kwargs.items()])})")
        if isinstance(f, ast.Name) and nm in _BUILTINS and nm not in st.env and all(known(a) for a in args) and not kwargs and not starred:
            try:
                r = _BUILTINS[nm](*args)
                return r
            except Exception:
                pass
        if isinstance(f, ast.Name) and nm == 'getattr' and len(c.args) == 2 and not kwargs and isinstance(args[1], str) and args[1].isidentifier():
            return self.ev(ast.Attribute(value=c.args[0], attr=args[1], ctx=ast.Load()), st)
        if isinstance(f, ast.Name) and nm == 'isinstance' and len(args) == 2 and not isinstance(args[0], Unk) and known(args[0]):
            tn = ast.unparse(c.args[1])
            m = {'str': str, 'int': int, 'list': list, 'tuple': tuple, 'dict': dict, 'set': set, 'bool': bool}
            if tn in m:
                return isinstance(args[0], m[tn])
        if isinstance(f, ast.Attribute):
            fn_t = f"{show(self.ev(f.value, st))}.{nm}"
        elif isinstance(f, ast.Name) and f.id not in st.env:
            fn_t = f.id
        else:
            fv = self.ev(f, st)          # a callable held in a local / chosen by a conditional expression
            fn_t = show(fv) if isinstance(fv, Unk) else ast.unparse(f)
        if nm in self.records and not args and not starred and kwargs:
            return Rec(f"{fn_t}({', '.join(f'{k}={show(v)}' for k, v in kwargs.items())})", dict(kwargs))
        return Unk(f"{fn_t}({', '.join([show(a) for a in args] + (['*...'] if starred else []) + [f'{k}={show(v)}' for k, v in kwargs.items()])})")

    # ------------------------------------------------------------------ statements
    def assign(self, tgt, val, st: _State):
        if isinstance(tgt, ast.Name):
            st.env[tgt.id] = val
        elif isinstance(tgt, (ast.Tuple, ast.List)):
            n = len(tgt.elts)
            if isinstance(val, (tuple, list)) and len(val) == n:
                for t, v in zip(tgt.elts, val):
                    self.assign(t, v, st)
            else:
                for i, t in enumerate(tgt.elts):
                    self.assign(t, Unk(f"{show(val)}[{i}]"), st)
        elif isinstance(tgt, ast.Attribute):
            st.env[ast.unparse(tgt)] = val
            st.effects.append(('attr', ast.unparse(tgt), val))
        elif isinstance(tgt, ast.Subscript):
            base = self.ev(tgt.value, st)
            idx = self.ev(tgt.slice, st) if not isinstance(tgt.slice, ast.Slice) else Unk(ast.unparse(tgt.slice))
            if isinstance(base, dict) and known(idx) and isinstance(tgt.value, ast.Name):
                try:
                    nb = dict(base)
                    nb[idx] = val
                    st.env[tgt.value.id] = nb
                except TypeError:
                    pass
            st.effects.append(('item', ast.unparse(tgt.value), idx, val))

    def block(self, stmts, st: _State) -> List[Tuple[str, Any, _State]]:
        """-> list of (kind, value, state); kind in fall / return / raise / continue / break"""
        states = [st]
        done: List[Tuple[str, Any, _State]] = []
        for s in stmts:
            nxt = []
            for cur in states:
                for kind, val, s2 in self.stmt(s, cur):
                    if kind == 'fall':
                        nxt.append(s2)
                    else:
                        done.append((kind, val, s2))
            states = nxt
            if len(states) + len(done) > MAX_OUTCOMES:
                raise OverflowError('too many outcomes')
            if not states:
                break
        return done + [('fall', None, s_) for s_ in states]

    def stmt(self, s, st: _State):
        if isinstance(s, ast.Assign):
            v = self.ev(s.value, st)
            for t in s.targets:
                self.assign(t, v, st)
            return [('fall', None, st)]
        if isinstance(s, ast.AnnAssign):
            if s.value is not None:
                self.assign(s.target, self.ev(s.value, st), st)
            return [('fall', None, st)]
        if isinstance(s, ast.AugAssign):
            cur = self.ev(s.target, st) if not isinstance(s.target, ast.Subscript) else Unk(ast.unparse(s.target))
            v = self.ev(s.value, st)
            st.effects.append(('aug', ast.unparse(s.target), type(s.op).__name__, v))
            new = Unk(f"{show(cur)} {type(s.op).__name__} {show(v)}")
            if isinstance(s.op, ast.Add) and (isinstance(cur, Tmpl) or isinstance(v, Tmpl)) and isinstance(cur, (Tmpl, str)) and isinstance(v, (Tmpl, str)):
                new = Tmpl(Tmpl.of(cur).parts + Tmpl.of(v).parts)
            if isinstance(s.op, ast.Add) and isinstance(cur, list) and isinstance(v, (list, tuple)) and not isinstance(cur, Unk) and not isinstance(v, Unk):
                new = cur + list(v)
            elif known(cur) and known(v) and isinstance(s.op, ast.Add):
                try:
                    new = cur + v
                except Exception:
                    pass
            if isinstance(s.target, (ast.Name, ast.Attribute)):
                st.env[ast.unparse(s.target)] = new
            return [('fall', None, st)]
        if isinstance(s, ast.Expr):
            v = self.ev(s.value, st)
            if isinstance(s.value, ast.Call) and isinstance(s.value.func, ast.Attribute) and s.value.func.attr in ('append', 'add', 'extend', 'update'):
                args = [self.ev(a, st) for a in s.value.args]
                st.effects.append(('call', ast.unparse(s.value.func.value), s.value.func.attr, args))
                base = self.ev(s.value.func.value, st)
                if isinstance(base, dict) and isinstance(s.value.func.value, ast.Name) and s.value.func.attr == 'update':
                    if len(args) == 1 and isinstance(args[0], dict) and not s.value.keywords:
                        st.env[s.value.func.value.id] = {**base, **args[0]}
                    else:
                        st.env[s.value.func.value.id] = Unk(f"<{s.value.func.value.id} after update>")
                if isinstance(base, list) and isinstance(s.value.func.value, ast.Name) and len(args) == 1:
                    st.env[s.value.func.value.id] = (base + [args[0]]) if s.value.func.attr == 'append' else \
                        ((base + list(args[0])) if s.value.func.attr == 'extend' and isinstance(args[0], (list, tuple)) else
                         ((base + [SymList('*' + show(args[0]), getattr(args[0], 'elt', None), getattr(args[0], 'src', None), sep='<splice>')])
                          if s.value.func.attr == 'extend' and isinstance(args[0], Unk) else Unk(show(v))))
            if isinstance(s.value, (ast.Yield, ast.YieldFrom)):
                st.effects.append(('yield', self.ev(s.value.value, st) if s.value.value is not None else None))
            return [('fall', None, st)]
        if isinstance(s, ast.Return):
            return [('return', self.ev(s.value, st) if s.value is not None else None, st)]
        if isinstance(s, ast.Raise):
            return [('raise', self.ev(s.exc, st) if s.exc is not None else None, st)]
        if isinstance(s, ast.Continue):
            return [('continue', None, st)]
        if isinstance(s, ast.Break):
            return [('break', None, st)]
        if isinstance(s, ast.Pass):
            return [('fall', None, st)]
        if isinstance(s, ast.If):
            t = self.ev(s.test, st)
            b = self.decide(t, st)
            if b is not None:
                return self.block(s.body if b else s.orelse, st)
            if not self.split_unknown:
                raise ValueError(f"undecided test {show(t)}")
            s1, s2 = st.fork(), st.fork()
            s1.assumed[show(t)] = True
            s2.assumed[show(t)] = False
            return self.block(s.body, s1) + self.block(s.orelse, s2)
        if isinstance(s, (ast.For, ast.While)):
            # one symbolic iteration: the loop targets are unknown elements of the iterable; loop-carried values keep their
            # pre-loop value on entry (callers look at the effects / stores of the iteration)
            outs = []
            if isinstance(s, ast.For) and self.unroll:
                it = self.ev(s.iter, st)
                if not isinstance(it, Unk) and isinstance(it, (list, tuple)) and known(it) and len(it) <= 32:
                    states, done = [st], []
                    for x in it:
                        nxt = []
                        for cur in states:
                            self.assign(s.target, x, cur)
                            for kind, val, s2 in self.block(s.body, cur):
                                if kind in ('fall', 'continue'):
                                    nxt.append(s2)
                                elif kind == 'break':
                                    done.append(('fall', None, s2))
                                else:
                                    done.append((kind, val, s2))
                        states = nxt
                        if len(states) + len(done) > MAX_OUTCOMES:
                            raise OverflowError('too many outcomes')
                    res = list(done)
                    for cur in states:
                        res += self.block(s.orelse, cur) if s.orelse else [('fall', None, cur)]
                    return res
            if isinstance(s, ast.For):
                it = self.ev(s.iter, st)
                s1 = st.fork()
                item = Unk(f"<item of {show(it)}>")
                if isinstance(it, SymList) and it.sep is None and it.elt is not None:
                    item = it.elt
                elif isinstance(s.iter, ast.Call) and isinstance(s.iter.func, ast.Name) and s.iter.func.id == 'map' and len(s.iter.args) == 2 and not s.iter.keywords:
                    # an element of map(f, xs) is f(<element of xs>)
                    item = Unk(f"{show(self.ev(s.iter.args[0], s1))}(<item of {show(self.ev(s.iter.args[1], s1))}>)")
                self.assign(s.target, item, s1)
            else:
                s1 = st.fork()
            for kind, val, s2 in self.block(s.body, s1):
                if kind in ('return', 'raise'):
                    outs.append((kind, val, s2))
                else:
                    outs.append(('fall', None, s2))
            s0 = st.fork()
            s0.assumed['<loop not entered>'] = True
            return outs + self.block(s.orelse, s0) if s.orelse else outs + [('fall', None, s0)]
        if isinstance(s, (ast.With, ast.AsyncWith)):
            for it in s.items:
                if it.optional_vars is not None:
                    self.assign(it.optional_vars, Unk(ast.unparse(it.context_expr)), st)
            return self.block(s.body, st)
        if isinstance(s, ast.Try):
            return self.block(s.body + s.orelse + s.finalbody, st)
        if isinstance(s, (ast.FunctionDef, ast.AsyncFunctionDef, ast.ClassDef, ast.Import, ast.ImportFrom, ast.Global, ast.Nonlocal, ast.Assert, ast.Delete)):
            return [('fall', None, st)]
        raise ValueError(f"statement kind {type(s).__name__} not handled")

    def run(self, fn_node, env: Dict[str, Any] = None) -> List[Outcome]:
        st = _State(dict(env or {}))
        res = self.block(fn_node.body if hasattr(fn_node, 'body') else fn_node, st)
        return [Outcome(k, v, s.env, s.effects, s.calls, s.assumed) for k, v, s in res]


def _const_value(v):
    """python value of a module-level constant: a literal, or a literal container whose leaves may be plain names (classes,
    functions: kept as Unk of their dotted name)"""
    try:
        return ast.literal_eval(v)
    except Exception:
        pass
    def rec(n):
        if isinstance(n, ast.Constant):
            return n.value
        if isinstance(n, (ast.Name, ast.Attribute)):
            return TruthyUnk(ast.unparse(n), True)          # a class / function object
        if isinstance(n, ast.Dict) and all(k is not None for k in n.keys):
            return {rec(k): rec(x) for k, x in zip(n.keys, n.values)}
        if isinstance(n, ast.Tuple):
            return tuple(rec(x) for x in n.elts)
        if isinstance(n, ast.List):
            return [rec(x) for x in n.elts]
        raise KeyError(ast.unparse(n))
    if isinstance(v, (ast.Dict, ast.Tuple, ast.List)):
        try:
            return rec(v)
        except TypeError:
            raise KeyError(ast.unparse(v))
    raise KeyError(ast.unparse(v))


def repo_consts(repo, module):
    """resolver for module-level constants: plain names of `module`, and `<imported module alias>.<NAME>`"""
    def res(e):
        if isinstance(e, ast.Name):
            v = module.constants.get(e.id)
            if v is None:
                raise KeyError(e.id)
            return _const_value(v)
        if isinstance(e, ast.Attribute) and isinstance(e.value, ast.Name):
            tgt = module.imports.get(e.value.id)
            if tgt is not None:
                t = tgt.lstrip('.')
                for m in repo.modules.values():
                    if t == m.modname or t == 'moPepGen.' + m.modname or t.endswith('.' + m.modname):
                        v = m.constants.get(e.attr)
                        if v is not None:
                            return _const_value(v)
        raise KeyError(ast.unparse(e))
    return res

"""F5 / C13: circRNA GVF line -> model -> line must be the identity."""
import sys
from pathlib import Path
repo = Path(sys.argv[1] if len(sys.argv) > 1 else '/repo')
sys.path.insert(0, str(repo))
from moPepGen.circ import io as cio
line = ('ENSG0001\t100\tCIRC-ENST0001-E2-E3\t.\t.\t.\t.\tOFFSET=0,150;LENGTH=50,60;INTRON=;'
        'TRANSCRIPT_ID=ENST0001;GENE_SYMBOL=ABC;GENOMIC_POSITION=chr1:1100-1310')
back = cio.line_to_circ_model(line).to_string()
print('in :', line); print('out:', back)
ok = back == line
print('OK' if ok else 'DEFECT: GENOMIC_POSITION lost in round trip')
sys.exit(0 if ok else 1)

"""F8 / C20 (KNOWN FINDING, not repaired): decoyFasta must keep the residues at the
enzyme's cleavage sites in place.  find_fixed_indices mixes *cut positions*
(slice boundaries returned by find_all_enzymatic_cleave_sites, = index AFTER the
cleaved residue) into a list of *residue indices*."""
import sys
from pathlib import Path
repo = Path(sys.argv[1] if len(sys.argv) > 1 else '/repo')
sys.path.insert(0, str(repo))
from Bio.Seq import Seq
from moPepGen.cli.decoy_fasta import DecoyFasta
d = DecoyFasta(None, None, 'reverse', 'trypsin', False, False, [], 10, 1, 'DECOY_', 'prefix', 'juxtaposed')
seq = Seq('ACDKEFGHIK')
fixed = d.find_fixed_indices(seq)
decoy = d.reverse_sequence(seq, fixed)
print('target:', seq, ' enzyme-derived fixed indices:', fixed, '-> residues', [seq[i] if i < len(seq) else None for i in fixed])
print('decoy :', decoy)
kpos = [i for i, c in enumerate(seq) if c in 'KR']
ok = all(decoy[i] == seq[i] for i in kpos)
print('OK' if ok else f'DEFECT: residues at cleavage sites (K at {kpos}) are not kept in place; position 4 (E) is fixed instead of 3 (K), 10 is out of range')
sys.exit(0 if ok else 1)

"""F1 / C06: the last partial batch of callVariant is never dispatched once a
transcript has been skipped (threads > 1).  Drives the *real* driver loop
`call_variant_peptide` with the per-transcript worker replaced by a recorder, so
the only thing exercised is batching/flush.  Prints the transcripts that were
handed to the worker for --threads 1 and --threads 2; they must be equal."""
import sys, argparse, tempfile, importlib
from pathlib import Path
from unittest.mock import patch
repo = Path(sys.argv[1] if len(sys.argv) > 1 else '/repo')
sys.path.insert(0, str(repo))
sys.path.insert(0, str(repo/'test'/'integration'))
cvp = importlib.import_module('moPepGen.cli.call_variant_peptide')
from test.integration.test_call_variant_peptides import create_base_args

def run(threads, skip):
    seen = []
    def fake_reducer(dispatch):
        seen.append(dispatch['tx_id'])
        return ({}, dispatch['tx_id'], (None, {}, {}), (None, {}, {}), (True, True, True))
    class FakePool:
        def __init__(self, ncpus): pass
        def map(self, f, xs): return [f(x) for x in xs]
    orig = cvp.VariantPeptideCaller.gather_data_for_call_variant
    def gather(self, tx_id, pool):
        if tx_id in skip:
            return None
        return {'tx_id': tx_id}
    d = repo/'test'/'files'
    with tempfile.TemporaryDirectory() as w:
        args = create_base_args()
        args.input_path = [d/'vep'/'vep_gSNP.gvf']
        args.output_path = Path(w)/'o.fasta'
        args.genome_fasta = d/'genome.fasta'
        args.annotation_gtf = d/'annotation.gtf'
        args.proteome_fasta = d/'translate.fasta'
        args.threads = threads
        with patch.object(cvp, 'caller_reducer', fake_reducer), \
             patch.object(cvp, 'ParallelPool', FakePool), \
             patch.object(cvp.VariantPeptideCaller, 'gather_data_for_call_variant', gather):
            cvp.call_variant_peptide(args)
    return seen

all_tx = run(1, set())
print('transcripts with variants:', all_tx)
skip = {all_tx[0]}
a = run(1, skip); b = run(2, skip); c = run(3, skip)
print('threads=1:', a); print('threads=2:', b); print('threads=3:', c)
ok = (a == b == c)
print('OK' if ok else 'DEFECT: dispatched set depends on --threads')
sys.exit(0 if ok else 1)

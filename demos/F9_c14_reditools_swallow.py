"""F9 / C14: parseREDItools must emit a record only for transcripts in which the
site is exonic.  convert_to_variant_records catches ValueError from
get_transcript_index, `continue`s for 'index in intron' and silently falls through
for any other ValueError (site outside the transcript's exon range) - and then emits a
record for that transcript anyway."""
import sys, io
from pathlib import Path
repo = Path(sys.argv[1] if len(sys.argv) > 1 else '/repo')
sys.path.insert(0, str(repo))
from moPepGen import gtf
from moPepGen.parser.REDItoolsParser import REDItoolsRecord
def line(feat, s, e, attrs):
    return f"chr1\tx\t{feat}\t{s}\t{e}\t.\t+\t.\t{attrs}\n"
g = 'gene_id "G1"; gene_name "G1"; gene_type "protein_coding";'
ta = g + ' transcript_id "TA";'
tb = g + ' transcript_id "TB";'
txt = (line('gene', 11, 120, g) + line('transcript', 11, 120, ta) + line('exon', 11, 50, ta) + line('exon', 81, 120, ta) +
       line('transcript', 81, 120, tb) + line('exon', 81, 120, tb))
anno = gtf.GenomicAnnotationOnDisk(); anno.generate_index(io.BytesIO(txt.encode()), source='GENCODE')
# site at 1-based 21: exonic in TA (exon 11-50), outside the range of TB (81-120); the table lists both
rec = REDItoolsRecord(region='chr1', position=21, reference='A', strand=0, coverage_q=31, mean_quality=40.0,
    base_count=[10, 0, 26, 0], all_subs=[('A', 'G')], frequency=0.84, g_coverage_q=20,
    transcript_id=[('TA', 'transcript'), ('TB', 'transcript')])
try:
    out = rec.convert_to_variant_records(anno, 3, 0.1, 10, 10)
    txs = [r.attrs['TRANSCRIPT_ID'] for r in out]
    print('records emitted for transcripts:', txs)
    ok = txs == ['TA']
except ValueError as e:
    print('rejected with ValueError:', e)
    ok = True          # an explicit error is acceptable; a silently misplaced record is not
print('OK' if ok else 'DEFECT: a record is emitted for TB, in which the site is not exonic (error swallowed)')
sys.exit(0 if ok else 1)

"""F10 / C12: an index whose recorded versions do not match must be rejected by
every command that reads it.  filterFasta --index-dir reads coding_transcripts.pkl."""
import sys, tempfile, argparse, json
from pathlib import Path
repo = Path(sys.argv[1] if len(sys.argv) > 1 else '/repo')
sys.path.insert(0, str(repo))
from moPepGen import cli, err
import importlib
from moPepGen.cli import common
filter_fasta = importlib.import_module('moPepGen.cli.filter_fasta')
d = repo/'test'/'files'
with tempfile.TemporaryDirectory() as w:
    a = argparse.Namespace(command='generateIndex', genome_fasta=d/'genome.fasta', annotation_gtf=d/'annotation.gtf',
        proteome_fasta=d/'translate.fasta', gtf_symlink=False, reference_source=None, invalid_protein_as_noncoding=False,
        cleavage_rule='trypsin', cleavage_exception='trypsin_exception', min_mw=500., min_length=7, max_length=25,
        miscleavage=2, quiet=True, force=False, output_dir=Path(w)/'index')
    cli.generate_index(a)
    m = json.load(open(a.output_dir/'metadata.json'))
    m['version']['python'] = '2.7.18'          # index written by an incompatible interpreter
    json.dump(m, open(a.output_dir/'metadata.json', 'w'))
    b = argparse.Namespace(index_dir=a.output_dir, annotation_gtf=None)
    try:
        common.load_references(argparse.Namespace(index_dir=a.output_dir), load_canonical_peptides=False)
        print('load_references: ACCEPTED stale index'); ref_ok = False
    except err.InvalidIndexError:
        print('load_references: rejected (InvalidIndexError)'); ref_ok = True
    try:
        tx = filter_fasta.load_coding_transcripts(b)
        print(f'filterFasta.load_coding_transcripts: ACCEPTED stale index ({len(tx)} transcripts)'); ok = False
    except err.InvalidIndexError:
        print('filterFasta.load_coding_transcripts: rejected (InvalidIndexError)'); ok = True
print('OK' if ok and ref_ok else 'DEFECT: filterFasta uses an index with mismatching versions')
sys.exit(0 if ok and ref_ok else 1)

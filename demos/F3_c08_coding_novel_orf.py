"""F3 / C08: callNovelORF must process protein-coding transcripts only with
--coding-novel-orf.  Runs the real CLI entry twice on the test reference and
lists the transcripts the ORF FASTA attributes ORFs to."""
import sys, tempfile
from pathlib import Path
repo = Path(sys.argv[1] if len(sys.argv) > 1 else '/repo')
sys.path.insert(0, str(repo)); sys.path.insert(0, str(repo/'test'/'integration'))
from test.integration.test_call_novel_orf import create_base_args
from moPepGen import cli
from moPepGen.cli import common
d = repo/'test'/'files'
def run(flag):
    with tempfile.TemporaryDirectory() as w:
        a = create_base_args()
        a.genome_fasta, a.annotation_gtf, a.proteome_fasta = d/'genome.fasta', d/'annotation.gtf', d/'translate.fasta'
        a.output_path = Path(w)/'p.fasta'; a.output_orf = Path(w)/'o.fasta'
        a.coding_novel_orf = flag
        cli.call_novel_orf_peptide(a)
        txs = {l[1:].split('|')[0] for l in open(a.output_orf) if l.startswith('>')}
        n = sum(1 for l in open(a.output_path) if l.startswith('>'))
        return txs, n
off, n_off = run(False); on, n_on = run(True)
a = create_base_args()
a.genome_fasta, a.annotation_gtf, a.proteome_fasta = d/'genome.fasta', d/'annotation.gtf', d/'translate.fasta'
_, anno, _, _ = common.load_references(a, load_genome=False, load_canonical_peptides=False, load_proteome=True)
coding = {t for t in (off | on) if anno.transcripts[t].is_protein_coding}
print('coding transcripts with ORFs, flag off:', sorted(off & coding), 'peptides', n_off)
print('coding transcripts with ORFs, flag on :', sorted(on & coding), 'peptides', n_on)
bad = bool(off & coding) or not (on & coding)
print('DEFECT: --coding-novel-orf is inert (coding transcripts processed without it)' if bad else 'OK')
sys.exit(1 if bad else 0)

"""F12 / C18: summarizeFasta's per-source totals must agree with the sizes of the
databases splitFasta produces under the same options.  Uses the options of the
repository's own wildcard split test (--order-source with `circRNA-+`, `Alt-*`)."""
import sys, tempfile, argparse
from pathlib import Path
repo = Path(sys.argv[1] if len(sys.argv) > 1 else '/repo')
sys.path.insert(0, str(repo))
from moPepGen import cli
d = repo/'test'/'files'
common = dict(index_dir=None, reference_source=None, annotation_gtf=d/'annotation.gtf', proteome_fasta=d/'translate.fasta', quiet=True,
    gvf=[d/'vep/vep_gSNP.gvf', d/'vep/vep_gINDEL.gvf', d/'reditools/reditools.gvf', d/'fusion/star_fusion.gvf', d/'circRNA/circ_rna.gvf'],
    variant_peptides=d/'peptides/variant.fasta', novel_orf_peptides=d/'peptides/novel_orf.fasta', alt_translation_peptides=d/'peptides/alt_translation.fasta',
    group_source=['Alt:SECT,CodonReassign', 'Variant:gSNP,gINDEL,Fusion,RNAEditingSite'],
    order_source='Variant,NovelORF,Variant-NovelORF,circRNA,circRNA-+,Alt-*')
ok = True
with tempfile.TemporaryDirectory() as w:
    a = argparse.Namespace(command='splitFasta', output_prefix=Path(w)/'split'/'test', max_source_groups=4, additional_split=None, **common)
    cli.split_fasta(a)
    sizes = {}
    for f in sorted((Path(w)/'split').glob('*.fasta')):
        sizes[f.stem.replace('test_', '')] = sum(1 for l in open(f) if l.startswith('>'))
    print('splitFasta database sizes:', sizes)
    b = argparse.Namespace(command='summarizeFasta', output_path=Path(w)/'summary.txt', output_image=None, ignore_missing_source=False,
        cleavage_rule='trypsin', **common)
    try:
        cli.summarize_fasta(b)
        rows = [l.rstrip('\n').split('\t') for l in open(b.output_path)]
        tot = {r[0].replace('+', 'PLUS').replace('*', 'ALL'): int(r[1]) for r in rows[1:] if len(r) > 1 and r[1].isdigit()}
        print('summarizeFasta totals    :', tot)
        ok = tot == sizes
    except Exception as e:        # pylint: disable=broad-except
        print(f'summarizeFasta FAILED under the same options: {type(e).__name__}: {e}')
        ok = False
print('OK' if ok else 'DEFECT: summarizeFasta does not agree with splitFasta when the source order uses wildcards')
sys.exit(0 if ok else 1)

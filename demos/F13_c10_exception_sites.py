"""F13 / C10 (+C01): cleavage sites must be the ExPASy rule minus its exception
sites wherever a sequence is cut.  PeptideVariantGraph.cleave_if_possible obtains
the exception sites through get_enzymatic_cleave_exception_sites(<exception NAME>)
and hands them on as `exception_sites`; they must equal the sites the siblings
compute from the same name."""
import sys
from pathlib import Path
repo = Path(sys.argv[1] if len(sys.argv) > 1 else '/repo')
sys.path.insert(0, str(repo))
from Bio.Seq import Seq
from moPepGen import aa
s = aa.AminoAcidSeqRecord(Seq('AACKDAAAKAARRHAAK'))
exc = s.get_enzymatic_cleave_exception_sites('trypsin_exception')
with_exc = s.find_all_enzymatic_cleave_sites('trypsin', 'trypsin_exception')
as_graph = s.find_all_enzymatic_cleave_sites_with_ranges('trypsin', 'trypsin_exception')
graph_way = [x for x, _ in s.find_all_cleave_and_stop_sites_with_range(
    rule='trypsin', exception='trypsin_exception', exception_sites=exc)]
print('exception sites via get_enzymatic_cleave_exception_sites:', exc)
print('sites, exception resolved by the digest code   :', with_exc)
print('sites as cleave_if_possible computes them      :', graph_way)
ok = graph_way == with_exc
print('OK' if ok else 'DEFECT: the cleavage graph cuts at trypsin exception sites (CK|D, RR|H) that the canonical digest does not cut')
sys.exit(0 if ok else 1)

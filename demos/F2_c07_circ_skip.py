"""F2 / C07: with --skip-failed, a failing circRNA unit must be isolated.
Calls the real `call_variant_peptides_wrapper` with two circRNA units; the
per-unit caller fails for a chosen unit.  Expected: run completes, flag[2] is
False, and the surviving unit's peptides are registered under *its own* id only.
"""
import sys, importlib
from types import SimpleNamespace as NS
from unittest.mock import patch
from pathlib import Path
repo = Path(sys.argv[1] if len(sys.argv) > 1 else '/repo')
sys.path.insert(0, str(repo))
cvp = importlib.import_module('moPepGen.cli.call_variant_peptide')

def run(fail_ids):
    def fake_circ(record, **kw):
        if record.id in fail_ids:
            raise ValueError('boom ' + record.id)
        label = NS(label='L-' + record.id)
        return {('PEP-' + record.id): [label]}, 'CG-' + record.id, 'PG-' + record.id
    series = NS(transcriptional=[], fusion=[], circ_rna=[NS(id='CIRC-A'), NS(id='CIRC-B')])
    with patch.object(cvp, 'call_peptide_circ_rna', fake_circ), \
         patch.object(cvp, 'call_canonical_peptides', lambda **kw: set()):
        return cvp.call_variant_peptides_wrapper(
            tx_id='TX', variant_series=series, tx_seqs={'TX': None}, gene_seqs={},
            reference_data=None, pool=None, cleavage_params=None,
            noncanonical_transcripts=False, max_adjacent_as_mnv=2, truncate_sec=False,
            w2f_reassignment=False, backsplicing_only=False, save_graph=True,
            coding_novel_orf=False, skip_failed=True, timeout=60)

bad = False
for fail in (['CIRC-A'], ['CIRC-B']):
    try:
        anno, _, dg, pg, flags = run(set(fail))
    except Exception as e:      # pylint: disable=broad-except
        print(f'fail={fail}: run ABORTED despite skip_failed: {type(e).__name__}: {e}')
        bad = True
        continue
    print(f'fail={fail}: peptides={sorted(anno)} cgraphs={dg[2]} flags={flags}')
    other = ({'CIRC-A', 'CIRC-B'} - set(fail)).pop()
    if sorted(anno) != ['PEP-' + other] or set(dg[2]) != {other} or flags[2]:
        print('   -> DEFECT: failing unit not isolated')
        bad = True
print('DEFECT' if bad else 'OK')
sys.exit(1 if bad else 0)

#!/usr/bin/env python
"""F15 (C06 / C01 / C15): fusion records of one donor breakpoint collapse in set(records).

VariantRecord.__eq__ compares (location, ref, alt, type) and __hash__ adds donor-range attributes only.
A fusion record has alt '<FUSION>' and carries its acceptor in ACCEPTER_TRANSCRIPT_ID / ACCEPTER_POSITION,
which take part in neither.  The fusion parsers emit one record per donor x acceptor transcript pair, so for
an acceptor gene with two isoforms the donor transcript gets two records that are "equal".
VariantRecordPoolOnDisk.__getitem__ de-duplicates with set(records): only ONE acceptor isoform survives,
and which one depends on the order of the records / files.

usage: F15_fusion_identity_collapse.py [tree root]   exit 0 = both fusions seen in every layout
"""
import os
import sys
import tempfile
import warnings
from pathlib import Path

root = os.path.abspath(sys.argv[1] if len(sys.argv) > 1 else '/repo')
sys.path.insert(0, root)
warnings.filterwarnings('ignore')
import moPepGen      # noqa: E402
assert os.path.abspath(moPepGen.__file__).startswith(root + os.sep), moPepGen.__file__
from moPepGen import gtf, dna, seqvar    # noqa: E402

DATA = Path(root)/'test'/'files'
DONOR_GENE, DONOR_TX = 'ENSG00000279973.2', 'ENST00000624155.2'
ACC_GENE = 'ENSG00000128408.9'
ACC_TXS = ('ENST00000614167.2', 'ENST00000614168.2')

HEADER = """##fileformat=VCFv4.2
##mopepgen_version=0.0.1
##parser=parseXXX
##source=Fusion
##reference_index=
##genome_fasta=
##annotation_gtf=
##CHROM=<Description='5' Junction Donor Transcript ID'>
##ALT=<ID=FUSION,Description="Fusion">
#CHROM\tPOS\tID\tREF\tALT\tQUAL\tFILTER\tINFO
"""


def line(acc_tx):
    info = f"TRANSCRIPT_ID={DONOR_TX};GENE_SYMBOL=D;ACCEPTER_GENE_ID={ACC_GENE};ACCEPTER_TRANSCRIPT_ID={acc_tx};" \
           "ACCEPTER_POSITION=300;GENOMIC_POSITION=chr22:5269-5269;ACCEPTER_GENOMIC_POSITION=chr22:300-300;ACCEPTER_SYMBOL=RIBC2"
    return '\t'.join([DONOR_GENE, '50', f"FUSION-{DONOR_TX}:50-{acc_tx}:300", 'A', '<FUSION>', '.', '.', info]) + '\n'


def seen(files, anno, genome):
    pool = seqvar.VariantRecordPoolOnDisk(gvf_files=list(files), anno=anno, genome=genome)
    with seqvar.VariantRecordPoolOnDiskOpener(pool) as opened:
        return sorted(v.attrs['ACCEPTER_TRANSCRIPT_ID'] for v in opened[DONOR_TX].fusion)


def main():
    anno = gtf.GenomicAnnotationOnDisk()
    anno.generate_index(DATA/'annotation.gtf')
    genome = dna.DNASeqDict()
    genome.dump_fasta(DATA/'genome.fasta')
    with tempfile.TemporaryDirectory() as tmp:
        tmp = Path(tmp)
        fa, fb, fab, fba = tmp/'a.gvf', tmp/'b.gvf', tmp/'ab.gvf', tmp/'ba.gvf'
        for p, ls in ((fa, [line(ACC_TXS[0])]), (fb, [line(ACC_TXS[1])]), (fab, [line(ACC_TXS[0]), line(ACC_TXS[1])]),
                      (fba, [line(ACC_TXS[1]), line(ACC_TXS[0])])):
            p.write_text(HEADER + ''.join(ls))
        layouts = {'file a alone': seen([fa], anno, genome), 'file b alone': seen([fb], anno, genome),
                   'a then b': seen([fa, fb], anno, genome), 'b then a': seen([fb, fa], anno, genome),
                   'merged a,b': seen([fab], anno, genome), 'merged b,a': seen([fba], anno, genome)}
    bad = False
    for k, v in layouts.items():
        print(f"{k:14s}: fusion acceptors seen for {DONOR_TX}: {v}")
    for k in ('a then b', 'b then a', 'merged a,b', 'merged b,a'):
        if layouts[k] != sorted(ACC_TXS):
            bad = True
            print(f"FAIL [{k}]: fusion with acceptor {sorted(set(ACC_TXS) - set(layouts[k]))} is lost")
    if layouts['a then b'] != layouts['b then a']:
        print('FAIL: the surviving fusion depends on the ORDER of the GVF files')
    sys.exit(1 if bad else 0)


if __name__ == '__main__':
    main()

"""F11 / C05 (candidate): enabling --w2f-reassignment may only ADD peptides.
The per-transcript denylist is `call_canonical_peptides(..., w2f=w2f_reassignment)`,
i.e. with the flag on it also contains the W>F images of the *reference* peptides.
A variant peptide that equals such an image (an MNV TGG>TTC turning W into F) is then
rejected, although it is reported when the flag is off.

Runs the real call_canonical_peptides + call_peptide_main on one hand-made transcript,
with flag off and on, and compares the peptide sets.  (Needs a small Biopython shim
for SeqRecord.__add__; moPepGen itself is not patched.)"""
import os, sys, warnings, importlib
root = os.path.abspath(sys.argv[1] if len(sys.argv) > 1 else '/repo')
sys.path.insert(0, root)
warnings.filterwarnings('ignore')
from Bio.Seq import Seq
from Bio.SeqRecord import SeqRecord
from moPepGen import gtf, dna, seqvar, params
from moPepGen.SeqFeature import FeatureLocation
from moPepGen.gtf.GTFSeqFeature import GTFSeqFeature
from moPepGen.dna.DNASeqRecord import DNASeqRecord
from moPepGen.aa.AminoAcidSeqRecord import AminoAcidSeqRecord
from moPepGen.seqvar.VariantRecordPoolOnDisk import TranscriptionalVariantSeries
cvp = importlib.import_module('moPepGen.cli.call_variant_peptide')
_shim = classmethod(lambda cls, *a, **k: SeqRecord._from_validated.__func__(SeqRecord, *a, **k))
DNASeqRecord._from_validated = _shim
AminoAcidSeqRecord._from_validated = _shim
CODON = {'A': 'GCT', 'R': 'CGT', 'N': 'AAC', 'D': 'GAC', 'C': 'TGC', 'Q': 'CAG', 'E': 'GAA', 'G': 'GGT', 'H': 'CAC', 'I': 'ATC',
         'L': 'CTG', 'K': 'AAA', 'M': 'ATG', 'F': 'TTC', 'P': 'CCG', 'S': 'TCT', 'T': 'ACT', 'W': 'TGG', 'Y': 'TAC', 'V': 'GTT'}
GENE_ID, TX_ID, CHROM = 'ENSG0001', 'ENST0001', 'chr1'

def build(tx, cds_start, stop_index, secs=()):
    attrs = {'gene_id': GENE_ID, 'transcript_id': TX_ID, 'protein_id': 'ENSP0001', 'gene_name': 'X', 'gene_type': 'protein_coding', 'tag': []}
    def feat(s, e, t):
        return GTFSeqFeature(chrom=CHROM, location=FeatureLocation(start=s, end=e, seqname=CHROM, strand=1), attributes=dict(attrs), source='GENCODE', type=t, frame=0)
    n = len(tx)
    model = gtf.TranscriptAnnotationModel(transcript=feat(0, n, 'transcript'), cds=[feat(cds_start, stop_index, 'CDS')], exon=[feat(0, n, 'exon')],
        three_utr=[feat(stop_index, n, 'three_prime_UTR')], selenocysteine=[feat(x, x + 3, 'Selenocysteine') for x in secs], is_protein_coding=True, transcript_id=TX_ID, gene_id=GENE_ID, protein_id='ENSP0001',
        gene_name='X', gene_type='protein_coding')
    gene = gtf.GeneAnnotationModel(chrom=CHROM, attributes=dict(attrs), transcripts=[TX_ID], location=FeatureLocation(start=0, end=n, seqname=CHROM, strand=1))
    anno = gtf.GenomicAnnotation(); anno.genes[GENE_ID] = gene; anno.transcripts[TX_ID] = model
    genome = dna.DNASeqDict(); genome[CHROM] = dna.DNASeqRecord(Seq(tx))
    return genome, anno

def call(tx, cds_start, stop_index, variants, w2f, sect=False, secs=()):
    genome, anno = build(tx, cds_start, stop_index, secs)
    tx_seq = anno.transcripts[TX_ID].get_transcript_sequence(genome[CHROM])
    gene_seq = anno.genes[GENE_ID].get_gene_sequence(genome[CHROM])
    records = [seqvar.VariantRecord(location=FeatureLocation(start=s, end=e, seqname=TX_ID), ref=r, alt=a, _type=t, _id=i, attrs={'GENE_ID': GENE_ID})
               for s, e, r, a, t, i in variants]
    records.sort()
    pool = seqvar.VariantRecordPool(anno=anno); series = TranscriptionalVariantSeries(); series.transcriptional = records; pool[TX_ID] = series
    cp = params.CleavageParams(enzyme='trypsin', exception='trypsin_exception', miscleavage=0, min_mw=500., min_length=7, max_length=25)
    ref = params.ReferenceData(genome=genome, anno=anno, canonical_peptides=set())
    deny = cvp.call_canonical_peptides(tx_id=TX_ID, ref=ref, tx_seq=tx_seq, cleavage_params=cp, truncate_sec=sect, w2f=w2f)
    pm, _, _ = cvp.call_peptide_main(tx_id=TX_ID, tx_variants=records, variant_pool=pool, ref=ref, tx_seqs={TX_ID: tx_seq}, gene_seqs={GENE_ID: gene_seq},
        cleavage_params=cp, max_adjacent_as_mnv=0, truncate_sec=sect, w2f=w2f, denylist=deny, save_graph=False, coding_novel_orf=False)
    return {str(k): sorted(x.label for x in v) for k, v in pm.items()}

protein = 'MASTGLLNDEKAASHPQWEGSVTNDAERLLQYVSTDEK'
cds = ''.join(CODON[x] for x in protein)
tx = 'GGCACC' + cds + 'TAA' + 'GCTTCTGGTAAAGACCTG'
cds_start = 6; stop = cds_start + len(cds)
w = cds_start + 3 * protein.index('W')
assert tx[w:w+3] == 'TGG'
mnv = (w + 1, w + 3, 'GG', 'TC', 'MNV', f'MNV-{w+2}-GG-TC')       # TGG -> TTC : W > F
off = call(tx, cds_start, stop, [mnv], False)
on = call(tx, cds_start, stop, [mnv], True)
print('flag off:', off); print('flag on :', on)
lost = sorted(set(off) - set(on))
print('W2F: OK' if not lost else f'W2F NON-MONOTONE: enabling --w2f-reassignment removes {lost}')
# case 2: selenocysteine termination.  A stop-gain SNV TGA>TAA at the Sec codon gives the same truncated protein as Sec termination.
CODON['U'] = 'TGA'
protein2 = 'MASTGLLNDEKAASHPQAEGSVUNDAERLLQYVSTDEK'
cds2 = ''.join(CODON[x] for x in protein2)
tx2 = 'GGCACC' + cds2 + 'TAA' + 'GCTTCTGGTAAAGACCTG'
stop2 = 6 + len(cds2)
u = 6 + 3 * protein2.index('U')
snv = (u + 1, u + 2, 'G', 'A', 'SNV', f'SNV-{u+2}-G-A')            # TGA -> TAA
off2 = call(tx2, 6, stop2, [snv], False, sect=False, secs=(u,))
on2 = call(tx2, 6, stop2, [snv], False, sect=True, secs=(u,))
print('sect off:', off2); print('sect on :', on2)
lost2 = sorted(set(off2) - set(on2))
print('SECT: OK' if not lost2 else f'SECT NON-MONOTONE: enabling --selenocysteine-termination removes {lost2}')
sys.exit(1 if (lost or lost2) else 0)

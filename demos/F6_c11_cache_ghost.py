"""F6 / C11(+C15): any sequence of accesses to the on-disk annotation must return
the model for every valid key.  History: one miss (KeyError, which the fusion
parsers convert to 'unknown gene, skip'), then > CACHE_SIZE valid accesses."""
import sys
from pathlib import Path
repo = Path(sys.argv[1] if len(sys.argv) > 1 else '/repo')
sys.path.insert(0, str(repo))
from moPepGen import gtf
from moPepGen.gtf import GTFPointer
d = repo/'test'/'files'
GTFPointer.TX_DICT_CACHE_SIZE = 3      # same history shape as 10000 accesses at the default size
GTFPointer.GENE_DICT_CACHE_SIZE = 2
anno = gtf.GenomicAnnotationOnDisk(); anno.generate_index(d/'annotation.gtf')
bad = False
for name, dct in (('transcripts', anno.transcripts), ('genes', anno.genes)):
    keys = list(dct.keys())
    try:
        dct['NOPE']
    except KeyError:
        pass
    try:
        for k in keys + keys:
            dct[k]
        print(f'{name}: {2*len(keys)} valid accesses after one miss OK')
    except KeyError as e:
        print(f'{name}: DEFECT valid key {k} raised KeyError({e})'); bad = True
sys.exit(1 if bad else 0)

"""F14 / C17 (KNOWN FINDING): parseCIRCexplorer must skip and count records that match
no annotated transcript.  A record whose isoform is absent from the annotation aborts the
whole command with KeyError instead."""
import sys, tempfile, argparse
from pathlib import Path
repo = Path(sys.argv[1] if len(sys.argv) > 1 else '/repo')
sys.path.insert(0, str(repo))
from moPepGen import cli
d = repo/'test'/'files'
lines = open(d/'circRNA'/'CIRCexplorer_circularRNA_known.txt').read().splitlines()
f = lines[0].split('\t'); f[15] = 'ENST00000000000.1'           # isoform of another annotation release
with tempfile.TemporaryDirectory() as w:
    inp = Path(w)/'in.txt'; inp.write_text('\n'.join(['\t'.join(f)] + lines) + '\n')
    a = argparse.Namespace(command='parseCIRCexplorer', input_path=inp, output_path=Path(w)/'circ.gvf', source='circRNA', index_dir=None,
        annotation_gtf=d/'annotation.gtf', reference_source=None, circexplorer3=False, min_read_number=1,
        intron_start_range='-2,0', intron_end_range='-100,2', quiet=True)
    try:
        cli.parse_circexplorer(a)
        n = sum(1 for l in open(a.output_path) if not l.startswith('#'))
        print(f'completed, {n} records written'); ok = n == len(lines)
    except KeyError as e:
        print('ABORTED with KeyError', e); ok = False
print('OK' if ok else 'DEFECT: one record naming an unknown isoform aborts the run (not skipped and counted)')
sys.exit(0 if ok else 1)

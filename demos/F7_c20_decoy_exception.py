"""F7 / C20 (+C10 literal rule): decoyFasta with --enzyme trypsin must treat
trypsin exception sites (e.g. C-K|D) as *not* cleaved, like every other command."""
import sys
from pathlib import Path
repo = Path(sys.argv[1] if len(sys.argv) > 1 else '/repo')
sys.path.insert(0, str(repo))
from Bio.Seq import Seq
from moPepGen import aa
from moPepGen.cli.decoy_fasta import DecoyFasta
d = DecoyFasta(None, None, 'reverse', 'trypsin', False, False, [], 10, 1, 'DECOY_', 'prefix', 'juxtaposed')
seq = Seq('AACKDAAAKAA')
got = d.find_fixed_indices(seq)
want = aa.AminoAcidSeqRecord(seq).find_all_enzymatic_cleave_sites('trypsin', 'trypsin_exception')
print('fixed (enzyme part):', got, ' sites with the trypsin exception:', want)
ok = got == want
print('OK' if ok else 'DEFECT: exception site CK|D treated as a cleavage site')
sys.exit(0 if ok else 1)

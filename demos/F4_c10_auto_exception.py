"""F4 / C10+C12: with the default --cleavage-exception auto the canonical pool
that generateIndex saves (and updateIndex / on-the-fly loading compute) must be
the digest *with* the trypsin exception, i.e. the pool it is registered under.
Runs the real generateIndex / updateIndex / load_references on a tiny proteome
that contains exception sites and compares with the direct digest."""
import sys, tempfile, argparse, shutil
from pathlib import Path
repo = Path(sys.argv[1] if len(sys.argv) > 1 else '/repo')
sys.path.insert(0, str(repo))
from moPepGen import cli, aa, params
from moPepGen.cli import common
from moPepGen.index import IndexDir
d = repo/'test'/'files'
def base(w):
    a = argparse.Namespace(command='generateIndex', genome_fasta=d/'genome.fasta',
        annotation_gtf=d/'annotation.gtf', proteome_fasta=d/'translate.fasta', gtf_symlink=False,
        reference_source=None, invalid_protein_as_noncoding=False, cleavage_rule='trypsin',
        cleavage_exception='auto', min_mw=500., min_length=7, max_length=25, miscleavage=2,
        quiet=True, force=False, output_dir=Path(w)/'index', index_dir=None)
    return a
bad = False
with tempfile.TemporaryDirectory() as w:
    a = base(w)
    cli.generate_index(a)
    idx = IndexDir(a.output_dir)
    anno = idx.load_annotation(); prot = idx.load_proteome()
    kw = dict(anno=anno, rule='trypsin', miscleavage=2, min_mw=500., min_length=7, max_length=25)
    with_exc = prot.create_unique_peptide_pool(exception='trypsin_exception', **kw)
    no_exc = prot.create_unique_peptide_pool(exception=None, **kw)
    print(f'direct digest: with exception {len(with_exc)}, without {len(no_exc)}, differ={with_exc != no_exc}')
    cp = params.CleavageParams(enzyme='trypsin', exception='auto', miscleavage=2, min_mw=500., min_length=7, max_length=25)
    print('registered under exception =', cp.exception)
    saved = idx.load_canonical_peptides(cp)
    for name, pool in [('generateIndex', saved)]:
        v = 'with-exception' if pool == with_exc else 'NO-exception' if pool == no_exc else 'other'
        print(f'{name}: saved pool is the {v} digest'); bad |= pool != with_exc
    # updateIndex --force
    a2 = base(w); a2.command = 'updateIndex'; a2.index_dir = a.output_dir; a2.force = True
    cli.update_index(a2)
    pool = IndexDir(a.output_dir).load_canonical_peptides(cp)
    v = 'with-exception' if pool == with_exc else 'NO-exception' if pool == no_exc else 'other'
    print(f'updateIndex: saved pool is the {v} digest'); bad |= pool != with_exc
    # on the fly
    a3 = base(w)
    _, _, _, pool = common.load_references(a3, load_genome=False, cleavage_params=cp)
    v = 'with-exception' if pool == with_exc else 'NO-exception' if pool == no_exc else 'other'
    print(f'load_references (raw files): pool is the {v} digest'); bad |= pool != with_exc
print('DEFECT' if bad else 'OK')
sys.exit(1 if bad else 0)

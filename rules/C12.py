"""C12 - index directory: each parameter set maps to its own, faithful data.

a R-KEYS   lookup key == the parameters that influence the pool; computed == registered parameters
b layering only index.py touches index files; every IndexDir consumer validates before loading
c fresh file name per registration, raise on duplicates; save reaches register unless overriding
d save/load symmetry; metadata persisted whenever a pool is registered; version validity direction
"""
import ast
import re
from sa.model import unparse, norm_stmt, call_name, kwarg, walk_no_nested, AnalysisError, str_consts
from sa.cfg import CFG
from sa import guards as G
from sa import flow

IDX = 'index:'
INDEX_FILES = ('genome.pkl', 'proteome.pkl', 'coding_transcripts.pkl', 'metadata.json', 'canonical_peptides', 'annotation.gtf')


def _resolve(f, e):
    if isinstance(e, ast.Name):
        r = G.resolve_local(f.node, e.id)
        return r if r is not None else e
    return e


_OPT_TYPES = {}


def _option_types(repo):
    """dest -> declared argparse type of the cleavage options (T(args.X) is the identity when X is declared type=T)."""
    if not _OPT_TYPES:
        for f in repo.funcs_in('cli.common'):
            for c in G.find_calls(f.node, 'add_argument'):
                t = kwarg(c, 'type')
                longs = [a.value for a in c.args if isinstance(a, ast.Constant) and str(a.value).startswith('--')]
                if t is not None and longs:
                    _OPT_TYPES[longs[0][2:].replace('-', '_')] = unparse(t)
    return _OPT_TYPES


def _conv_norm(t: str, types=None) -> str:
    import re
    types = types or {}
    prev = None
    while prev != t:
        prev = t
        t = re.sub(r'\b(int|float|str)\(\1\((.*)\)\)$', r'\1(\2)', t)
        t = re.sub(r'\b(int|float|str)\(args\.(\w+)\)', lambda m: f"args.{m.group(2)}" if types.get(m.group(2)) == m.group(1) else m.group(0), t)
    return t


def stored_key_expr(repo, field, arg, f):
    """Text of the value CleavageParams.__init__ stores in self.<field> when called with `arg` (resolved in f)."""
    ini = repo.func('params:CleavageParams.__init__')
    st = [n for n in ini.node.body if isinstance(n, ast.Assign) and unparse(n.targets[0]) == f"self.{field}"]
    if len(st) != 1:
        raise AnalysisError(f"anchor=params:CleavageParams.__init__: unique unconditional assignment of self.{field} not found")
    src = unparse(_resolve(f, arg))

    class Sub(ast.NodeTransformer):
        def visit_Name(self, n):
            if n.id == field:
                return ast.parse(src, mode='eval').body
            return n
    import copy
    return _conv_norm(unparse(Sub().visit(copy.deepcopy(st[0].value))), _option_types(repo))


def run(chk, repo):
    chk.clauses = [
        'C12.a the pool lookup key holds exactly the six parameters that parameterise the digest (graph knobs excluded); '
        'lookup compares all of them; the pool is computed with the parameters it is registered under',
        'C12.b only moPepGen/index.py names index files; every IndexDir consumer calls validate_metadata() before any load',
        'C12.c registration takes a fresh index (max+1), raises on an existing parameter set; save registers unless overriding an existing entry',
        'C12.d save_X/load_X pairs use the same path and (de)serialiser; metadata is saved whenever a new pool is registered; '
        'version validity is evaluated as current.is_valid(recorded)',
    ]
    chk.not_decided = ['behaviour over arbitrary generate/update histories (model checking would be the right tool)']

    # ------------------------------------------------------------------ a
    chk.rule('C12.a', 'R-KEYS: lookup key == digest parameters; computed == registered', 7)
    dig = lookup_key_rules(chk, repo, 'C12.a')
    lm = repo.func(IDX + 'IndexDir.load_metadata')
    chk.uses(lm)
    restored = restore_rule(chk, repo, lm)
    if restored is not None:
        chk.ob('C12.a', 'metadata reload rebuilds CleavageParams from the stored key', lm.where, restored,
               'stored parameters are not restored through CleavageParams(**stored)', key=lm.qual + '::restore', fn=lm.qual)
    cj = repo.func(IDX + 'CanonicalPoolMetadata.jsonfy')
    chk.ob('C12.a', 'entry serialises filename, index and its cleavage parameters', cj.where,
           "'cleavage_params': self.cleavage_params.jsonfy()" in unparse(cj.node) and "'filename': self.filename" in unparse(cj.node),
           'pool metadata serialisation altered', key=cj.qual, fn=cj.qual)
    # computed == registered (generate/update): the CleavageParams registered is built from the same names as the pool call
    for q in ('cli.generate_index:generate_index', 'cli.update_index:update_index'):
        f = repo.func(q)
        chk.uses(f)
        cp = [n for n in walk_no_nested(f.node) if isinstance(n, ast.Assign) and unparse(n.targets[0]) == 'cleavage_params' and call_name(n.value) == 'CleavageParams']
        pc = G.find_calls(f.node, 'create_unique_peptide_pool')
        sv = G.find_calls(f.node, 'save_canonical_peptides')
        ok = len(cp) == 1 and len(pc) == 1 and len(sv) == 1
        detail = ''
        if len(pc) == 1 and len(sv) == 1 and (not cp or any(k.arg is None for k in pc[0].keywords)):
            chk.undecided('C12.a', f"{f.name}: pool computed with the parameters it is registered under", f.where,
                          'the registered CleavageParams is not built by a constructor call in this function, or the pool call receives `**<expression>`: '
                          'the parameters of the two are not visible side by side', key=q + '::computed==registered', fn=f.qual)
            continue
        if ok:
            c = cp[0].value
            for p in dig:
                a = kwarg(c, 'enzyme' if p == 'rule' else p)
                b = kwarg(pc[0], p)
                if a is None or b is None:
                    ok = False
                    detail += f" {p}: missing;"
                    continue
                ta, tb = unparse(a), unparse(b)
                if p == 'exception':
                    # the registered value is the one CleavageParams normalises ('auto'); the digest must use that value
                    same = flow.classify(f, b)[0] == 'clean' and tb == 'cleavage_params.exception'
                elif tb == f"cleavage_params.{'enzyme' if p == 'rule' else p}":
                    same = True       # digested with the attribute of the very object that is registered: equal by construction
                else:
                    same = ta == tb
                    if same:
                        # the key stores T(a) where T is what CleavageParams.__init__ does to the parameter: T(a) must equal the digest argument
                        field = 'enzyme' if p == 'rule' else p
                        reg = stored_key_expr(repo, field, a, f)
                        comp = _conv_norm(unparse(_resolve(f, b)), _option_types(repo))
                        if reg != comp:
                            same = False
                            tb = f"{comp}' while the key stores '{reg}"
                if not same:
                    ok = False
                    detail += f" {p}: registered with '{ta}' but computed with '{tb}';"
            okc = [unparse(a) for a in sv[0].args][:2] == ['canonical_peptides', 'cleavage_params'] and \
                unparse(repo.enclosing_stmt(pc[0]).targets[0]) == 'canonical_peptides'
            if not okc:
                ok = False
                detail += ' the saved pool is not the computed one / not saved under cleavage_params;'
        chk.ob('C12.a', f"{f.name}: pool computed with the parameters it is registered under", f.where, ok,
               f"{f.name}:{detail or ' anchor calls not found'}", key=q + '::computed==registered', fn=f.qual)

    # ------------------------------------------------------------------ b
    chk.rule('C12.b', 'layering: index files named only in index.py; validate_metadata dominates loads', 5)
    offenders = []
    for f in repo.funcs_in():
        if f.module.modname == 'index':
            continue
        for s in str_consts(f.node):
            if any(s == x or (x == 'canonical_peptides' and s.startswith('canonical_peptides_')) for x in INDEX_FILES[:5]):
                offenders.append((f.qual, s))
    chk.ob('C12.b', 'no module other than index.py names an index file', 'moPepGen/index.py:1', not offenders,
           f"index files are addressed outside moPepGen/index.py: {offenders} (bypasses version validation / pool lookup)",
           key='index::file-names-outside', )
    consumers = []
    for f in repo.funcs_in():
        if f.module.modname == 'index':
            continue
        ctor = [c for c in G.find_calls(f.node, 'IndexDir', nested=False)]
        if not ctor:
            continue
        consumers.append(f)
        cfg = CFG(f.node)
        val = [n.id for n in cfg.nodes if n.kind == 'stmt' and any(call_name(c) == 'validate_metadata' for c in G.find_calls(n.ast))]
        loads = [n for n in cfg.nodes if n.kind in ('stmt', 'test') and any(call_name(c).startswith('load_') and 'index_dir' in unparse(c.func) for c in G.find_calls(n.ast))]
        reads_meta = [n for n in cfg.nodes if n.kind in ('stmt', 'test') and 'index_dir.metadata.get_canonical_pool' in unparse(n.ast)]
        writes_only = not loads and not reads_meta
        if writes_only:
            chk.ob('C12.b', f"{f.qual}: creates the index (no loads)", f.where, True, fn=f.qual)
            continue
        bad = [n for n in loads + reads_meta if not any(cfg.dominates(v, n.id) for v in val)]
        chk.ob('C12.b', f"{f.qual}: validate_metadata() dominates every load ({len(loads) + len(reads_meta)} sites)", f.where, not bad,
               f"index data is read at {[repo.loc(f, n.ast) for n in bad]} without a dominating validate_metadata(): an index with mismatching versions is used",
               key=f.qual + '::validate-before-load', fn=f.qual)
    chk.extra['indexdir_consumers'] = [f.qual for f in consumers]
    vm = repo.func(IDX + 'IndexDir.validate_metadata')
    chk.uses(vm)
    from sa import sem
    nvm = sem.nf(repo, vm)
    # every way out of validate_metadata that is not the InvalidIndexError knows MetaVersion().is_valid(self.metadata.version) to be true
    exits = sem.facts_where(nvm, lambda st: isinstance(st, ast.Return))
    cfgv = CFG(nvm)
    fall = cfgv.must_facts()
    outs = [fx for _st, fx in exits]
    for (lbl, pid) in cfgv.pred[cfgv.exit]:
        if lbl == 'fallthrough':
            n_ = cfgv.nodes[pid]
            fx_ = fall.get(pid)
            if fx_ is not None and n_.kind == 'test':
                outs.append(fx_)          # approximated: the test node's entry facts (no explicit return)
    raises = [n for n in ast.walk(nvm) if isinstance(n, ast.Raise) and 'InvalidIndexError' in unparse(n)]
    def valid_known(fx):
        if fx is None:
            return True
        return any(fx.known(t_) is True for t_ in ('MetaVersion().is_valid(self.metadata.version)', 'cur_version.is_valid(self.metadata.version)'))
    rfx = sem.facts_where(nvm, lambda st: isinstance(st, ast.Raise))
    ok = bool(raises) and bool(rfx) and all(fx is None or any(fx.known(t_) is False for t_ in ('MetaVersion().is_valid(self.metadata.version)', 'cur_version.is_valid(self.metadata.version)'))
                                            for _st, fx in rfx) \
        and all(valid_known(fx) for _st, fx in exits) and \
        any('is_valid(self.metadata.version)' in unparse(c) and unparse(c.func.value) in ('MetaVersion()', 'cur_version') for c in ast.walk(nvm) if isinstance(c, ast.Call) and call_name(c) == 'is_valid')
    chk.ob('C12.b', 'validate_metadata raises unless current.is_valid(recorded)', vm.where, ok,
           'validate_metadata does not evaluate cur_version.is_valid(self.metadata.version) (direction matters: the recorded moPepGen '
           'version must be the one compared with the minimal version)', key=vm.qual + '::direction', fn=vm.qual)
    iv = repo.func('version:MetaVersion.is_valid')
    chk.uses(iv)
    lits = sem.accept_literals(sem.nf(repo, iv)) or set()
    want_iv = {sem.lit('self.python == version.python'), sem.lit('self.biopython == version.biopython'), sem.lit('self.is_valid_mpg_version(version.mopepgen)')}
    ok = want_iv <= lits
    chk.ob('C12.b', 'is_valid = same python and biopython and recorded moPepGen >= minimal', iv.where, ok,
           f"is_valid can return True without {sorted(want_iv - lits)}", key=iv.qual, fn=iv.qual)
    mv = repo.func('version:MetaVersion.is_valid_mpg_version')
    # value based: the returned comparison, with locals expanded, is get_semver(<given version>) >= get_semver(MINIMAL_VERSION)
    rets_mv = [n for n in ast.walk(mv.node) if isinstance(n, ast.Return)]
    ok_mv = False
    got_mv = None
    if len(rets_mv) == 1 and rets_mv[0].value is not None:
        e_mv = sem.expand_names(mv.node, rets_mv[0], rets_mv[0].value, allow_calls=('get_semver',))
        got_mv = re.sub(r'\b(?:self|MetaVersion)\.get_semver', 'get_semver', unparse(e_mv))
        vp = [a.arg for a in mv.node.args.args if a.arg != 'self']
        ok_mv = len(vp) == 1 and got_mv in (f'get_semver({vp[0]}) >= get_semver(MINIMAL_VERSION)', f'get_semver(MINIMAL_VERSION) <= get_semver({vp[0]})')
        if not ok_mv and len(vp) == 1 and isinstance(e_mv, ast.Compare) and len(e_mv.ops) == 1 and isinstance(e_mv.ops[0], (ast.GtE, ast.LtE)):
            # the same transformation T on both sides (get_semver inlined): T(version) >= T(MINIMAL_VERSION)
            big, small = (e_mv.left, e_mv.comparators[0]) if isinstance(e_mv.ops[0], ast.GtE) else (e_mv.comparators[0], e_mv.left)
            tb = re.sub(r'\b' + re.escape(vp[0]) + r'\b', '@', unparse(big))
            ts = re.sub(r'\bMINIMAL_VERSION\b', '@', unparse(small))
            ok_mv = tb == ts and '@' in tb and 'MINIMAL_VERSION' not in tb and not re.search(r'\b' + re.escape(vp[0]) + r'\b', ts)
    chk.ob('C12.b', 'recorded moPepGen version compared >= MINIMAL_VERSION', mv.where, ok_mv,
           f"minimal-version comparison altered: returns {got_mv}", key=mv.qual, fn=mv.qual)

    # ------------------------------------------------------------------ c
    chk.rule('C12.c', 'fresh registration index; duplicate raises; save registers unless overriding', 4)
    rg = repo.func(IDX + 'IndexMetadata.register_canonical_pool')
    chk.uses(rg)
    nrg = sem.nf(repo, rg)
    chains = sem.block_chains(nrg)
    ctor_sites = sem.facts_where(nrg, lambda st: sem.own_stmt(st) and bool(sem.calls_in_stmt(st, 'CanonicalPoolMetadata')))
    app_sites = sem.facts_where(nrg, lambda st: sem.own_stmt(st) and any(unparse(c.func.value) == 'self.canonical_pools' for c in sem.calls_in_stmt(st, 'append')))
    dup_known = all(sem.known(fx, 'not self.get_canonical_pool(cleavage_params)') is True for _st, fx in ctor_sites + app_sites)
    has_raise = any(isinstance(n, ast.Raise) for n in ast.walk(nrg))

    # E9 partial evaluation of the registration: what index and file name does the new entry get (a) when pools exist, (b) when none does
    from sa.peval import PEval, show as _show12
    def gen_norm(t_):
        t_ = re.sub(r'\b(\w+)\.index for \1 in', '_.index for _ in', t_)
        t_ = re.sub(r'max\(\[(.*?)\]\)', r'max(\1)', t_)
        t_ = re.sub(r'max\(\((.*?)\)\)', r'max(\1)', t_)
        return t_
    MAXP1 = 'max(_.index for _ in self.canonical_pools) + 1'
    pe12 = PEval(record=('CanonicalPoolMetadata',))
    outs12 = [o for o in pe12.run(rg.node, {}) if o.kind == 'return']
    seen12 = []
    ok_idx = ok_fn = bool(outs12)
    for o in outs12:
        cs_ = [c for c in o.calls if c['name'] == 'CanonicalPoolMetadata']
        if len(cs_) != 1:
            ok_idx = ok_fn = False
            continue
        kw = cs_[0]['kwargs']
        idx_v, fn_v = kw.get('index'), kw.get('filename')
        idx_t, fn_t = gen_norm(_show12(idx_v)), gen_norm(_show12(fn_v))
        pools = o.assumed.get('self.canonical_pools')
        seen12.append((pools, idx_t, fn_t))
        if len(outs12) == 1:
            good_i = idx_t == MAXP1 + ' if self.canonical_pools else 1'
        else:
            # the two cases were split by a statement-level test: one outcome starts at 1, the other continues after the maximum
            good_i = idx_v == 1 or idx_t == MAXP1
        ok_idx = ok_idx and good_i
        if isinstance(fn_v, str):
            good_f = idx_v == 1 and fn_v == 'canonical_peptides_001.pkl'
        else:
            m1 = re.match(r"^f'canonical_peptides_\{(.*):03\}\.pkl'$", fn_t)
            m2 = re.match(r"^'canonical_peptides_\{(?:0)?:03\}\.pkl'\.format\((.*)\)$", fn_t)
            m3 = re.match(r"^'canonical_peptides_%03d\.pkl' % \(?(.*?),?\)?$", fn_t)
            m4 = re.match(r"^'canonical_peptides_\{(\w+):03\}\.pkl'\.format\(\1=(.*)\)$", fn_t)
            arg = (m1 or m2 or m3).group(1) if (m1 or m2 or m3) else (m4.group(2) if m4 else None)
            good_f = arg is not None and arg == idx_t
        ok_fn = ok_fn and good_f
    app_ok = len(app_sites) == 1 and len(ctor_sites) == 1 and \
        unparse(kwarg(sem.calls_in_stmt(ctor_sites[0][0], 'CanonicalPoolMetadata')[0], 'cleavage_params')) == 'cleavage_params'
    if len(outs12) > 1:
        ok_idx = ok_idx and sorted(x[1] for x in seen12) == sorted(['1', MAXP1]) and len(outs12) == 2
    chk.ob('C12.c', 'register: raise if the parameters exist; index = max+1', rg.where, dup_known and has_raise and ok_idx,
           f"registration logic altered: (pools exist?, index, file name) = {seen12}; duplicate known absent at registration: {dup_known}", key=rg.qual + '::fresh-index', fn=rg.qual)
    chk.ob('C12.c', 'file name derived from the fresh index; entry appended', rg.where, ok_fn and app_ok,
           f"pool file name is not derived from the fresh index / entry not appended (another entry's file can be overwritten): {seen12}",
           key=rg.qual + '::filename', fn=rg.qual)
    sv = repo.func(IDX + 'IndexDir.save_canonical_peptides')
    chk.uses(sv)
    cfg = CFG(sv.node)
    bad = None
    for p in cfg.paths(cfg.entry, max_paths=200):
        if p.end_kind() == 'raise':
            continue
        registered = p.count(lambda n: n.kind == 'stmt' and 'register_canonical_pool(cleavage_params)' in unparse(n.ast)) == 1
        exists = p.facts.known('pool_metadata')
        over = p.facts.known('override')
        if not registered and not (exists is True and over is True):
            bad = bad or p
        if registered and exists is True and over is True:
            bad = bad or p
    chk.ob('C12.c', 'save registers a new entry unless overriding an existing one', sv.where, bad is None,
           'a path of save_canonical_peptides writes a pool file without registering it (or re-registers while overriding)',
           key=sv.qual + '::register-or-override', path=bad.describe(sv.module.relpath) if bad else None, fn=sv.qual)
    w = [unparse(c.args[0]) for c in G.find_calls(sv.node, 'open')]
    chk.ob('C12.c', 'pool is written to the file of the resolved entry', sv.where, w == ['self.path / pool_metadata.filename'],
           f"save opens {w}", key=sv.qual + '::path', fn=sv.qual)

    # ------------------------------------------------------------------ d
    chk.rule('C12.d', 'save/load symmetry; metadata persisted with every new registration', 7)
    pairs = [('genome', 'self.genome_file'), ('proteome', 'self.proteome_file'), ('coding_tx', 'self.coding_tx_file')]
    for nm, path in pairs:
        s_ = repo.func(IDX + f'IndexDir.save_{nm}')
        l_ = repo.func(IDX + f'IndexDir.load_{nm}')
        chk.uses(s_, l_)
        so = [(unparse(c.args[0]), ast.literal_eval(c.args[1])) for c in G.find_calls(s_.node, 'open')]
        lo = [(unparse(c.args[0]), ast.literal_eval(c.args[1])) for c in G.find_calls(l_.node, 'open')]
        ok = so == [(path, 'wb')] and lo == [(path, 'rb')] and any(call_name(c) == 'dump' for c in G.find_calls(s_.node)) \
            and any(call_name(c) == 'load' for c in G.find_calls(l_.node))
        chk.ob('C12.d', f"save_{nm}/load_{nm} use {path} with pickle dump/load", s_.where, ok, f"save opens {so}, load opens {lo}", key=IDX + f'{nm}::symmetry')
    lc = repo.func(IDX + 'IndexDir.load_canonical_peptides')
    chk.uses(lc)
    t = unparse(lc.node)
    ok = 'pool_data = self.metadata.get_canonical_pool(cleavage_params)' in t and 'if not pool_data:\n        raise ValueError' in t \
        and "open(self.path / pool_data.filename, 'rb')" in t
    chk.ob('C12.d', 'load_canonical_peptides: lookup by parameters, raise when absent, read that entry\'s file', lc.where, ok,
           'canonical pool loading does not go through the parameter lookup / does not reject a missing pool', key=lc.qual, fn=lc.qual)
    # metadata saved whenever a new pool is registered
    ui = repo.func('cli.update_index:update_index')
    cfg = CFG(ui.node)
    bad = None
    for p in cfg.paths(cfg.entry, max_paths=2000):
        if p.end_kind() == 'raise':
            continue
        if p.count(lambda n: n.kind == 'stmt' and 'sys.exit' in unparse(n.ast)):
            continue
        saved_pool = p.count(lambda n: n.kind == 'stmt' and 'save_canonical_peptides' in unparse(n.ast))
        saved_meta = p.count(lambda n: n.kind == 'stmt' and 'save_metadata()' in unparse(n.ast))
        exists = p.facts.known('pool_exists')
        if saved_pool and exists is not True and not saved_meta:
            bad = bad or p
    chk.ob('C12.d', 'updateIndex persists metadata whenever the pool did not exist before', ui.where, bad is None,
           'a path saves a pool for new parameters without saving metadata.json (the pool file is orphaned and later loads fail / the file is overwritten)',
           key=ui.qual + '::save-metadata', path=bad.describe(ui.module.relpath) if bad else None, fn=ui.qual)
    pe = [n for n in walk_no_nested(ui.node) if isinstance(n, ast.Assign) and unparse(n.targets[0]) == 'pool_exists']
    chk.ob('C12.d', 'pool_exists = lookup by the requested parameters', ui.where,
           len(pe) == 1 and unparse(pe[0].value) == 'index_dir.metadata.get_canonical_pool(cleavage_params) is not None',
           'pool_exists is not the parameter lookup', key=ui.qual + '::pool_exists', fn=ui.qual)
    gi = repo.func('cli.generate_index:generate_index')
    cfg = CFG(gi.node)
    sm = [n.id for n in cfg.nodes if n.kind == 'stmt' and norm_stmt(n.ast) == 'index_dir.save_metadata()']
    sp = [n.id for n in cfg.nodes if n.kind == 'stmt' and 'save_canonical_peptides' in unparse(n.ast)]
    ok = len(sm) == 1 and len(sp) == 1 and cfg.dominates(sp[0], sm[0]) and all(l in ('fallthrough',) for (l, _p) in cfg.pred[cfg.exit] if _p == sm[0])
    chk.ob('C12.d', 'generateIndex saves metadata after the pool was registered', gi.where, ok,
           'generateIndex does not persist metadata after registering the pool', key=gi.qual + '::save-metadata', fn=gi.qual)
    # force: wipe + reinit together
    wi = [norm_stmt(s) for s in ast.walk(gi.node) if isinstance(s, ast.If) and unparse(s.test) == 'args.force' for s in s.body]
    chk.ob('C12.d', '--force wipes pool files and re-initialises metadata together', gi.where,
           wi == ['index_dir.wipe_canonical_peptides()', 'index_dir.init_metadata()'], f"--force branch: {wi}", key=gi.qual + '::force', fn=gi.qual)
    # ------------------------------------------------------------------ shared: option plumbing by name
    from rules.shared import optname
    chk.clauses.append('C12.e (shared R-THREAD) an option value bound to a name that is itself a CLI option carries that very option')
    optname(chk, repo, 'C12.e', ['cli.generate_index', 'cli.update_index'], floor=0)
    from rules.shared import kwname
    chk.clauses.append('C12.kw (shared R-THREAD) parameters handed on as keyword arguments keep their name: no `a=b` between two parameters of one function')
    kwname(chk, repo, 'C12.kw', ['index', 'params'], floor=0)
    saved_before_mutation(chk, repo, 'C12.f')


def fstr(node):
    if node is None:
        return None
    if isinstance(node, ast.JoinedStr):
        out = ''
        for v in node.values:
            if isinstance(v, ast.Constant):
                out += v.value
            else:
                spec = ''
                if v.format_spec is not None:
                    spec = ':' + ''.join(x.value for x in v.format_spec.values if isinstance(x, ast.Constant))
                out += '{' + unparse(v.value) + spec + '}'
        return out
    return unparse(node)


def restore_rule(chk, repo, lm):
    """every CanonicalPoolMetadata built by load_metadata gets cleavage_params = CleavageParams(**<entry>['cleavage_params']) where
    <entry> ranges over <loaded json>['canonical_pools'] (loop or comprehension variable); names are expanded to their definitions"""
    from sa import sem
    ctor = [c for c in ast.walk(lm.node) if isinstance(c, ast.Call) and call_name(c) == 'CanonicalPoolMetadata']
    if not ctor:
        chk.undecided('C12.a', 'metadata restore', lm.where, 'load_metadata builds no CanonicalPoolMetadata')
        return None
    cfi = repo.func(IDX + 'CanonicalPoolMetadata.__init__')
    ok = True
    for c in ctor:
        v = kwarg(c, 'cleavage_params')
        if v is None:
            ps = [p for p in cfi.params() if p != 'self']
            i = ps.index('cleavage_params') if 'cleavage_params' in ps else None
            v = c.args[i] if i is not None and i < len(c.args) and not any(isinstance(a, ast.Starred) for a in c.args) else None
        if v is None:
            ok = False
            continue
        st = repo.enclosing_stmt(c)
        v = sem.expand_names(lm.node, st, v, allow_calls=('CleavageParams', 'load'))
        good = isinstance(v, ast.Call) and call_name(v) == 'CleavageParams' and not v.args and len(v.keywords) == 1 and v.keywords[0].arg is None
        src = v.keywords[0].value if good else None
        good = good and isinstance(src, ast.Subscript) and isinstance(src.value, ast.Name) and isinstance(src.slice, ast.Constant) \
            and src.slice.value == 'cleavage_params'
        if good:
            # the entry variable is bound by a for / comprehension over <json>['canonical_pools']
            var, bound = src.value.id, False
            for n in ast.walk(lm.node):
                its = [(n.target, n.iter, n)] if isinstance(n, ast.For) else \
                    ([(g.target, g.iter, n) for g in n.generators] if isinstance(n, (ast.ListComp, ast.GeneratorExp, ast.SetComp)) else [])
                for tgt, it, owner in its:
                    if isinstance(tgt, ast.Name) and tgt.id == var and any(x is c for x in ast.walk(owner)):
                        ost = owner if isinstance(owner, ast.stmt) else repo.enclosing_stmt(owner)
                        it2 = sem.expand_names(lm.node, ost, it, keep=(var,))
                        bound = isinstance(it2, ast.Subscript) and isinstance(it2.slice, ast.Constant) and it2.slice.value == 'canonical_pools'
            good = bound
        ok = ok and good
    return ok


def full_compare(chk, repo, rid, gp):
    """get_canonical_pool evaluated: every entry it can return is an element of self.canonical_pools for which the complete
    jsonfy(graph_params=False) dictionary of the request equals that of the entry; None otherwise.  Two shapes are read from the
    evaluated outcomes: the search loop (return under the equality) and next(<generator with the equality as filter>, None)."""
    from sa.peval import PEval, Unk, show
    REQ = 'cleavage_params.jsonfy(graph_params=False)'
    def is_eq(text, item):
        ent = f"{item}.cleavage_params.jsonfy(graph_params=False)"
        return text.replace(' ', '') in ((REQ + '==' + ent).replace(' ', ''), (ent + '==' + REQ).replace(' ', ''))
    try:
        outs = PEval(split_unknown=True).run(gp.node, {})
    except (ValueError, OverflowError) as e:
        chk.undecided(rid, "lookup comparison", gp.where, f"get_canonical_pool cannot be evaluated: {e}")
        return None
    rets = [o for o in outs if o.kind == 'return']
    if any(o.kind == 'fall' for o in outs):
        rets.append(None)
    hits = [o for o in rets if o is not None and o.value is not None]
    if not hits:
        return False
    ok = True
    for o in hits:
        t = show(o.value)
        if t == '<item of self.canonical_pools>':
            conds = [k for k, v in o.assumed.items() if v is True and k != '<loop not entered>']
            neg = [k for k, v in o.assumed.items() if v is False]
            ok = ok and len(conds) == 1 and not neg and is_eq(conds[0], t)
            continue
        try:
            e = ast.parse(t, mode='eval').body
        except SyntaxError:
            e = None
        if isinstance(e, ast.Call) and unparse(e.func) == 'next' and len(e.args) == 2 and unparse(e.args[1]) == 'None' \
                and isinstance(e.args[0], ast.GeneratorExp) and len(e.args[0].generators) == 1:
            g = e.args[0].generators[0]
            ok = ok and isinstance(g.target, ast.Name) and unparse(e.args[0].elt) == g.target.id and unparse(g.iter) == 'self.canonical_pools' \
                and len(g.ifs) == 1 and is_eq(unparse(g.ifs[0]), g.target.id)
            continue
        chk.undecided(rid, "lookup comparison", gp.where, f"get_canonical_pool returns `{t[:120]}`: neither the search loop nor next(<filtered generator>, None)")
        return None
    if not any(o is None or o.value is None for o in rets) and not any('next(' in show(o.value) for o in hits):
        ok = False
    return ok


def lookup_key_rules(chk, repo, rid):
    """Pool lookup key == digest parameters; lookup compares complete keys (shared with C04)."""
    js = repo.func('params:CleavageParams.jsonfy')
    pool = repo.func('aa.AminoAcidSeqDict:AminoAcidSeqDict.create_unique_peptide_pool')
    chk.uses(js, pool)
    from sa.peval import PEval, Unk, known, repo_consts, show
    base = graph = None
    try:
        pe = PEval(resolve_const=repo_consts(repo, js.module), split_unknown=False, unroll=True)
        outs = {}
        for flag in (False, True):
            rs = [o for o in pe.run(js.node, {'graph_params': flag}) if o.kind == 'return']
            if len(rs) != 1 or not isinstance(rs[0].value, dict):
                raise ValueError(f"jsonfy(graph_params={flag}) does not evaluate to one dictionary with constant keys")
            outs[flag] = {k: show(v) for k, v in rs[0].value.items()}
        base = outs[False]
        graph = [k for k in outs[True] if k not in base]
        if any(outs[True].get(k) != v for k, v in base.items()):
            raise ValueError('jsonfy(graph_params=True) does not extend jsonfy(graph_params=False)')
    except (ValueError, OverflowError) as e:
        chk.undecided(rid, "jsonfy key dictionary", js.where, f"CleavageParams.jsonfy cannot be evaluated to its key dictionary: {e}")
        base, graph = None, None
    dig = [p for p in pool.params() if p not in ('self', 'anno')]
    want = {('enzyme' if p == 'rule' else p) for p in dig}
    chk.ob(rid, 'base key set == parameters of create_unique_peptide_pool (rule->enzyme)', js.where,
           base is not None and set(base) == want and all(v == f"self.{k}" for k, v in base.items()),
           f"lookup key {sorted(base or {})} vs digest parameters {sorted(want)}: a parameter that changes the pool is not part of the key "
           "(pools built with other parameters are returned) or a key is not read from its own attribute", key=js.qual + '::base-keys', fn=js.qual)
    chk.ob(rid, 'graph-only knobs are excluded from the lookup key', js.where,
           graph is not None and not (set(graph) & want) and len(graph) == 4,
           f"graph keys {graph}", key=js.qual + '::graph-keys', fn=js.qual)
    gp = repo.func(IDX + 'IndexMetadata.get_canonical_pool')
    chk.uses(gp)
    ok = full_compare(chk, repo, rid, gp)
    if ok is None:
        return dig
    chk.ob(rid, 'lookup compares the full key dictionaries of request and entry', gp.where, ok,
           'get_canonical_pool no longer compares the complete jsonfy(graph_params=False) dictionaries (partial key => pools of other parameter sets match)',
           key=gp.qual + '::full-compare', fn=gp.qual)
    return dig

def saved_before_mutation(chk, repo, rid):
    """R-ORDER: generateIndex stores the proteome it READ.  Two later steps change the in-memory proteome (check_protein_coding removes
    entries containing '*', create_unique_peptide_pool strips / truncates the sequences of its entries in place), so save_proteome must
    come before every call that is handed the proteome and modifies it.  Which callees modify their argument is read from their
    bodies (stores to attributes of the entries, pop / del on the mapping), not from a list."""
    chk.rule(rid, 'R-ORDER: the proteome is saved before any step that modifies it in memory', 2)
    chk.clauses.append('C12.f generateIndex saves the proteome before the steps that change it in memory (entries removed by check_protein_coding, sequences trimmed by create_unique_peptide_pool): the stored proteome is the one that was given')
    g = repo.func('cli.generate_index:generate_index')
    chk.uses(g)
    cfg = CFG(g.node)
    saves = [n.id for n in cfg.nodes if n.kind == 'stmt' and any(call_name(c) == 'save_proteome' for c in G.find_calls(n.ast))]
    if len(saves) != 1:
        chk.undecided(rid, 'save_proteome', g.where, f"{len(saves)} save_proteome calls", key=g.qual + '::save', fn=g.qual)
        return
    sv = [c for c in G.find_calls(g.node, 'save_proteome')][0]
    P = unparse(sv.args[0]) if sv.args else 'proteome'

    def mutates(fn, who, depth=2):
        """does fn change the mapping `who` or its entries in place (directly, or by handing it to a callee that does)?"""
        if depth > 0:
            for c_ in ast.walk(fn):
                if isinstance(c_, ast.Call):
                    for k_, a_ in list(enumerate(c_.args)) + [(kw.arg, kw.value) for kw in c_.keywords]:
                        if isinstance(a_, ast.Name) and a_.id == who and call_name(c_):
                            for q_, f_ in repo.functions.items():
                                if q_.split(':')[1].split('.')[-1] == call_name(c_) and not f_.module.modname.startswith('util') and f_.node is not fn:
                                    ps_ = [x.arg for x in f_.node.args.args]
                                    off_ = 1 if ps_ and ps_[0] in ('self', 'cls') else 0
                                    w_ = k_ if isinstance(k_, str) else (ps_[k_ + off_] if k_ + off_ < len(ps_) else None)
                                    if w_ in ps_:
                                        r_ = mutates(f_.node, w_, depth - 1)
                                        if r_:
                                            return r_ + f" (via {f_.qual.split(':')[1]})"
        entries = set()
        for n in ast.walk(fn):
            if isinstance(n, ast.Assign) and isinstance(n.value, ast.Call) and call_name(n.value) in ('next', 'iter') and who in unparse(n.value):
                for t in n.targets:
                    if isinstance(t, ast.Name):
                        entries.add(t.id)
            if isinstance(n, (ast.For, ast.comprehension)) and who in unparse(n.iter):
                entries |= {t.id for t in ast.walk(n.target) if isinstance(t, ast.Name)}
        for _ in range(3):
            for n in ast.walk(fn):
                if isinstance(n, ast.Assign) and isinstance(n.value, ast.Call) and call_name(n.value) == 'next' and any(isinstance(x, ast.Name) and x.id in entries for x in ast.walk(n.value)):
                    entries |= {t.id for t in n.targets if isinstance(t, ast.Name)}
        for n in ast.walk(fn):
            if isinstance(n, ast.Assign):
                for t in n.targets:
                    if isinstance(t, ast.Attribute) and isinstance(t.value, ast.Name) and t.value.id in entries:
                        return f"`{norm_stmt(n)}`"
                    if isinstance(t, ast.Subscript) and unparse(t.value) == who:
                        return f"`{norm_stmt(n)}`"
            if isinstance(n, ast.Call) and isinstance(n.func, ast.Attribute) and unparse(n.func.value) == who and n.func.attr in ('pop', 'popitem', 'clear', 'update', 'setdefault'):
                return f"`{unparse(n)}`"
            if isinstance(n, ast.Delete) and any(isinstance(t, ast.Subscript) and unparse(t.value) == who for t in n.targets):
                return f"`{norm_stmt(n)}`"
        return None
    n_mut = 0
    for nd in cfg.nodes:
        if nd.kind != 'stmt':
            continue
        for c in G.find_calls(nd.ast):
            nm = call_name(c)
            if nm in ('save_proteome', 'dump_fasta'):
                continue
            callee, who = None, None
            if isinstance(c.func, ast.Attribute) and unparse(c.func.value) == P:
                cands = [f_ for q_, f_ in repo.functions.items() if q_.endswith('.' + nm) and q_.startswith('aa.AminoAcidSeqDict:')]
                callee, who = (cands[0] if cands else None), 'self'
            else:
                for k, a in list(enumerate(c.args)) + [(kw.arg, kw.value) for kw in c.keywords]:
                    if unparse(a) == P:
                        cands = [f_ for q_, f_ in repo.functions.items() if q_.split(':')[1].split('.')[-1] == nm and not f_.module.modname.startswith('util')]
                        if cands:
                            # several classes may define the method: any definition that modifies the argument counts
                            callee = next((c_ for c_ in cands if (k if isinstance(k, str) else None) in [x.arg for x in c_.node.args.args] or not isinstance(k, str)), cands[0])
                            ps = [x.arg for x in callee.node.args.args]
                            if isinstance(k, str):
                                who = k
                            else:
                                off = 1 if ps and ps[0] in ('self', 'cls') else 0
                                who = ps[k + off] if k + off < len(ps) else None
            if callee is None or who is None:
                continue
            why = mutates(callee.node, who)
            if why is None:
                continue
            n_mut += 1
            chk.ob(rid, f"save_proteome({P}) comes before {nm}(...), which modifies the proteome ({why})", repo.loc(g, c), cfg.dominates(saves[0], nd.id),
                   f"{nm}(...) changes the proteome in memory ({why} in {callee.qual}) and is not preceded by save_proteome on every path: the stored proteome is not the one that was given "
                   "(entries with a leading / internal X are stored trimmed, entries containing '*' can be missing)", key=g.qual + f'::saved-before::{nm}', fn=g.qual)
    chk.extra['proteome_mutating_calls'] = n_mut

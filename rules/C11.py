"""C11 - reference model consistency.

a R-AFFINE-INV   gene<->genomic conversions are affine inverses on both strands
b R-AFFINE-EQV   feature / variant interval mappings equal the definitional half-open map per strand
c R-GUARD        get_transcript_index: intronic positions raise, range pre-check dominates
d R-ORDER/LOCKSTEP cache typestate of the pointer dicts (register after load, pairwise eviction)
e R-KEYS         GTF writer/reader and index writer/reader agreement
f R-SIBLING      on-disk and in-memory model construction follow the same steps
"""
import ast
import re
from sa.model import unparse, norm_stmt, call_name, kwarg, walk_no_nested, AnalysisError, str_consts
from sa.cfg import CFG, literal
from sa import guards as G
from sa.affine import Interp, Aff, Obj, model_g2gene, model_gene2g, lift, equal_mod

GA = 'gtf.GenomicAnnotation:GenomicAnnotation.'


def gene_canon(text: str) -> str:
    """Canonical names for the gene's genomic bounds."""
    t = text
    m = re.fullmatch(r'(self\.genes\[[^\]]+\]|gene_model)\.location\.(start|end)', t)
    if m:
        return 'S' if m.group(2) == 'start' else 'E'
    return t


def strand_like(t: str) -> bool:
    return t.split('.')[-1] == 'strand' or t == 'strand'


def run_both(fn, models=None, canon=gene_canon, record=('FeatureLocation',), cond_filter=None, init=None):
    out = {}
    for s in (1, -1):
        it = Interp(s, call_models=models or {}, canon=canon, record=record, is_strand=strand_like, cond_filter=cond_filter)
        out[s] = it.run_function(fn, init)
    return out


def run(chk, repo):
    chk.clauses = [
        'C11.a coordinate_genomic_to_gene and coordinate_gene_to_genomic are the definitional affine maps and mutual inverses on both strands; unstranded raises',
        'C11.b feature_coordinate_* and variant_coordinates_to_gene map half-open intervals to the definitional interval on both strands',
        'C11.c get_transcript_index: every non-exonic branch raises the intron error; the range pre-check dominates',
        'C11.i transcript<->genomic through the exon loops: for sorted, non-empty exons separated by at least one intronic base, one iteration of '
        'get_transcript_index / coordinate_transcript_to_genomic has the definitional effect on every path (passed exon: accumulate its length; '
        'exit exon: the offset into it; intronic position: raise), so the two functions are mutual inverses on exonic positions of both strands '
        'for any number of exons (affine iteration summaries, sign decisions over a cone)',
        'C11.d pointer-dict cache: bookkeeping only after a successful load; eviction and insertion are pairwise',
        'C11.e GTF and index writers/readers agree on offsets, symbols, keys and column order',
        'C11.f on-disk and in-memory transcript models are built through the same steps',
        'C11.h every feature list of a transcript model is sorted after its last producer (so the model is independent of the record order of the GTF); '
        'index offsets are byte counts of the raw lines',
    ]
    chk.not_decided = ['sequence extraction and CDS/Sec inference', 'exon models with adjacent (gap-free) or overlapping exons (C11.i assumes sorted exons separated by >= 1 intronic base)']
    S, E, X = Aff.sym('S'), Aff.sym('E'), Aff.sym('index')

    # ------------------------------------------------------------------ a
    chk.rule('C11.a', 'R-AFFINE-INV: gene<->genomic conversions are the definitional affine maps, inverse on both strands', 7)
    g2gene = repo.func(GA + 'coordinate_genomic_to_gene')
    gene2g = repo.func(GA + 'coordinate_gene_to_genomic')
    chk.uses(g2gene, gene2g)
    forms = {}
    for f, name, want in ((g2gene, 'g2gene', {1: X - S, -1: E - 1 - X}), (gene2g, 'gene2g', {1: S + X, -1: E - 1 - X})):
        res = run_both(f.node)
        from sa import sem as _sem11
        _tabs = _sem11.module_tables(f.module)

        def _spec(sv, f=f, _tabs=_tabs):
            return _sem11.specialise(f.node, lambda t, sv=sv: sv if strand_like(t) else None, tables=_tabs)
        for s in (1, -1):
            rets = [p for p in res[s] if p.end == 'return']
            if not (len(rets) >= 1 and all(isinstance(p.ret, Aff) and p.ret == want[s] for p in rets)):
                # dispatch through a table / lambdas: specialise the function on the strand (E10: exact restriction of the function to this
                # strand) and interpret that
                it_ = Interp(s, call_models={}, canon=gene_canon, record=('FeatureLocation',), is_strand=strand_like)
                res[s] = it_.run_function(_spec(s), None)
                rets = [p for p in res[s] if p.end == 'return']
            ok = len(rets) >= 1 and all(isinstance(p.ret, Aff) and p.ret == want[s] for p in rets)
            forms[(name, s)] = rets[0].ret if rets else None
            chk.ob('C11.a', f"{f.name} strand {s:+d} returns {want[s]!r}", f.where, ok,
                   f"{f.name} on strand {s:+d} returns {[repr(p.ret) for p in rets]}, definitional form is {want[s]!r}",
                   key=f"{f.qual}::form::{s:+d}", fn=f.qual)
        # unstranded: with the strand replaced by 0 and folded, no return is left and the function ends in a raise
        un = _spec(0)
        last = f.node.body[-1]
        chk.ob('C11.a', f"{f.name} raises for unstranded genes", repo.loc(f, last),
               isinstance(un.body[-1], ast.Raise) and not any(isinstance(x, ast.Return) for x in ast.walk(un)),
               f"{f.name} does not end in a raise for unstranded genes", key=f"{f.qual}::unstranded", fn=f.qual)
    for s in (1, -1):
        a, b = forms.get(('g2gene', s)), forms.get(('gene2g', s))
        ok = a is not None and b is not None and a.subst({'index': b}) == X and b.subst({'index': a}) == X
        chk.ob('C11.a', f"g2gene o gene2g = id = gene2g o g2gene on strand {s:+d}", g2gene.where, ok,
               f"compositions on strand {s:+d}: {a!r} o {b!r} are not the identity", key=f"{GA}coordinate::inverse::{s:+d}")
    # range pre-check of g2gene raises
    cfg = CFG(g2gene.node)
    first = next((st for st in g2gene.node.body if isinstance(st, ast.If)), None)
    ok = isinstance(first, ast.If) and G.block_leaves(first.body) and \
        unparse(first.test).replace(' ', '') in ('notgene_location.start<=index<gene_location.end',)
    chk.ob('C11.a', 'positions outside the gene are rejected before conversion', g2gene.where, ok,
           'the range pre-check of coordinate_genomic_to_gene was altered (half-open gene interval)', key=g2gene.qual + '::range-check', fn=g2gene.qual)

    # ------------------------------------------------------------------ b
    chk.rule('C11.b', 'R-AFFINE-EQV: interval mappings equal the definitional half-open map on both strands', 6)
    models = {'coordinate_genomic_to_gene': model_g2gene(), 'coordinate_gene_to_genomic': model_gene2g()}
    a_, b_ = Aff.sym('feature.location.start'), Aff.sym('feature.location.end')
    want = {
        'feature_coordinate_gene_to_genomic': {1: (S + a_, S + b_), -1: (E - b_, E - a_)},
        'feature_coordinate_genomic_to_gene': {1: (a_ - S, b_ - S), -1: (E - b_, E - a_)},
    }
    for name, w in want.items():
        f = repo.func(GA + name)
        chk.uses(f)
        res = run_both(f.node, models)
        for s in (1, -1):
            locs = [l for p in res[s] for l in p.locs]
            got = sorted({(l['kwargs'].get('start'), l['kwargs'].get('end')) for l in locs}, key=repr)
            ok = len(got) == 1 and got[0][0] == w[s][0] and got[0][1] == w[s][1]
            chk.ob('C11.b', f"{name} strand {s:+d}: [{w[s][0]!r}, {w[s][1]!r})", f.where, ok,
                   f"{name} on strand {s:+d} builds {got}, definitional interval is [{w[s][0]!r}, {w[s][1]!r}) "
                   "(length-preserving, strand-corrected)", key=f"{f.qual}::interval::{s:+d}", fn=f.qual)
    # variant_coordinates_to_gene (non end-inclusion path): oriented -> oriented
    f = repo.func(GA + 'variant_coordinates_to_gene')
    chk.uses(f)

    def vmodels():
        m = dict(models)

        def t2g(interp, p, c, args, kwargs):
            x = kwargs.get('index', args[0])
            return Aff.sym(f"T({lift(x)!r})")
        m['coordinate_transcript_to_genomic'] = t2g
        return m

    def cf(text):
        if text.startswith('variant.is_end_inclusion()'):
            return False
        if text == 'end_gene - start_gene != end - start':
            return False
        if text in ("'GENE_ID' in attrs",):
            return False
        if 'not in self.genes[gene_id].transcripts' in text:
            return False
        return None
    res = run_both(f.node, vmodels(), cond_filter=cf)
    t1, t2 = Aff.sym('T(variant.location.start)'), Aff.sym('T(variant.location.end-1)')
    wv = {1: (t1 - S, t2 - S + 1), -1: (E - 1 - t1, E - t2)}
    for s in (1, -1):
        locs = [l for p in res[s] if p.end == 'return' for l in p.locs]
        got = sorted({(l['kwargs'].get('start'), l['kwargs'].get('end')) for l in locs}, key=repr)
        ok = len(got) == 1 and got[0][0] == wv[s][0] and got[0][1] == wv[s][1]
        chk.ob('C11.b', f"variant_coordinates_to_gene strand {s:+d}: [G(T(start)), G(T(end-1))+1)", f.where, ok,
               f"variant_coordinates_to_gene on strand {s:+d} builds {got}; expected [{wv[s][0]!r}, {wv[s][1]!r}) "
               "(transcript and gene coordinates both run along the strand: the two swaps must cancel)",
               key=f"{f.qual}::interval::{s:+d}", fn=f.qual)

    # ------------------------------------------------------------------ c
    chk.rule('C11.c', 'R-GUARD: out-of-range genomic positions raise in get_transcript_index', 1)
    f = repo.func('gtf.TranscriptAnnotationModel:TranscriptAnnotationModel.get_transcript_index')
    chk.uses(f)
    body = f.node.body
    first = next((s for s in body if isinstance(s, ast.If)), None)
    t = unparse(first.test).replace(' ', '') if first is not None else ''
    ok = first is not None and G.block_leaves(first.body) and isinstance(first.body[-1], ast.Raise) and \
        t == 'genomic_index<self.exon[0].location.startorgenomic_index>=self.exon[-1].location.end'
    chk.ob('C11.c', 'range pre-check raises for positions outside [first exon start, last exon end)', f.where, ok,
           f"range pre-check is '{unparse(first.test) if first is not None else None}'", key=f.qual + '::range', fn=f.qual)
    exon_loop_inverse(chk, repo, 'C11.i')

    # ------------------------------------------------------------------ d
    cache_typestate(chk, repo, 'C11.d')

    # ------------------------------------------------------------------ e
    chk.rule('C11.e', 'R-KEYS: GTF / index writer-reader agreement', 8)
    rd = repo.func('gtf.GtfIO:line_to_seq_feature')
    wr = repo.func('gtf.GtfIO:to_gtf_record')
    chk.uses(rd, wr)
    loc = [c for c in G.find_calls(rd.node, 'FeatureLocation')]
    ok = len(loc) == 1 and unparse(kwarg(loc[0], 'start')) == 'int(fields[3]) - 1' and unparse(kwarg(loc[0], 'end')) == 'int(fields[4])' \
        and unparse(kwarg(loc[0], 'seqname')) == 'fields[0]'
    chk.ob('C11.e', 'reader: start = col4 - 1, end = col5 (half-open)', rd.where, ok, 'GTF reader offsets altered', key=rd.qual + '::offsets', fn=rd.qual)
    rec = None
    for n in walk_no_nested(wr.node):
        if isinstance(n, ast.Assign) and unparse(n.targets[0]) == 'record_data' and isinstance(n.value, ast.List):
            rec = [unparse(e) for e in n.value.elts]
    ok = rec is not None and len(rec) == 9 and rec[0] == 'record.chrom' and rec[2] == 'record.type' and \
        rec[3] == 'str(int(record.location.start) + 1)' and rec[4] == 'str(int(record.location.end))' and rec[6] == 'strand' and rec[7] == 'frame' and rec[8] == 'attrs'
    chk.ob('C11.e', 'writer: col4 = start + 1, col5 = end; 9 columns in GTF order', wr.where, ok,
           f"GTF writer columns {rec}", key=wr.qual + '::columns', fn=wr.qual)
    # field indices used by the reader
    idx = sorted({int(unparse(n.slice)) for n in ast.walk(rd.node) if isinstance(n, ast.Subscript) and unparse(n.value) == 'fields'
                  and isinstance(n.slice, ast.Constant)})
    chk.ob('C11.e', 'reader consumes columns 0,2,3,4,6,7,8', rd.where, idx == [0, 2, 3, 4, 6, 7, 8], f"reader uses columns {idx}",
           key=rd.qual + '::columns', fn=rd.qual)
    # strand symbols
    wsyms = {}
    for n in walk_no_nested(wr.node):
        if isinstance(n, ast.If) and unparse(n.test) == 'record.strand == 1':
            wsyms[1] = str_consts(n.body[0])
            if n.orelse and isinstance(n.orelse[0], ast.If) and unparse(n.orelse[0].test) == 'record.strand == -1':
                wsyms[-1] = str_consts(n.orelse[0].body[0])
    rmap = None
    for n in ast.walk(rd.node):
        if isinstance(n, ast.Dict) and all(isinstance(k, ast.Constant) and k.value in ('+', '-', '?') for k in n.keys):
            rmap = {k.value: ast.literal_eval(v) for k, v in zip(n.keys, n.values)}
    ok = wsyms.get(1) == ['+'] and wsyms.get(-1) == ['-'] and rmap is not None and rmap.get('+') == 1 and rmap.get('-') == -1
    chk.ob('C11.e', 'strand symbols agree (+ <-> 1, - <-> -1)', wr.where, ok, f"writer {wsyms}, reader {rmap}", key='gtf.GtfIO::strand-symbols')
    # is_protein_coding: the writer emits the text the model reader compares with ('true'), under the attribute name the GTF reader keeps
    from sa import sem as _se
    from sa.peval import PEval as _PE, Tmpl as _Tm, show as _psh
    # E9: the line to_gtf_record returns for is_protein_coding = True / False / None, on every outcome
    ok = True
    wdetail = ''
    for flag, want in ((True, ' is_protein_coding true;'), (False, ' is_protein_coding false;'), (None, None)):
        try:
            wo = [o for o in _PE(split_unknown=True).run(wr.node, {'is_protein_coding': flag}) if o.kind == 'return']
        except (ValueError, OverflowError):
            wo = []
        if not wo or not all(isinstance(o.value, _Tm) for o in wo):
            chk.undecided('C11.e', 'GTF writer', wr.where, 'to_gtf_record does not evaluate to string templates')
            ok = False
            break
        for o in wo:
            last = o.value.split('\t')[-1]
            consts = ''.join(x for x in last.parts if isinstance(x, str))
            good = (want is None and 'is_protein_coding' not in _psh(last)) or \
                (want is not None and consts.count('is_protein_coding') == 1 and isinstance(last.parts[-1], str) and last.parts[-1].endswith(want))
            if not good and ok:
                ok = False
                wdetail = f"with is_protein_coding={flag} the attribute column is `{_psh(last)[-80:]}`"
    # the model reader compares the kept attribute with 'true'
    tam = repo.func('gtf.TranscriptAnnotationModel:TranscriptAnnotationModel.add_transcript_record') if 'gtf.TranscriptAnnotationModel:TranscriptAnnotationModel.add_transcript_record' in repo.functions else None
    # the reader's keep-set: the collection the attribute keys are tested against
    keep = None
    for nd in ast.walk(rd.node):
        if isinstance(nd, ast.Compare) and len(nd.ops) == 1 and isinstance(nd.ops[0], (ast.In, ast.NotIn)):
            coll = nd.comparators[0]
            if isinstance(coll, ast.Name):
                stc = repo.enclosing_stmt(nd)
                coll = _se.nearest_def(rd.node, stc, coll.id, _se.block_chains(rd.node)) or rd.module.constants.get(coll.id) or coll
            if isinstance(coll, (ast.List, ast.Tuple, ast.Set)) and all(isinstance(e, ast.Constant) and isinstance(e.value, str) for e in coll.elts) \
                    and any(e.value == 'gene_id' for e in coll.elts):
                keep = [e.value for e in coll.elts]
    chk.ob('C11.e', "is_protein_coding written as true/false and kept by the reader", wr.where, ok and keep is not None and 'is_protein_coding' in keep,
           f"is_protein_coding attribute writer/reader disagree ({wdetail}; reader keeps {keep})", key='gtf.GtfIO::is_protein_coding')
    must_keep = {'gene_id', 'transcript_id', 'protein_id', 'gene_name', 'gene_type', 'gene_biotype', 'tag', 'is_protein_coding'}
    chk.ob('C11.e', 'reader keeps every attribute the models use', rd.where, keep is not None and must_keep <= set(keep),
           f"attributes dropped by the reader: {sorted(must_keep - set(keep or []))}", key=rd.qual + '::attributes_to_keep', fn=rd.qual)
    # index files
    gol = repo.func('gtf.GenomicAnnotationOnDisk:GenomicAnnotationOnDisk.load_index')
    chk.uses(gol)
    for ptr, ctor, cols in (('GenePointer', 'GenePointer', ['self.key', 'str(self.start)', 'str(self.end)', "','.join(self.transcripts)"]),
                            ('TranscriptPointer', 'TranscriptPointer', ['self.key', 'str(self.start)', 'str(self.end)', 'str(self.is_protein_coding)'])):
        tl = repo.func(f'gtf.GTFPointer:{ptr}.to_line')
        chk.uses(tl)
        fields = None
        for n in walk_no_nested(tl.node):
            if isinstance(n, ast.Assign) and unparse(n.targets[0]) == 'fields' and isinstance(n.value, ast.List):
                fields = [unparse(e) for e in n.value.elts]
        calls = G.find_calls(gol.node, ctor)
        okr = False
        if len(calls) == 1:
            c = calls[0]
            okr = unparse(kwarg(c, 'key')) == 'fields[0]' and unparse(kwarg(c, 'start')) == 'int(fields[1])' and unparse(kwarg(c, 'end')) == 'int(fields[2])'
            if ptr == 'GenePointer':
                okr = okr and unparse(kwarg(c, 'transcripts')) == "fields[3].split(',')"
            else:
                okr = okr and unparse(kwarg(c, 'is_protein_coding')) == 'is_protein_coding' and \
                    "is_protein_coding = {'None': None, 'True': True, 'False': False}[fields[3]]" in [norm_stmt(s) for s in ast.walk(gol.node) if isinstance(s, ast.Assign)]
        chk.ob('C11.e', f"{ptr}: to_line columns == load_index columns", tl.where, fields == cols and okr,
               f"writer columns {fields}; reader agreement {okr}", key=f"gtf.GTFPointer:{ptr}::idx-columns", fn=tl.qual)

    # ------------------------------------------------------------------ f
    chk.rule('C11.f', 'R-SIBLING: on-disk and in-memory model construction share the same steps', 3)
    ld = repo.func('gtf.GTFPointer:TranscriptPointer.load')
    at = repo.func(GA + 'add_transcript_record')
    dg = repo.func(GA + 'dump_gtf')
    chk.uses(ld, at, dg)

    def steps(fn):
        t = unparse(fn)
        return {
            'feature-lower': 'record.type.lower()' in t,
            'filter': 'not in GTF_FEATURE_TYPES' in t,
            'id': 'record.id = ' in t,
            'add_record': '.add_record(feature, record)' in t,
        }
    s1, s2 = steps(ld.node), steps(at.node)
    chk.ob('C11.f', 'both builders: lower-cased feature, GTF_FEATURE_TYPES filter, record.id, add_record', ld.where,
           all(s1.values()) and all(s2.values()), f"on-disk steps {s1}; in-memory steps {s2}", key='gtf::model-build-steps')
    chk.ob('C11.f', 'on-disk loader sorts records', ld.where, 'tx_model.sort_records()' in unparse(ld.node),
           'TranscriptPointer.load does not sort records', key=ld.qual + '::sort', fn=ld.qual)
    chk.ob('C11.f', 'in-memory loader sorts records', dg.where, '.sort_records()' in unparse(dg.node),
           'dump_gtf does not sort records', key=dg.qual + '::sort', fn=dg.qual)

    # ------------------------------------------------------------------ g
    chk.rule('C11.g', 'strand mirror: the - strand branch is the mirror image ([0]<->[-1], start<->end-1) of the + strand branch', 1)
    ce = repo.func('gtf.TranscriptAnnotationModel:TranscriptAnnotationModel.get_cds_end_index')
    chk.uses(ce)
    br = [n for n in walk_no_nested(ce.node) if isinstance(n, ast.If) and unparse(n.test) == 'self.transcript.strand == 1']
    ok = False
    detail = 'strand branch not found'
    if len(br) == 1 and len(br[0].body) == 1 and len(br[0].orelse) == 1 and isinstance(br[0].body[0], ast.Assign) and isinstance(br[0].orelse[0], ast.Assign):
        plus, minus = unparse(br[0].body[0].value), unparse(br[0].orelse[0].value)
        ok = mirror(plus) == minus
        detail = f"+ strand '{plus}', - strand '{minus}', mirror of + is '{mirror(plus)}'"
    chk.ob('C11.g', 'get_cds_end_index: 3\'UTR piece adjacent to the CDS = first piece on +, last piece on -', ce.where, ok,
           f"{detail}: features are sorted by genomic coordinate, so the piece next to the CDS on the - strand is the LAST one; otherwise the ORF end lands inside the 3'UTR",
           key=ce.qual + '::strand-mirror', fn=ce.qual)

    # ------------------------------------------------------------------ h
    chk.rule('C11.h', 'R-ENUM + R-ORDER: every feature list is sorted after its last producer; byte offsets of the GTF index', 9)
    TM = 'gtf.TranscriptAnnotationModel:'
    ft = repo.const('gtf.TranscriptAnnotationModel', 'GTF_FEATURE_TYPES')
    attrs = sorted({ast.literal_eval(v) for k, v in zip(ft.keys, ft.values) if ast.literal_eval(k) != 'transcript'})
    sr = repo.func(TM + 'TranscriptAnnotationModel.sort_records')
    chk.uses(sr)
    body = sr.node.body
    order = {}
    helpers = {}
    for i, st in enumerate(body):
        if isinstance(st, ast.Expr) and isinstance(st.value, ast.Call) and isinstance(st.value.func, ast.Attribute):
            fn_ = st.value.func
            if fn_.attr == 'sort' and isinstance(fn_.value, ast.Attribute) and unparse(fn_.value.value) == 'self':
                order.setdefault(fn_.value.attr, []).append(i)
            elif unparse(fn_.value) == 'self':
                helpers[fn_.attr] = i
    # lists a helper called from sort_records appends to, and lists it reads by position
    produced = {}
    needs_sorted = {}
    for h, i in helpers.items():
        hf = repo.func(TM + 'TranscriptAnnotationModel.' + h)
        chk.uses(hf)
        for c in G.find_calls(hf.node, 'append'):
            if isinstance(c.func.value, ast.Attribute) and unparse(c.func.value.value) == 'self':
                produced.setdefault(c.func.value.attr, []).append((h, i))
        for n in ast.walk(hf.node):
            if isinstance(n, ast.Subscript) and isinstance(n.value, ast.Attribute) and unparse(n.value.value) == 'self' \
                    and isinstance(n.slice, (ast.Constant, ast.UnaryOp)):
                needs_sorted.setdefault(n.value.attr, []).append((h, i))
    for a in attrs:
        last_prod = max([i for (_h, i) in produced.get(a, [])], default=-1)
        ok = a in order and max(order[a]) > last_prod
        chk.ob('C11.h', f"self.{a} is sorted in sort_records" + (f" after {produced[a][0][0]}() appended to it" if a in produced else ''), sr.where, ok,
               f"self.{a} is " + ('not sorted at all' if a not in order else f"sorted before {produced.get(a, [('?', 0)])[0][0]}() appends to it") +
               ": consumers index these lists by position (e.g. three_utr[0] / three_utr[-1] next to the CDS), so the model depends on the record order of the "
               "GTF (Ensembl lists - strand records in descending order) and the ORF end moves into the 3'UTR", key=f"{sr.qual}::sorted::{a}", fn=sr.qual)
    for a, us in needs_sorted.items():
        for (h, i) in us:
            ok = a in order and min(order[a]) < i
            chk.ob('C11.h', f"self.{a} is sorted before {h}() reads it by position", sr.where, ok,
                   f"{h}() indexes self.{a} by position but runs before self.{a}.sort()", key=f"{sr.qual}::sorted-before::{h}::{a}", fn=sr.qual)
    from rules.C13 import byte_offsets
    byte_offsets(chk, repo, 'C11.h', 'gtf.GTFPointer:iterate_pointer')
    from rules.shared import sorted_before_use
    chk.rule('C11.j', 'R-ORDER: Sec positions attached to the transcript sequence are sorted in transcript order', 1)
    chk.clauses.append('C11.j the Sec positions attached to a transcript sequence are sorted after the strand-dependent coordinate conversion')
    sorted_before_use(chk, repo, 'C11.j', 'gtf.TranscriptAnnotationModel:TranscriptAnnotationModel.get_transcript_sequence', 'DNASeqRecordWithCoordinates', 'selenocysteine', 'the converted Sec positions are in genomic order, which is descending transcript order on the - strand; PVGNode.fix_selenocysteines and the Sec truncation consume them in ascending order (a - strand transcript with two Sec codons is translated wrongly)')
    from rules.shared import memo_params
    chk.clauses.append('C11.k no look-up of the annotation is served from a cache keyed by a lossy projection of its arguments')
    memo_params(chk, repo, 'C11.k', ['gtf.GenomicAnnotation:GenomicAnnotation.', 'gtf.GenomicAnnotationOnDisk:GenomicAnnotationOnDisk.', 'gtf.TranscriptAnnotationModel:', 'gtf.GTFPointer:'], floor=0)
    from rules.shared import kwname
    chk.clauses.append('C11.kw (shared R-THREAD) parameters handed on as keyword arguments keep their name: no `a=b` between two parameters of one function')
    kwname(chk, repo, 'C11.kw', ['gtf', 'dna'], floor=0)
    # ------------------------------------------------------------------ l: GTF pointers read exactly their byte range
    chk.rule('C11.l', 'R-KEYS: gene / transcript pointers seek to their start offset and read exactly end - start bytes before decoding', 2)
    chk.clauses.append('C11.l a GTF pointer is resolved by seeking to `start` and reading `len(self) = end - start` raw bytes, decoded afterwards')
    from rules.shared import pointer_byte_range
    for cls_ in ('GenePointer', 'TranscriptPointer'):
        pointer_byte_range(chk, repo, 'C11.l', f'gtf.GTFPointer:{cls_}.load', f"{cls_}.load")
    ln_ = repo.func('gtf.GTFPointer:GTFPointer.__len__')
    chk.ob('C11.l', 'pointer length = end - start', ln_.where, unparse(ln_.node.body[-1]) == 'return self.end - self.start', 'GTFPointer.__len__ altered', key=ln_.qual, fn=ln_.qual)
    chk.clauses.append('C11.m get_cds_start_index returns the transcript index of the first CDS base (exon lengths in front of it + offset inside its exon) + frame, on both strands')
    cds_start_loops(chk, repo, 'C11.m')
    from rules.shared import coord_slice
    chk.clauses.append('C11.n slicing a DNA / amino-acid record that carries matched locations keeps exactly the intersection of each overlapped location with the slice (query re-based to the slice, ref advanced accordingly)')
    coord_slice(chk, repo, 'C11.n', ['dna.DNASeqRecord:DNASeqRecordWithCoordinates.__getitem__', 'aa.AminoAcidSeqRecord:AminoAcidSeqRecordWithCoordinates.__getitem__'])
    from rules.shared import truthy_numeric
    chk.clauses.append('C11.o (shared R-TRUTHY) no numeric parameter (reading frame, index, offset: 0 is a value) is tested by truthiness instead of `is None`')
    truthy_numeric(chk, repo, 'C11.o', ['gtf', 'SeqFeature'])
    from rules.shared import readonly_inputs
    chk.clauses.append('C11.p (R-EFFECT) writing an annotation as GTF only reads the models: no feature list of a gene / transcript model is extended, sorted or otherwise changed through an alias (a second write, or sequence extraction after a write, sees the same models)')
    readonly_inputs(chk, repo, 'C11.p', ['gtf.GtfIO:write', 'gtf.GtfIO:to_gtf_record'], 'writing GTF leaves the annotation models unchanged')
    record_lists_bound_once(chk, repo, 'C11.q')


def record_lists_bound_once(chk, repo, rid):
    """R-EFFECT (who-may-write): the record lists of a transcript model (attributes its constructor initialises as `X or []`: cds,
    exon, utr, five_utr, three_utr, selenocysteine ...) have more than one producer - add_record files ENSEMBL-style
    five_prime_utr / three_prime_utr records directly, split_utr derives them from `utr` for GENCODE.  Inside the gtf package no
    method other than the constructor re-binds such a list (append / extend / sort in place only), so no record that was filed
    is ever discarded."""
    chk.rule(rid, 'R-EFFECT: the record lists of a transcript model are bound by the constructor only; everything else appends / sorts in place', 5)
    chk.clauses.append('C11.q no method of the gtf package re-binds a record list of a transcript model (five_utr / three_utr / utr / cds / exon / selenocysteine): records filed by add_record survive sort_records / split_utr')
    init = repo.func('gtf.TranscriptAnnotationModel:TranscriptAnnotationModel.__init__')
    chk.uses(init)
    lists = [st.targets[0].attr for st in walk_no_nested(init.node) if isinstance(st, ast.Assign) and len(st.targets) == 1 and isinstance(st.targets[0], ast.Attribute)
             and unparse(st.targets[0].value) == 'self' and isinstance(st.value, ast.BoolOp) and isinstance(st.value.op, ast.Or)
             and isinstance(st.value.values[-1], ast.List) and not st.value.values[-1].elts]
    if not lists:
        chk.undecided(rid, 'record lists', init.where, 'no `self.X = X or []` list found in TranscriptAnnotationModel.__init__', key=init.qual + '::lists', fn=init.qual)
        return
    writers = {k: [] for k in lists}
    for f in repo.funcs_in():
        if not f.module.modname.startswith('gtf') or f.qual == init.qual:
            continue
        for n in ast.walk(f.node):
            if isinstance(n, ast.Attribute) and isinstance(n.ctx, (ast.Store, ast.Del)) and n.attr in writers and not isinstance(repo.parent(n), ast.AugAssign):
                # only objects that are transcript models: `self` inside the class, or names / expressions of models elsewhere
                if f.qual.startswith('gtf.TranscriptAnnotationModel:TranscriptAnnotationModel.') and unparse(n.value) != 'self':
                    continue
                if not f.qual.startswith('gtf.TranscriptAnnotationModel:TranscriptAnnotationModel.') and not re.search(r'(tx_model|transcript_model|model)$|transcripts\[', unparse(n.value)):
                    continue
                writers[n.attr].append(f"{repo.loc(f, n)} in {f.name}")
                chk.uses(f)
    for k in lists:
        chk.ob(rid, f"`{k}` is bound by the constructor only", init.where, not writers[k],
               f"the record list `{k}` is re-bound at {writers[k]}: records filed there by add_record (ENSEMBL five_prime_utr / three_prime_utr) are discarded",
               key=f"gtf.TranscriptAnnotationModel::{k}::bound-once", fn=init.qual)


def exon_loop_inverse(chk, repo, rid):
    """E8: per-iteration affine summaries of the two exon loops, decided over cone domains (see sa/loops.py)"""
    from sa import sem
    from sa.loops import Domain, iteration_paths, feasible
    chk.rule(rid, 'R-AFFINE-INV (loops): one iteration of the exon loops has the definitional effect on every path; '
             'get_transcript_index and coordinate_transcript_to_genomic are inverse on exonic positions, intronic positions raise', 17)
    g2t = repo.func('gtf.TranscriptAnnotationModel:TranscriptAnnotationModel.get_transcript_index')
    t2g = repo.func(GA + 'coordinate_transcript_to_genomic')
    chk.uses(g2t, t2g)
    S, L, a, b, k, d_, r_ = (Aff.sym(x) for x in ('S', 'L', 'a', 'b', 'k', 'd', 'r'))
    P = ['a', 'b', 'k', 'd', 'r']

    def loop_of(fi, strand):
        nf = sem.nf(repo, fi)
        cands = [l for l in ast.walk(nf) if isinstance(l, ast.For) and isinstance(l.target, ast.Name) and re.search(r'\bexons?\b', unparse(l.iter))]
        want_rev = strand == -1
        sel = [l for l in cands if ('reversed(' in unparse(l.iter)) == want_rev]
        if len(sel) != 1:
            # a loop written once and parametrised by the strand: specialise the source on the strand (E10) and normalise again
            from sa.canon import normal_form as _nform, literal_constants as _lc
            sexprs = {unparse(c.left) for c in ast.walk(fi.node) if isinstance(c, ast.Compare) and re.fullmatch(r'(?:.*\.)?strand', unparse(c.left))}
            if sexprs:
                nf2 = _nform(sem.specialise(fi.node, {t: strand for t in sexprs}), _lc(fi.module.tree), flow=True)
                cands2 = [l for l in ast.walk(nf2) if isinstance(l, ast.For) and isinstance(l.target, ast.Name) and re.search(r'\bexons?\b', unparse(l.iter))]
                sel2 = [l for l in cands2 if ('reversed(' in unparse(l.iter)) == want_rev]
                if len(sel2) == 1:
                    return nf2, sel2[0]
            raise AnalysisError(f"anchor={fi.qual}: exon loop for strand {strand:+d} not found ({[unparse(l.iter) for l in cands]})")
        return nf, sel[0]

    def carried_of(loop):
        c = sorted({unparse(n.target) for n in ast.walk(loop) if isinstance(n, ast.AugAssign) and isinstance(n.target, ast.Name)})
        if len(c) != 1:
            raise AnalysisError(f"anchor=exon loop: exactly one accumulator expected, found {c}")
        return c[0]

    def canon_for(tgt, param):
        def canon(text):
            if text == f'{tgt}.location.start':
                return 'S'
            if text == f'{tgt}.location.end':
                return 'E'
            if text == param:
                return 'g'
            if text == f'len({tgt}.location)' or text == f'len({tgt})':
                return 'L'
            return text
        return canon
    base = {'E': S + L}

    def dispatch_ok(nf, strand, loop):
        """on the given strand every completed path runs exactly the exon loop of that strand"""
        res = Interp(strand, is_strand=strand_like, max_paths=4096).run_function(nf)
        want = unparse(loop.iter)
        seqs = [[e[1] for e in p_.events if e[0] == 'loop' and re.search(r'\bexons?\b', str(e[1])) and 'sum(' not in str(e[1])] for p_ in res]
        ran = [s_ for s_ in seqs if s_]
        return bool(ran) and all(s_ == [want] for s_ in ran)
    for strand in (1, -1):
        sg = f"strand {strand:+d}"
        # ---------------- coordinate_transcript_to_genomic
        nf_t, lp_t = loop_of(t2g, strand)
        acc_t = carried_of(lp_t)
        tparams = [p_ for p_ in t2g.params() if p_ != 'self']
        defs_t = [n.value for n in ast.walk(nf_t) if isinstance(n, ast.Assign) and len(n.targets) == 1 and unparse(n.targets[0]) == acc_t]
        ok_src = (acc_t == tparams[0] and not defs_t) or (bool(defs_t) and all(isinstance(v, ast.Name) and v.id == tparams[0] for v in defs_t))
        chk.ob(rid, f"T2G {sg}: the loop consumes the requested transcript index", t2g.where, ok_src,
               f"the accumulator '{acc_t}' of the exon loop is not the index parameter", key=f"{t2g.qual}::loop-input::{strand:+d}", fn=t2g.qual)
        chk.ob(rid, f"T2G {sg}: the exon loop of this strand (and no other) runs", t2g.where, dispatch_ok(nf_t, strand, lp_t),
               f"on {sg} the loop over '{unparse(lp_t.iter)}' is not the one executed (strand dispatch altered)", key=f"{t2g.qual}::dispatch::{strand:+d}", fn=t2g.qual)
        tp = iteration_paths(lp_t, strand, [acc_t], canon_for(lp_t.target.id, '\0'), is_strand=strand_like)
        I = Aff.sym(f'{acc_t}@in')
        dom_exit = Domain({**base, f'{acc_t}@in': a, 'L': a + 1 + b}, P)
        fe = feasible(tp, dom_exit)
        V = None
        want_v = (S + a) if strand == 1 else (S + b)
        ok = bool(fe) and all(x.end == 'return' and isinstance(x.ret, Aff) for x in fe)
        if ok:
            vals = {repr(dom_exit.apply(x.ret)) for x in fe}
            ok = vals == {repr(want_v)}
            V = fe[0].ret
        chk.ob(rid, f"T2G {sg}: inside the exit exon (0 <= index < length) the iteration returns the definitional position {want_v!r}", t2g.where, ok,
               f"with 0 <= index < len(exon) one iteration takes {[x.describe() for x in fe]} (expected: return {'start + index' if strand == 1 else 'end - 1 - index'})",
               key=f"{t2g.qual}::exit::{strand:+d}", fn=t2g.qual)
        dom_pass = Domain({**base, 'L': 1 + b, f'{acc_t}@in': 1 + b + r_}, P)
        fp = feasible(tp, dom_pass)
        ok = bool(fp) and all(x.end == 'next' and x.delta[acc_t] is not None and dom_pass.apply(x.delta[acc_t] + L) == Aff(0) for x in fp)
        chk.ob(rid, f"T2G {sg}: a passed exon (index >= length) subtracts exactly its length and continues", t2g.where, ok,
               f"with index >= len(exon) one iteration takes {[x.describe() for x in fp]} (expected: index -= len(exon); next exon)",
               key=f"{t2g.qual}::pass::{strand:+d}", fn=t2g.qual)
        # ---------------- get_transcript_index
        nf_g, lp_g = loop_of(g2t, strand)
        acc_g = carried_of(lp_g)
        gparam = [p_ for p_ in g2t.params() if p_ != 'self'][0]
        init = sem.nearest_def(nf_g, lp_g, acc_g)
        init_v = None
        if isinstance(init, ast.Constant) and isinstance(init.value, int):
            init_v = init.value
        elif isinstance(init, ast.UnaryOp) and isinstance(init.op, ast.USub) and isinstance(init.operand, ast.Constant):
            init_v = -init.operand.value
        if init_v is None:
            raise AnalysisError(f"anchor={g2t.qual}: constant initial value of '{acc_g}' before the exon loop ({sg}) not found")
        chk.ob(rid, f"G2T {sg}: the exon loop of this strand (and no other) runs", g2t.where, dispatch_ok(nf_g, strand, lp_g),
               f"on {sg} the loop over '{unparse(lp_g.iter)}' is not the one executed (strand dispatch altered)", key=f"{g2t.qual}::dispatch::{strand:+d}", fn=g2t.qual)
        gp = iteration_paths(lp_g, strand, [acc_g], canon_for(lp_g.target.id, gparam), is_strand=strand_like)
        J = Aff.sym(f'{acc_g}@in')
        # exit exon: g ranges over the exon, g = T2G(a)
        gdom = Domain({**base, 'L': a + 1 + b, 'g': want_v}, P)
        fe = feasible(gp, gdom)

        def exit_ok(x):
            if x.end not in ('break', 'return'):
                return False
            dv = x.delta[acc_g] if x.end == 'break' else ((x.ret - J) if isinstance(x.ret, Aff) else None)
            if dv is None:
                return False
            total = gdom.apply(dv + init_v)
            return equal_mod(total, a, [gdom.apply(z) for z in x.afacts])
        ok = bool(fe) and all(exit_ok(x) for x in fe)
        chk.ob(rid, f"G2T {sg}: for an exonic position the iteration leaves the loop with initial value + offset = the transcript index "
               "(get_transcript_index o coordinate_transcript_to_genomic = identity)", g2t.where, ok,
               f"for g = {want_v!r} (offset a into the exon, initial value {init_v}) one iteration takes {[x.describe() for x in fe]}; "
               "the accumulated index must equal a", key=f"{g2t.qual}::exit::{strand:+d}", fn=g2t.qual)
        gpass = Domain({**base, 'L': 1 + b, 'g': (S + L + 1 + d_ + k) if strand == 1 else (S - 2 - d_ - k)}, P)
        fp = feasible(gp, gpass)
        ok = bool(fp) and all(x.end == 'next' and x.delta[acc_g] is not None and gpass.apply(x.delta[acc_g] - L) == Aff(0) for x in fp)
        chk.ob(rid, f"G2T {sg}: an exon that lies entirely before the position (in transcript order) adds exactly its length and continues", g2t.where, ok,
               f"for a position beyond the exon and the following intron one iteration takes {[x.describe() for x in fp]} (expected: index += len(exon); next exon)",
               key=f"{g2t.qual}::pass::{strand:+d}", fn=g2t.qual)
        gaps = {'before-exon': (S - 1 - k) if strand == 1 else (S + L + k)}
        if strand == 1:
            gaps['at-exon-end'] = S + L
        for nm, gv in gaps.items():
            gg = Domain({**base, 'L': 1 + b, 'g': gv}, P)
            fg = feasible(gp, gg)
            ok = bool(fg) and all(x.end == 'raise' and 'ERROR_INDEX_IN_INTRON' in x.p.raise_text for x in fg)
            chk.ob(rid, f"G2T {sg}: an intronic position ({nm}) raises the intron error", g2t.where, ok,
                   f"for an intronic position ({nm}: g = {gv!r}) one iteration takes {[x.describe() for x in fg]}: the position is mapped instead of rejected",
                   key=f"{g2t.qual}::intron::{nm}::{strand:+d}", fn=g2t.qual)


def cache_typestate(chk, repo, rid):
    """R-ORDER + R-LOCKSTEP on the pointer-dict caches (shared by C11.d and C15.c)."""
    chk.rule(rid, 'R-ORDER + R-LOCKSTEP: cache registers after load; eviction/insertion pairwise', 10)
    for cls in ('GenePointerDict', 'TranscriptPointerDict'):
        f = repo.func(f'gtf.GTFPointer:{cls}.__getitem__')
        chk.uses(f)
        cfg = CFG(f.node)
        nodes = [n for n in cfg.nodes if n.kind == 'stmt']
        fallible = [n.id for n in nodes if any(call_name(c) in ('get_pointer', 'load') for c in G.find_calls(n.ast))]
        book = [n for n in nodes if any(w[0] == 'self' and ('_cached_keys' in unparse(w[2]) or '_cache' in unparse(w[2]))
                                        for w in G.writes_in([n.ast]))]
        for b in book:
            ok = all(cfg.dominates(x, b.id) for x in fallible) and len(fallible) >= 2
            chk.ob(rid, f"{cls}: '{norm_stmt(b.ast)}' follows get_pointer() and load()", repo.loc(f, b.ast), ok,
                   f"cache bookkeeping '{norm_stmt(b.ast)}' can run before the fallible get_pointer()/load(): a miss leaves a ghost "
                   "key and a later eviction raises KeyError for a valid key", key=f"{f.qual}::order::{norm_stmt(b.ast)}", fn=f.qual)
        txt = [norm_stmt(n.ast) for n in nodes]
        pops = [t for t in txt if '_cached_keys.pop()' in t]
        evict = [t for t in txt if t.startswith('self._cache.pop(')]
        okp = len(pops) == 1 and len(evict) == 1 and pops[0] == 'key_pop = self._cached_keys.pop()' and evict[0] == 'self._cache.pop(key_pop)'
        chk.ob(rid, f"{cls}: eviction pops the same key from deque and dict", f.where, okp,
               f"eviction statements {pops} / {evict} are not pairwise", key=f"{f.qual}::evict-pair", fn=f.qual)
        ins = [t for t in txt if t.startswith('self._cache[') and '=' in t]
        push = [t for t in txt if 'self._cached_keys.appendleft(' in t]
        params = f.params()
        k = params[1] if len(params) > 1 else '__key'
        oki = ins == [f"self._cache[{k}] = val"] and push == [f"self._cached_keys.appendleft({k})"]
        chk.ob(rid, f"{cls}: insertion registers the same key in deque and dict", f.where, oki,
               f"insert statements {ins} / {push} are not pairwise", key=f"{f.qual}::insert-pair", fn=f.qual)
        # the returned value is the loaded value on the miss path and the cached one on the hit path
        rets = [unparse(n.ast.value) for n in nodes if isinstance(n.ast, ast.Return)]
        chk.ob(rid, f"{cls}: returns cached value on hit, loaded value on miss", f.where,
               sorted(rets) == sorted([f"self._cache[{k}]", 'val']), f"returns {rets}", key=f"{f.qual}::returns", fn=f.qual)
        # caches are per instance
        init = repo.func(f'gtf.GTFPointer:{cls}.__init__')
        itxt = [norm_stmt(s) for s in init.node.body]
        chk.ob(rid, f"{cls}: cache state is per instance", init.where,
               'self._cache = {}' in itxt and 'self._cached_keys = deque()' in itxt,
               'cache containers are not created per instance in __init__ (shared between dictionaries)', key=f"{init.qual}::per-instance", fn=init.qual)
    for cq in ('gtf.GTFPointer:GTFPointerDict', 'gtf.GTFPointer:GenePointerDict', 'gtf.GTFPointer:TranscriptPointerDict'):
        ci = repo.cls(cq)
        shared = [norm_stmt(s) for s in ci.node.body if isinstance(s, (ast.Assign, ast.AnnAssign)) and '_cache' in unparse(s)]
        chk.ob(rid, f"{ci.name}: no class-level cache attribute", f"{ci.module.relpath}:{ci.node.lineno}", not shared,
               f"class-level cache state {shared} is shared by every dictionary instance", key=f"{cq}::class-level-cache")


def mirror(text: str) -> str:
    """strand mirror of an expression over genomically sorted feature lists:
    first <-> last element, transcript-oriented start (.start) <-> (.end - 1)."""
    t = text.replace('[0]', '[@F]').replace('[-1]', '[0]').replace('[@F]', '[-1]')
    t = t.replace('.location.end - 1', '.location.@S').replace('.location.start', '.location.end - 1').replace('.location.@S', '.location.start')
    return t


def cds_start_loops(chk, repo, rid):
    """C11.m: get_cds_start_index walks the exons in transcript order and returns (bases of the exons in front of the CDS 5' end)
    + (offset of that end inside its exon) + frame - the transcript index of the first CDS base, as get_transcript_index
    defines it (C11.i).  Decided from the affine summary of one loop iteration (E8) and the conditions of its paths."""
    from sa import sem, loops
    chk.rule(rid, 'R-AFFINE-EQV (loops): get_cds_start_index = exon lengths in front of the CDS 5\' end + offset inside its exon + frame, both strands', 7)
    f = repo.func('gtf.TranscriptAnnotationModel:TranscriptAnnotationModel.get_cds_start_index')
    chk.uses(f)
    nf = sem.nf(repo, f)
    rets = [n for n in ast.walk(nf) if isinstance(n, ast.Return)]
    fors = [n for n in ast.walk(nf) if isinstance(n, ast.For) and isinstance(n.target, ast.Name)]
    loop_facts = sem.facts_at_loops(nf)
    by_strand = {}
    for l in fors:
        fx = loop_facts.get(id(l))
        lits = sem.sure_literals(fx) if fx is not None else set()
        s_ = None
        for t, v in lits:
            m = re.match(r'^(-?1) == self\.transcript\.strand$', t)
            if m and v:
                s_ = int(m.group(1))
        if s_ is None and any(re.match(r'^1 == self\.transcript\.strand$', t) and not v for t, v in lits):
            s_ = -1
        by_strand.setdefault(s_, []).append(l)
    for strand in (1, -1):
        sg = f"strand {strand:+d}"
        ls = by_strand.get(strand, [])
        if len(ls) != 1:
            chk.undecided(rid, f"{sg}: exon loop", f.where, f"{len(ls)} loops found under strand == {strand}", key=f"{f.qual}::loop::{strand:+d}", fn=f.qual)
            continue
        lp = ls[0]
        E = lp.target.id
        want_iter = 'self.exon' if strand == 1 else 'reversed(self.exon)'
        chk.ob(rid, f"{sg}: exons are walked in transcript order", repo.loc(f, lp), unparse(lp.iter) == want_iter,
               f"the loop iterates `{unparse(lp.iter)}`, transcript order on {sg} is `{want_iter}`", key=f"{f.qual}::order::{strand:+d}", fn=f.qual)
        accs = sorted({unparse(n.target) for n in ast.walk(lp) if isinstance(n, ast.AugAssign) and isinstance(n.target, ast.Name)})
        if len(accs) != 1:
            chk.undecided(rid, f"{sg}: accumulator", repo.loc(f, lp), f"accumulators {accs}", key=f"{f.qual}::acc::{strand:+d}", fn=f.qual)
            continue
        acc = accs[0]
        P = 'self.cds[0].location.start' if strand == 1 else 'self.cds[-1].location.end'
        Pa, Es, Ee = Aff.sym(P), Aff.sym(f'{E}.location.start'), Aff.sym(f'{E}.location.end')
        want_break = (Pa - Es) if strand == 1 else (Ee - Pa)
        inside = (f'{P} in {E}', True)
        at_end = (f'{P} == {E}.location.end', True)
        ps = loops.iteration_paths(lp, strand, [acc], canon=lambda t: t)
        chk.paths += len(ps)
        ok_next = ok_brk = True
        det = []
        n_next = n_brk = 0
        for p in ps:
            conds = set(p.p.conds)
            d = p.delta.get(acc)
            if p.end == 'next':
                n_next += 1
                good = d == Aff.sym(f'len({E})') and (inside[0], False) in conds and (strand == 1 or (at_end[0], False) in conds)
                if not good:
                    ok_next = False
                    det.append(f"an exon is passed over with {acc} += {d!r} under {sorted(conds)}")
            elif p.end == 'break':
                n_brk += 1
                good = d == want_break and (inside in conds or (strand == -1 and at_end in conds))
                if not good:
                    ok_brk = False
                    det.append(f"the walk stops with {acc} += {d!r} under {sorted(conds)}")
            else:
                ok_brk = False
                det.append(f"a path ends in {p.end}")
        chk.ob(rid, f"{sg}: an exon in front of the CDS end adds its full length", repo.loc(f, lp), ok_next and n_next >= 1,
               f"{sg}: " + '; '.join(det[:2]) + f" (expected += len({E}) exactly when {P} is not in the exon)", key=f"{f.qual}::pass::{strand:+d}", fn=f.qual)
        chk.ob(rid, f"{sg}: the exon holding the CDS end adds the offset inside it and ends the walk", repo.loc(f, lp), ok_brk and n_brk >= 1,
               f"{sg}: " + '; '.join(det[:2]) + f" (expected += {want_break!r} and break exactly when {P} lies in the exon)", key=f"{f.qual}::stop::{strand:+d}", fn=f.qual)
    # initial value and result
    ch = sem.block_chains(nf)
    ok_ret = len(rets) == 1
    det = ''
    if ok_ret:
        v = rets[0].value
        ok_ret = isinstance(v, ast.BinOp) and isinstance(v.op, ast.Add) and all(isinstance(x, ast.Name) for x in (v.left, v.right))
        if ok_ret:
            inits = {n.id: sem.nearest_def(nf, [l for l in fors][0], n.id, ch) for n in (v.left, v.right)}
            accn = [k for k, d_ in inits.items() if isinstance(d_, ast.Constant) and d_.value == 0]
            frames = {}
            for n in ast.walk(nf):
                if isinstance(n, ast.Assign) and len(n.targets) == 1 and isinstance(n.targets[0], ast.Name) and n.targets[0].id in (v.left.id, v.right.id) \
                        and n.targets[0].id not in accn:
                    frames.setdefault(n.targets[0].id, []).append(unparse(n.value))
            fr = sorted(x for vs in frames.values() for x in vs)
            ok_ret = len(accn) == 1 and fr == sorted(['self.cds[0].frame', 'self.cds[-1].frame or 0'])
            det = f"returns {unparse(v)} with start value(s) {[(k, unparse(d_) if d_ is not None else None) for k, d_ in inits.items()]} and frame terms {fr}"
    chk.ob(rid, 'result = accumulated offset (from 0) + frame of the first CDS feature in transcript order', f.where, ok_ret,
           f"get_cds_start_index {det or 'does not return accumulator + frame'}", key=f"{f.qual}::result", fn=f.qual)

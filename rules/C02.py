"""C02 - callVariant soundness: guard / effect clauses.

a R-GUARD  truncated / hybrid / stop nodes never enter a miscleavage series
b R-EFFECT complexity-limit branches only skip
c R-EFFECT timeout retry only tightens the two complexity knobs on a copy and re-enters the wrapper
d R-GUARD  X skip / * raise before storage (shared with C04.c)
e R-GUARD  N-terminal methionine removal only for start-codon peptides that start with M
"""
import ast
import re
from sa.model import unparse, norm_stmt, call_name, kwarg, walk_no_nested, AnalysisError
from sa.cfg import CFG
from sa import guards as G
from sa import sem

VPD = 'svgraph.VariantPeptideDict:'
FMN = VPD + 'VariantPeptideDict.find_miscleaved_nodes'


def run(chk, repo):
    chk.clauses = [
        'C02.a every node put into a miscleavage series is known not truncated, not a circRNA hybrid node and not a lone stop',
        'C02.b complexity-limit branches create no node and leave the iteration (they skip, never approximate)',
        'C02.c the timeout retry writes only max_variants_per_node / additional_variants_per_misc on a copy and re-enters the same wrapper',
        'C02.d X / * rejection before storage',
        'C02.e the M-removed form of a peptide is emitted only under (start codon, sequence starts with M)',
        'C02.h in the unknown-ORF traversal the start-site search flag handed downstream is False once the real fusion breakpoint was seen',
    ]
    chk.not_decided = ['that each emitted node chain is a path of one haplotype (merge/expand/cross-join correctness)',
                       'pop-collapse flag semantics inside the ORF traversals']
    f = repo.func(FMN)
    chk.uses(f)
    cfg = CFG(f.node)
    rel = f.module.relpath

    # ------------------------------------------------------------------ a
    # semantic form on the normal form of find_miscleaved_nodes (sa/sem.py): must-facts at the statements that put a node
    # into a series; local names are discovered, not assumed
    chk.rule('C02.a', 'R-GUARD: truncated / hybrid / stop nodes excluded from series', 4)
    nf = sem.nf(repo, f)
    first = sem.facts_where(nf, lambda st: sem.own_stmt(st) and any(
        c.args and isinstance(c.args[0], ast.List) and [unparse(e) for e in c.args[0].elts] == ['node'] for c in sem.calls_in_stmt(st, 'MiscleavedNodeSeries')))
    if len(first) != 1:
        raise AnalysisError(f"anchor={FMN}: leading series construction MiscleavedNodeSeries([node], ...) not found ({len(first)})")
    fx0 = first[0][1]
    ok = sem.known(fx0, 'not node.truncated') is True and sem.known(fx0, 'not node.cpop_collapsed') is True
    chk.ob('C02.a', 'leading node enters a series only if not truncated and not pop-collapsed', f.where, ok,
           'the leading node can start a series while truncated / pop-collapsed: peptides clipped at a truncated transcript end are reported',
           key=FMN + '::leading-guard', fn=f.qual)
    loops = sem.loops_where(nf, lambda t: t.endswith('.out_nodes'))
    if len(loops) != 1 or sem.target_name(loops[0]) is None:
        raise AnalysisError(f"anchor={FMN}: loop over the out nodes of the last node of the batch not found ({len(loops)})")
    loop = loops[0]
    X = sem.target_name(loop)
    ext = sem.facts_in_iteration(nf, loop, lambda st: sem.own_stmt(st) and any(
        len(c.args) == 1 and unparse(c.args[0]) == X for c in sem.calls_in_stmt(st, 'append')))
    if not ext:
        raise AnalysisError(f"anchor={FMN}: extension of the batch by the out node (<batch>.append({X})) not found")
    for formula, what in ((f'not {X}.truncated', 'truncated'),
                          (f'not is_circ_rna or not {X}.is_hybrid_node(subgraphs)', 'circRNA hybrid'),
                          (f"not (len({X}.seq.seq) == 1 and {X}.seq.seq.startswith('*'))", 'lone stop')):
        ok = all(sem.known(fx, formula) is True for _st, fx in ext)
        chk.ob('C02.a', f"extension node is known '{formula}'", f.where, ok,
               f"a {what} node can be appended to a miscleavage series (unrealizable peptides)", key=FMN + f'::extend-guard::{what}', fn=f.qual)

    # ------------------------------------------------------------------ b
    chk.rule('C02.b', 'R-EFFECT: complexity-limit branches are skip-only', 3)
    # the variant-count limit: every statement that records a series or extends the queue is reached only when the
    # number of variants does not exceed the allowance  (a limit can only skip)
    eff = sem.facts_in_iteration(nf, loop, lambda st: sem.own_stmt(st) and (bool(sem.calls_in_stmt(st, 'append')) and
                                 any(unparse(c.func.value).endswith(('.data', 'queue')) for c in sem.calls_in_stmt(st, 'append'))))
    lim_txt = None
    for n in ast.walk(loop):
        if isinstance(n, ast.Compare) and len(n.ops) == 1 and unparse(n).count('len(') == 1:
            src = unparse(n) + ' ' + ' '.join(sem.defining_text(nf, x.id) for x in ast.walk(n) if isinstance(x, ast.Name))
            if 'max_variants_per_node' in src and 'additional_variants_per_misc' in src:
                lim_txt = unparse(n)
    ok = lim_txt is not None and bool(eff) and all(sem.known(fx, lim_txt) is False for _st, fx in eff)
    chk.ob('C02.b', 'find_miscleaved_nodes: too many variants -> nothing recorded, nothing queued', f.where, ok,
           f"the variant-count limit ('{lim_txt}') does not guard every recording / queueing statement: it does more than skip",
           key=FMN + '::limit-skip', fn=f.qual)
    mr = repo.func('svgraph.PeptideVariantGraph:PeptideVariantGraph.merge_nodes_routes')
    chk.uses(mr)
    lim2 = [n for n in walk_no_nested(mr.node) if isinstance(n, ast.If) and unparse(n.test) == 'self.nodes_have_too_many_variants(route)']
    ok = len(lim2) == 1 and G.block_leaves(lim2[0].body) and isinstance(lim2[0].body[-1], ast.Continue)
    if ok:
        creates = [c for s in lim2[0].body for c in G.find_calls(s) if call_name(c) in ('copy', 'append_right', 'add_out_edge', 'add_in_edge', 'add')
                   and not unparse(c.func.value) == 'trash']
        ok = not creates
    chk.ob('C02.b', 'merge_nodes_routes: too many variants -> route trashed and skipped, no node created', repo.loc(mr, lim2[0]) if lim2 else mr.where, ok,
           'the max-variants-per-node branch creates or links nodes instead of skipping the route', key=mr.qual + '::limit-skip', fn=mr.qual)
    nh = repo.func('svgraph.PeptideVariantGraph:PeptideVariantGraph.nodes_have_too_many_variants')
    chk.uses(nh)
    lits = sem.accept_literals(sem.nf(repo, nh)) or set()
    M = 'self.cleavage_params.max_variants_per_node'
    ok = sem.lit(f'{M} == -1', False) in lits and any(a.startswith(f'{M} < len(') and p is True for a, p in lits) and \
        not any(a.startswith(f'{M} <= len(') and p is True for a, p in lits)
    chk.ob('C02.b', 'limit predicate: disabled at -1, strict > limit', nh.where, ok,
           f"nodes_have_too_many_variants returns True under {sorted(lits)} (expected: limit != -1 and number of variants strictly above the limit)", key=nh.qual, fn=nh.qual)

    # ------------------------------------------------------------------ c
    retry_effects(chk, repo, 'C02.c')

    # ------------------------------------------------------------------ d
    chk.rule('C02.d', "R-GUARD: X skip / * raise before storage (same obligations as C04.c)", 2)
    am = repo.func(VPD + 'VariantPeptideDict.add_miscleaved_sequences')
    chk.uses(am)
    mcfg = CFG(am.node)
    for s in [n for n in mcfg.nodes if n.kind == 'stmt' and ('self.peptides.setdefault(' in norm_stmt(n.ast) or norm_stmt(n.ast).startswith('self.seqs.add('))]:
        fx = G.facts_at(mcfg, s.id)
        chk.ob('C02.d', f"'{norm_stmt(s.ast)[:40]}' after X-skip and *-raise", repo.loc(am, s.ast),
               fx.get("'X' in seq") is False and fx.get("'*' in seq") is False, f"facts {fx}", key=am.qual + f"::store::{norm_stmt(s.ast)[:25]}", fn=am.qual)

    # ------------------------------------------------------------------ e
    chk.rule('C02.e', 'R-GUARD: M-removed form only for start-codon peptides starting with M', 2)
    tm = repo.func(VPD + 'MiscleavedNodes.translational_modification')
    chk.uses(tm)
    ntm = sem.nf(repo, tm)
    chains = sem.block_chains(ntm)
    n_sites = 0
    for y, fx in sem.yield_tuples(ntm):
        E = sem.expand_names(ntm, y, y.value.value.elts[0], chains=chains)
        if not (isinstance(E, ast.Subscript) and isinstance(E.slice, ast.Slice) and E.slice.upper is None and unparse(E.slice.lower) == '1'):
            continue
        n_sites += 1
        base = unparse(E.value)
        lits = dict(fx.d) if fx is not None else {}
        if fx is not None:
            for name, dexpr in fx.defs.items():
                if lits.get(name) is True:
                    for a, p in (sem.conj_literals(dexpr, True) or set()):
                        lits.setdefault(a, p)
        mb = set()
        for a, p in lits.items():
            if p is True and a.endswith(".startswith('M')"):
                try:
                    mb.add(unparse(sem.expand_names(ntm, y, ast.parse(a[:-len(".startswith('M')")], mode='eval').body, chains=chains)))
                except SyntaxError:
                    pass
        ok = fx is None or (lits.get('is_start_codon') is True and base in mb)
        chk.ob('C02.e', f"Met-removed form '{unparse(E)[:40]}' only under is_start_codon and {base[:30]}.startswith('M')", tm.where, ok,
               f"the methionine-removed form '{unparse(E)}' can be emitted for a peptide that does not begin at the start codon "
               "(an internal M after a cleavage site): the result is not a digestion product", key=tm.qual + f"::m-removal::{'seq_mod' if '[:' in base else 'seq'}", fn=tm.qual)
    chk.ob('C02.e', 'both Met-removed forms (plain and Sec-truncated) are present', tm.where, n_sites >= 2, f"{n_sites} M-removal sites",
           key=tm.qual + '::m-removal-sites', fn=tm.qual)

    # ------------------------------------------------------------------ f
    chk.rule('C02.f', 'R-SIBLING (contradiction): whole-node peptide starts consult the same pop-collapse flag in every traversal', 2)
    flags = {}
    for q in ('svgraph.PeptideVariantGraph:PeptideVariantGraph.call_and_stage_known_orf_in_cds',
              'svgraph.PeptideVariantGraph:PeptideVariantGraph.call_and_stage_unknown_orf'):
        g = repo.func(q)
        chk.uses(g)
        gcfg = CFG(g.node)
        copies = [n for n in gcfg.nodes if n.kind == 'stmt' and isinstance(n.ast, ast.Assign)
                  and unparse(n.ast.value) == 'target_node.copy(in_nodes=False)']
        # the whole-node start: the copy that is not truncated at a start index afterwards
        whole = []
        for c in copies:
            nm = unparse(c.ast.targets[0])
            blk = None
            for anc in repo.ancestors(c.ast):
                for fld in ('body', 'orelse'):
                    b = getattr(anc, fld, None)
                    if isinstance(b, list) and c.ast in b:
                        blk = b
                if blk:
                    break
            trunc = any(isinstance(s, ast.Expr) and unparse(s.value).startswith(f"{nm}.truncate_left(") for s in (blk or []))
            if not trunc:
                whole.append(c)
        for c in whole:
            fx = G.facts_at(gcfg, c.id)
            fl = sorted(k.split('.')[-1] for k, v in fx.items() if k.startswith('target_node.') and k.endswith('pop_collapsed') and v is False)
            flags[(q, c.line)] = fl
    vals = list(flags.values())
    agree = len(vals) >= 2 and all(v == vals[0] for v in vals)
    for (q, line), fl in flags.items():
        chk.ob('C02.f', f"{q.split('.')[-1]}: whole-node start guarded by not target_node.{fl}", f"moPepGen/svgraph/PeptideVariantGraph.py:{line}",
               agree and fl == ['npop_collapsed'],
               f"the traversals disagree on the pop-collapse flag that forbids starting a peptide at a node: {flags} "
               "(an n-terminally pop-collapsed node is the tail of a split node; starting there invents peptides that begin mid-fragment)",
               key=f"{q}::whole-node-start-flag", fn=q)

    # ------------------------------------------------------------------ g
    chk.rule('C02.g', 'R-LOCKSTEP: coordinates of joined nodes are shifted by the cumulative length accumulator', 3)
    for q in (VPD + 'MiscleavedNodes.join_miscleaved_peptides', VPD + 'MiscleavedNodes.create_peptide_segments'):
        g = repo.func(q)
        chk.uses(g)
        for lp in [l for l in walk_no_nested(g.node) if isinstance(l, ast.For)]:
            accs = [unparse(n.target) for n in lp.body if isinstance(n, ast.AugAssign) and isinstance(n.op, ast.Add) and 'len(' in unparse(n.value)]
            shifts = [c for c in G.find_calls(lp, 'shift')]
            if not accs or not shifts:
                continue
            for c in shifts:
                a = unparse(c.args[0]) if c.args else ''
                chk.ob('C02.g', f"{g.name}: {unparse(c)[:50]} uses the cumulative offset {accs}", repo.loc(g, c), a in accs,
                       f"'{unparse(c)}' shifts a per-node coordinate by '{a}', which is not the accumulator {accs} advanced by every joined node: "
                       "positions in the third and later nodes of a series are misplaced (e.g. Sec truncation cuts at an arbitrary residue)",
                       key=f"{q}::shift::{unparse(c.func.value)[:30]}", fn=g.qual)

    # ------------------------------------------------------------------ h
    from sa.model import arg_of
    chk.rule('C02.h', 'R-THREAD: once the real fusion breakpoint is seen the start-site search is closed for every downstream cursor', 1)
    uq = 'svgraph.PeptideVariantGraph:PeptideVariantGraph.call_and_stage_unknown_orf'
    u = repo.func(uq)
    chk.uses(u)
    ucfg = CFG(u.node)
    ctor = repo.func('svgraph.PeptideVariantGraph:PVGCursor.__init__')
    cur = [c for c in G.find_calls(u.node, 'PVGCursor')]
    closes = [n for n in ucfg.nodes if n.kind == 'stmt' and isinstance(n.ast, ast.Assign) and isinstance(n.ast.value, ast.Constant)
              and n.ast.value.value is False and any(isinstance(a, ast.If) and 'is_real_fusion' in unparse(a.test) for a in repo.ancestors(n.ast))]
    if len(cur) != 1 or len(closes) != 1:
        raise AnalysisError(f"anchor={uq}: PVGCursor construction / real-fusion branch not found")
    e = arg_of(cur[0], ctor, 'finding_start_site')
    site = ucfg.node_for(repo.enclosing_stmt(cur[0]))
    st = ucfg.must_facts(closes[0].id)
    fx = st.get(site)
    ok = e is not None and fx is not None and fx.known(e) is False
    chk.ob('C02.h', f"after `{norm_stmt(closes[0].ast)}` every staged cursor gets finding_start_site known False (argument `{unparse(e) if e is not None else 'default'}`)",
           repo.loc(u, cur[0]), ok,
           f"the cursor staged for the out-nodes receives `{unparse(e) if e is not None else 'the default True'}`, which is not known to be False after the "
           "real fusion breakpoint was found in this node: downstream (accepter) nodes keep opening ORFs, so peptides from start codons behind the "
           "breakpoint of a fusion without known ORF are reported", key=uq + '::close-start-search', fn=u.qual)
    from rules.C01 import split_node_flags
    chk.rule('C02.i', '(shared with C01.f) split_node: the truncated / pop-collapse flags describe the END of a node and move to the right half', 2)
    chk.clauses.append('C02.i when a node is split the right half inherits `truncated`: the open-ended tail of an mRNA_end_NF transcript is never reported as a peptide')
    split_node_flags(chk, repo, 'C02.i')
    from rules.shared import truthy_numeric
    chk.clauses.append('C02.k (shared R-TRUTHY) no numeric parameter (reading frame, index, offset: 0 is a value) is tested by truthiness instead of `is None`')
    truthy_numeric(chk, repo, 'C02.k', ['svgraph', 'aa', 'dna'])
    series_lockstep(chk, repo, 'C02.l')
    from rules.shared import copy_scalar_fields
    chk.clauses.append('C02.m PVGNode.copy() hands every plain field (truncated, npop_collapsed, cpop_collapsed, cleavage, ...) on unchanged: merged nodes built from copies keep the flags that forbid peptides to start / end at a pop-collapsed or truncated terminus')
    copy_scalar_fields(chk, repo, 'C02.m', ['svgraph.PVGNode:PVGNode'], floor=10)
    fusion_end_flags(chk, repo, 'C02.n')
    from rules.shared import copy_own_containers
    chk.clauses.append('C02.o (shared with C03.i) PVGNode.copy() gives the copy its own containers (variants, selenocysteines, edge sets): merged nodes built from copies of one node do not see each other\'s appended Sec positions')
    copy_own_containers(chk, repo, 'C02.o', ['svgraph.PVGNode:PVGNode'], floor=1)
    over_limit_routes(chk, repo, 'C02.p')
    from rules.shared import readonly_inputs
    chk.clauses.append('C02.q (R-EFFECT) joining the nodes of a miscleaved series only READS the nodes: no local that is an alias of a node\'s own list (selenocysteines, variants) is extended in place - sibling series share the leading node')
    readonly_inputs(chk, repo, 'C02.q', ['svgraph.VariantPeptideDict:MiscleavedNodes.join_miscleaved_peptides'], 'joining a miscleaved series leaves its nodes unchanged', include_self=True)
    append_right_flags(chk, repo, 'C02.r')


def retry_effects(chk, repo, rid):
    """R-EFFECT on the timeout retry (shared with C06.f)."""
    chk.rule(rid, 'R-EFFECT: timeout retry tightens only the complexity knobs, on a copy', 4)
    r = repo.func('cli.call_variant_peptide:caller_reducer')
    chk.uses(r)
    h = [h for t in walk_no_nested(r.node) if isinstance(t, ast.Try) for h in t.handlers]
    if len(h) != 1:
        raise AnalysisError('anchor=caller_reducer: single TimeoutError handler expected')
    hb = h[0]
    assigns = [n for n in ast.walk(hb) if isinstance(n, ast.Assign) and len(n.targets) == 1]
    # P: locals bound to a copy of the cleavage parameters of the dispatch;  D: locals bound to a copy of the dispatch
    param = r.params()[0] if r.params() else 'dispatch'
    D = {unparse(a.targets[0]) for a in assigns if isinstance(a.targets[0], ast.Name) and unparse(a.value) == f'copy.copy({param})'}
    srcs = {param} | D
    P = {unparse(a.targets[0]) for a in assigns if isinstance(a.targets[0], ast.Name) and isinstance(a.value, ast.Call) and call_name(a.value) == 'copy'
         and len(a.value.args) == 1 and isinstance(a.value.args[0], ast.Subscript) and unparse(a.value.args[0].value) in srcs
         and unparse(a.value.args[0].slice) == "'cleavage_params'"}
    attr_w = [(unparse(a.targets[0].value), a.targets[0].attr, a) for a in assigns if isinstance(a.targets[0], ast.Attribute)]
    attr_w += [(unparse(n.target.value), n.target.attr, n) for n in ast.walk(hb) if isinstance(n, ast.AugAssign) and isinstance(n.target, ast.Attribute)]
    attrs = sorted({a for (_o, a, _n) in attr_w})
    chk.ob(rid, 'retry writes only <params copy>.max_variants_per_node and .additional_variants_per_misc', repo.loc(r, hb),
           attrs == ['additional_variants_per_misc', 'max_variants_per_node'],
           f"attribute writes in the retry handler: {sorted((o + '.' + a) for (o, a, _n) in attr_w)} (a retry may alter enzyme / limits / flags)", key=r.qual + '::attr-writes', fn=r.qual)
    item_w = [(unparse(a.targets[0].value), unparse(a.targets[0].slice), a) for a in assigns if isinstance(a.targets[0], ast.Subscript)]
    # flow-sensitive identity tracking through the handler: every local holds a token
    #   ('shared',) the caller's dispatch | ('D', n) a fresh copy of a dispatch | ('P', n) a fresh copy of its cleavage parameters
    # writes must hit fresh copies only and the retried dispatch must be a fresh copy carrying the fresh parameters
    state = {param: ('shared',)}
    fresh = [0]
    bad, unknown = [], []
    linked = set()           # D tokens whose 'cleavage_params' item was set to a P token

    def tok(e):
        if isinstance(e, ast.Name):
            return state.get(e.id)
        if isinstance(e, ast.Call) and call_name(e) in ('copy', 'deepcopy') and len(e.args) == 1:
            a0 = e.args[0]
            t = tok(a0)
            if isinstance(a0, ast.Name) and t is not None and t[0] in ('shared', 'D'):
                fresh[0] += 1
                return ('D', fresh[0])
            if isinstance(a0, ast.Name) and t is not None and t[0] == 'P':
                fresh[0] += 1
                return ('P', fresh[0])
            if isinstance(a0, ast.Subscript) and isinstance(a0.value, ast.Name) and unparse(a0.slice) == "'cleavage_params'":
                t = tok(a0.value)
                if t is not None and t[0] in ('shared', 'D'):
                    fresh[0] += 1
                    return ('P', fresh[0])
        if isinstance(e, ast.Subscript) and isinstance(e.value, ast.Name) and unparse(e.slice) == "'cleavage_params'":
            t = tok(e.value)
            if t is not None and t[0] in ('shared', 'D'):
                return ('sharedP',)
        return None

    def step(stmts, cond):
        for st in stmts:
            if isinstance(st, ast.Assign) and len(st.targets) == 1:
                tg = st.targets[0]
                if isinstance(tg, ast.Name):
                    t = tok(st.value)
                    if cond and (t is not None or tg.id in state):
                        unknown.append(f"`{norm_stmt(st)}` binds a tracked object under a condition")
                    if t is not None:
                        state[tg.id] = t
                    else:
                        state.pop(tg.id, None)
                elif isinstance(tg, ast.Attribute):
                    t = tok(tg.value)
                    if t is None or t[0] != 'P':
                        bad.append(f"`{norm_stmt(st)}` writes an attribute of {unparse(tg.value)}, which is not a fresh copy of the cleavage parameters")
                elif isinstance(tg, ast.Subscript):
                    t = tok(tg.value)
                    if t is None or t[0] != 'D':
                        bad.append(f"`{norm_stmt(st)}` writes an item of {unparse(tg.value)}, which is not a fresh copy of the dispatch")
                    elif unparse(tg.slice) == "'cleavage_params'":
                        v = tok(st.value)
                        if v is not None and v[0] == 'P':
                            linked.add(t)
                        else:
                            bad.append(f"`{norm_stmt(st)}` stores parameters that are not a fresh copy")
            elif isinstance(st, ast.AugAssign) and isinstance(st.target, ast.Attribute):
                t = tok(st.target.value)
                if t is None or t[0] != 'P':
                    bad.append(f"`{norm_stmt(st)}` writes an attribute of {unparse(st.target.value)}, which is not a fresh copy of the cleavage parameters")
            elif isinstance(st, ast.If):
                step(st.body, True)
                step(st.orelse, True)
            elif isinstance(st, (ast.For, ast.While, ast.With, ast.Try)):
                for fld in ('body', 'orelse', 'finalbody'):
                    step(getattr(st, fld, []) or [], True)
                for hh in getattr(st, 'handlers', []) or []:
                    step(hh.body, True)
            elif isinstance(st, ast.Expr) and isinstance(st.value, ast.Call) and isinstance(st.value.func, ast.Attribute) and \
                    st.value.func.attr in ('update', 'pop', 'setdefault', 'clear', 'popitem', '__setitem__', '__setattr__'):
                t = tok(st.value.func.value)
                if t is not None and t[0] not in ('D', 'P'):
                    bad.append(f"`{norm_stmt(st)}` mutates the shared {unparse(st.value.func.value)}")
            elif isinstance(st, ast.Expr) and isinstance(st.value, ast.Call) and call_name(st.value) == 'setattr' and st.value.args:
                t = tok(st.value.args[0])
                if t is None or t[0] != 'P':
                    bad.append(f"`{norm_stmt(st)}` writes an attribute of {unparse(st.value.args[0])}, which is not a fresh copy of the cleavage parameters")

    step(hb.body, False)
    end = state.get(param)
    if not bad and not (end is not None and end[0] == 'D' and end in linked):
        bad.append(f"the dispatch retried after the handler is not a fresh copy carrying fresh parameters (it is {end})")
    if unknown and not bad:
        chk.undecided(rid, 'parameters and dispatch are copied before being modified', repo.loc(r, hb), '; '.join(unknown), key=r.qual + '::copies', fn=r.qual)
    else:
        chk.ob(rid, 'parameters and dispatch are copied before being modified', repo.loc(r, hb), not bad,
               'the retry mutates the shared dispatch / cleavage parameters in place: ' + '; '.join(bad), key=r.qual + '::copies', fn=r.qual)
    keys = sorted({k for (_o, k, _n) in item_w})
    chk.ob(rid, "only dispatch['cleavage_params'] is replaced", repo.loc(r, hb), keys == ["'cleavage_params'"],
           f"dispatch entries replaced: {keys}", key=r.qual + '::item-writes', fn=r.qual)
    # tightening direction: the value written to each knob comes from the tail of the configured schedule ([1:] ... [0]) or current - 1 / 0
    def src_of(attr):
        out = ''
        for (_o, a, n) in attr_w:
            if a == attr and isinstance(n, ast.Assign):
                out += unparse(n.value) + ' <- ' + ' ; '.join(sem.defining_text(hb, x.id) for x in ast.walk(n.value) if isinstance(x, ast.Name))
        return out
    s1, s2 = src_of('max_variants_per_node'), src_of('additional_variants_per_misc')
    ok = '[1:]' in s1 and '[0]' in s1 and '.max_variants_per_node - 1' in s1 and '[1:]' in s2 and '[0]' in s2 and not re.search(r'\+ *[1-9]', s1 + s2)
    raises = [n for n in ast.walk(hb) if isinstance(n, ast.Raise)]
    chk.ob(rid, 'next limits = next configured value, else current - 1 (raise at 0)', repo.loc(r, hb), ok and len(raises) >= 1,
           f"retry limit schedule altered: max_variants_per_node <- {s1[:160]}; additional_variants_per_misc <- {s2[:160]}", key=r.qual + '::schedule', fn=r.qual)

def series_lockstep(chk, repo, rid):
    """R-LOCKSTEP: a miscleaved peptide is the concatenation of the sequences of the nodes of a series; everything positioned
    relative to a node's sequence (its Sec positions, its variants) must be read from THE SAME object whose sequence is joined -
    the series element, which for the first node is a copy trimmed to the ORF start - not from the graph node it was copied from."""
    from sa import sem
    chk.rule(rid, 'R-LOCKSTEP: per-node coordinates (selenocysteines, variants) are read from the series element whose sequence is joined', 2)
    chk.clauses.append('C02.l in join_miscleaved_peptides the Sec positions and variants of a series are taken from the very node objects whose sequences are concatenated (the trimmed copy of the first node, not the untrimmed graph node)')
    f = repo.func('svgraph.VariantPeptideDict:MiscleavedNodes.join_miscleaved_peptides')
    chk.uses(f)
    ch = sem.block_chains(f.node)
    loops_ = [l for l in ast.walk(f.node) if isinstance(l, ast.For) and any(isinstance(x, ast.Attribute) and x.attr == 'selenocysteines' for x in ast.walk(l))]
    loops_ = [l for l in loops_ if not any(m is not l and any(x is m for x in ast.walk(l)) for m in loops_)]      # innermost
    if len(loops_) != 1:
        chk.undecided(rid, 'series loop', f.where, f"{len(loops_)} loops reading .selenocysteines", key=f.qual + '::loop', fn=f.qual)
        return
    lp = loops_[0]
    # the series element: the loop variable whose sequence is the joined piece (`str(N.seq.seq)`), however the loop enumerates the series
    tvars = {t.id for t in ast.walk(lp.target) if isinstance(t, ast.Name)}
    pieces = []
    N = None
    for st in ast.walk(lp):
        if isinstance(st, ast.Assign) and len(st.targets) == 1 and isinstance(st.targets[0], ast.Name):
            m_ = re.fullmatch(r'str\((\w+)\.seq\.seq\)', unparse(st.value))
            if m_ and m_.group(1) in tvars:
                pieces.append(st)
                N = m_.group(1)
    if N is None:
        chk.undecided(rid, 'series loop', repo.loc(f, lp), 'the joined sequence piece `str(<loop variable>.seq.seq)` was not found', key=f.qual + '::loop', fn=f.qual)
        return
    chk.ob(rid, 'the joined sequence piece is the sequence of the series element', repo.loc(f, lp), len(pieces) == 1,
           'the piece appended to the peptide is not `str(<series element>.seq.seq)`', key=f.qual + '::piece', fn=f.qual)
    bad = []
    n = 0
    for st in ast.walk(lp):
        if not (isinstance(st, ast.stmt) and (sem.own_stmt(st) or isinstance(st, (ast.For, ast.If)))):
            continue
        roots = [st.iter] if isinstance(st, ast.For) else ([st.test] if isinstance(st, ast.If) else [st])
        for root in roots:
            for a in ast.walk(root):
                if isinstance(a, ast.Attribute) and a.attr in ('selenocysteines', 'variants') and isinstance(a.ctx, ast.Load):
                    recv = unparse(sem.expand_names(f.node, st, a.value, chains=ch))
                    if recv in ('self',):
                        continue
                    n += 1
                    if recv != N:
                        bad.append(f"`{unparse(a)}` reads from `{recv}`")
    chk.ob(rid, f"{n} reads of per-node coordinates use the series element", repo.loc(f, lp), n >= 2 and not bad,
           '; '.join(bad[:3]) + ': positions relative to a node sequence are taken from a different object than the one whose sequence is joined (for the first node the series '
           'holds a copy trimmed to the ORF start: its coordinates are shifted against the graph node)', key=f.qual + '::same-object', fn=f.qual)



def fusion_end_flags(chk, repo, rid):
    """R-THREAD (value): the graph of a fusion transcript starts in the donor and ends in the accepter (create_variant_graph appends
    the accepter's sequence up to its 3' end), so the flags of the two ends come from the two transcripts: cds_start_nf /
    has_known_orf from the transcript the fusion record lies on (variant.location.seqname), mrna_end_nf from the accepter
    (variant.accepter_transcript_id).  Decided on the keyword values of the ThreeFrameTVG built by call_peptide_fusion, locals
    expanded to their definitions."""
    from sa import sem
    chk.rule(rid, "R-THREAD: the fusion graph takes its 5' flags from the donor transcript and its 3' flag from the accepter transcript", 3)
    chk.clauses.append("C02.n the fusion graph's mrna_end_nf is the accepter transcript's (its 3' end is the accepter's); cds_start_nf / has_known_orf are the donor transcript's")
    f = repo.func('cli.call_variant_peptide:call_peptide_fusion')
    chk.uses(f)
    ctor = [c for c in ast.walk(f.node) if isinstance(c, ast.Call) and call_name(c) == 'ThreeFrameTVG']
    if len(ctor) != 1:
        chk.undecided(rid, 'fusion graph', f.where, f"{len(ctor)} ThreeFrameTVG(...) constructions found in call_peptide_fusion", key=f.qual + '::tvg', fn=f.qual)
        return
    st = repo.enclosing_stmt(ctor[0])
    ch = sem.block_chains(f.node)
    DON, ACC = 'variant.location.seqname', 'variant.accepter_transcript_id'
    want = {'cds_start_nf': (DON, ('is_cds_start_nf()',)), 'has_known_orf': (DON, ('is_protein_coding',)), 'mrna_end_nf': (ACC, ('is_mrna_end_nf()',))}
    for kw, (src, tails) in want.items():
        v = kwarg(ctor[0], kw)
        e = unparse(sem.expand_names(f.node, st, v, chains=ch, depth=4)) if v is not None else None
        ok = e is not None and any(e == f"ref.anno.transcripts[{src}].{t}" for t in tails)
        chk.ob(rid, f"{kw} is read from ref.anno.transcripts[{src}]", repo.loc(f, ctor[0]), ok,
               f"{kw} of the fusion graph is `{e}`: not the {'accepter' if src == ACC else 'donor'} transcript's flag "
               "(a fusion into an mRNA_end_NF accepter keeps / loses its open-ended last peptide wrongly)", key=f"{f.qual}::{kw}", fn=f.qual)



def over_limit_routes(chk, repo, rid):
    """who-may-call + R-EFFECT: a route that carries more variants than allowed is not merged - and its edges are DETACHED (put into the
    trash) in the same place, merge_nodes_routes; otherwise the un-merged head node stays in the cleavage graph as if it ended at
    a cleavage site and peptides stop in the middle of a cleavage-free stretch.  So (a) the peptide graph consults
    nodes_have_too_many_variants only in merge_nodes_routes, and (b) there, on the over-limit branch, every edge of the route goes
    to `trash` before the route is skipped."""
    from sa import sem
    chk.rule(rid, 'who-may-call: over-limit routes are dropped only where their edges are detached (merge_nodes_routes)', 2)
    chk.clauses.append('C02.p routes with too many variants are filtered out only in merge_nodes_routes, which detaches their edges: no other function of the peptide graph drops them silently')
    PVG = 'svgraph.PeptideVariantGraph:PeptideVariantGraph.'
    callers = sorted({f.qual for f in repo.funcs_in('svgraph.PeptideVariantGraph') for c in ast.walk(f.node)
                      if isinstance(c, ast.Call) and call_name(c) == 'nodes_have_too_many_variants' and f.name != 'nodes_have_too_many_variants'})
    chk.ob(rid, 'nodes_have_too_many_variants is consulted by merge_nodes_routes only', repo.func(PVG + 'merge_nodes_routes').where, callers == [PVG + 'merge_nodes_routes'],
           f"nodes_have_too_many_variants is called from {callers}: a route dropped anywhere else keeps its edges, so its head node is treated as a finished peptide",
           key=PVG + 'nodes_have_too_many_variants::callers')
    m = repo.func(PVG + 'merge_nodes_routes')
    chk.uses(m)
    sites = [st for st, fx in sem.facts_where(m.node, lambda st: isinstance(st, ast.Continue))
             if fx is not None and any('nodes_have_too_many_variants' in t and v for t, v in sem.sure_literals(fx))]
    ok = False
    for st in sites:
        blk = next((b for b, i in sem.block_chains(m.node).get(id(st), [])[:1]), None)
        if blk is not None:
            ok = any(isinstance(c, ast.Call) and call_name(c) in ('add', 'update') and unparse(c.func.value) == 'trash' for s_ in blk for c in ast.walk(s_))
    chk.ob(rid, 'the over-limit branch of merge_nodes_routes puts the edges of the route into the trash before skipping it', m.where, bool(sites) and ok,
           'the over-limit route is skipped without detaching its edges', key=m.qual + '::over-limit-detach', fn=m.qual)


def append_right_flags(chk, repo, rid):
    """R-EFFECT (must-assign): PVGNode.append_right(other) makes `other` the new C-terminus of the node: the three attributes that
    describe the C-terminal end (cpop_collapsed, truncated, right_cleavage_pattern_start) are taken over from `other` on EVERY path -
    also when `other` is an empty terminal node flagged `truncated` (the open end of an mRNA_end_NF transcript)."""
    from sa.cfg import CFG
    chk.rule(rid, 'R-EFFECT: append_right takes the C-terminal state (cpop_collapsed, truncated, right cleavage pattern) from the appended node on every path', 3)
    chk.clauses.append('C02.r PVGNode.append_right copies cpop_collapsed / truncated / right_cleavage_pattern_start from the appended node unconditionally: a merged node keeps the truncated flag of an empty terminal node')
    f = repo.func('svgraph.PVGNode:PVGNode.append_right')
    chk.uses(f)
    other = [a.arg for a in f.node.args.args if a.arg != 'self']
    o = other[0] if other else 'other'
    cfg = CFG(f.node)
    exits = [n.id for n in cfg.nodes if n.kind == 'stmt' and isinstance(n.ast, ast.Return)] + [cfg.exit]
    for attr in ('cpop_collapsed', 'truncated', 'right_cleavage_pattern_start'):
        sites = [cfg.node_for(st) for st in ast.walk(f.node) if isinstance(st, ast.Assign) and any(unparse(t) == f"self.{attr}" for t in st.targets)
                 and (unparse(st.value) == f"{o}.{attr}" or (attr == 'right_cleavage_pattern_start' and f"{o}.{attr}" in unparse(st.value)))]
        ok = bool(sites) and any(cfg.dominates(s_, cfg.exit) for s_ in sites)
        chk.ob(rid, f"self.{attr} = {o}.{attr} on every path", f.where, ok,
               f"append_right does not take `{attr}` from the appended node on every path: a node merged with an empty / special terminal node keeps its own C-terminal state "
               "(an unfinished 3' end is reported as a peptide)", key=f"{f.qual}::{attr}", fn=f.qual)

"""C15 - fusion parsers.

a R-ONCE    skip-and-count conservation in the three CLIs
b R-HANDLER record-derived gene lookups are membership-tested / converted to GeneNotFoundError; CLI skips and counts it
c           cache typestate (shared with C11.d): a miss cannot poison later valid lookups
d R-SIBLING + affine: breakpoint -> gene coordinate agrees across the three tools on both strands; location/id/attrs use it
e R-EFFECT  every emitted record gets its own attrs dict
"""
import ast
from sa.model import unparse, norm_stmt, call_name, kwarg, walk_no_nested, AnalysisError
from sa.cfg import CFG, iteration_paths
from sa import guards as G
from sa.affine import Interp, Aff, Obj, model_g2gene

CLIS = {'star_fusion': ('cli.parse_star_fusion:parse_star_fusion', 'parser.STARFusionParser:STARFusionRecord.convert_to_variant_records'),
        'fusion_catcher': ('cli.parse_fusion_catcher:parse_fusion_catcher', 'parser.FusionCatcherParser:FusionCatcherRecord.convert_to_variant_records'),
        'arriba': ('cli.parse_arriba:parse_arriba', 'parser.ArribaParser:ArribaRecord.convert_to_variant_records')}
REASONS = {'invalid_gene_id', 'invalid_position', 'insufficient_evidence', 'antisense_strand'}


def is_inc(n, target):
    return n.kind == 'stmt' and isinstance(n.ast, ast.AugAssign) and isinstance(n.ast.op, ast.Add) and unparse(n.ast.target) == target and unparse(n.ast.value) == '1'


def _is_pair_loop(fn, loop):
    """`for donor_tx, accepter_tx in <itertools.product(...)>` - the iterable may be held in a local of any name"""
    from sa import sem
    if not (isinstance(loop.target, ast.Tuple) and len(loop.target.elts) == 2):
        return False
    it = loop.iter
    if isinstance(it, ast.Name):
        for a in ast.walk(fn):
            if isinstance(a, ast.Assign) and len(a.targets) == 1 and isinstance(a.targets[0], ast.Name) and a.targets[0].id == it.id:
                it = a.value
                break
    if isinstance(it, ast.Call) and call_name(it) == 'product':
        return True
    # [(d, a) for d in donors for a in accepters]: the same donor-major product written as a comprehension
    return isinstance(it, (ast.ListComp, ast.GeneratorExp)) and len(it.generators) == 2 and isinstance(it.elt, ast.Tuple) and len(it.elt.elts) == 2 \
        and not any(g.ifs for g in it.generators) and [unparse(e) for e in it.elt.elts] == [unparse(g.target) for g in it.generators]


def run(chk, repo):
    chk.clauses = [
        'C15.a every parsed record is counted exactly once as succeeded or skipped, and every skip has exactly one reason',
        'C15.b unknown gene ids become GeneNotFoundError (or are membership-tested) and the CLI skips and counts them',
        'C15.c (shared with C11.d) a failed gene lookup cannot make later valid lookups fail',
        'C15.d all three tools map the 1-based breakpoints to the same gene coordinates on both strands; location, id and ACCEPTER_POSITION use them',
        'C15.e attrs dictionaries are created per record',
        'C15.g an intronic breakpoint is moved to the nearest exon boundary (the exon scans stop at the exon next to the position on both strands)',
        'C15.h transcript / gene sequences of every additional transcript are fetched with its own chromosome',
    ]
    chk.not_decided = ['per-tool breakpoint conventions against the tool specifications', 'the fused sequence itself (apply_fusion)']

    chk.rule('C15.a', 'R-ONCE: tally conservation per iteration path', 3)
    chk.rule('C15.b', 'R-HANDLER: unknown genes are converted and counted', 8)
    chk.rule('C15.d', 'R-SIBLING + affine: breakpoint coordinate forms', 9)
    chk.rule('C15.e', 'R-EFFECT: attrs dict fresh per record', 3)
    forms = {}
    for tool, (cq, pq) in CLIS.items():
        c = repo.func(cq)
        p = repo.func(pq)
        chk.uses(c, p)
        cfg = CFG(c.node)
        rel = c.module.relpath
        loop = next((l for l in walk_no_nested(c.node) if isinstance(l, ast.For) and call_name(l.iter) == 'parse'), None)
        if loop is None:
            raise AnalysisError(f"anchor={cq}: record loop not found")
        ps = iteration_paths(cfg, loop, max_paths=20000)
        chk.paths += len(ps)
        bad = None
        for pth in ps:
            if pth.end_kind() not in ('back', 'continue'):
                continue
            nodes = pth.nodes()
            tot = sum(1 for n in nodes if is_inc(n, 'tally.total'))
            suc = sum(1 for n in nodes if is_inc(n, 'tally.succeed'))
            skt = sum(1 for n in nodes if is_inc(n, 'tally.skipped.total'))
            rs = sum(1 for n in nodes if any(is_inc(n, f'tally.skipped.{r}') for r in REASONS))
            if not (tot == 1 and suc + skt == 1 and rs == skt):
                bad = bad or pth
        chk.ob('C15.a', f"{tool}: total==1 and (succeed xor skipped.total) and one reason per skip on every iteration path", repo.loc(c, loop), bad is None,
               'an iteration path counts a record twice / not at all / a skip without (or with several) reasons',
               key=cq + '::tally', path=bad.describe(rel) if bad else None, fn=c.qual)
        # success only after conversion and extension
        hs = [h for t in walk_no_nested(loop) if isinstance(t, ast.Try) for h in t.handlers]
        gnf = [h for h in hs if h.type is not None and unparse(h.type).endswith('GeneNotFoundError')]
        ok = len(gnf) == 1 and any(norm_stmt(s) == 'tally.skipped.invalid_gene_id += 1' for s in gnf[0].body) and isinstance(gnf[0].body[-1], ast.Continue)
        chk.ob('C15.b', f"{tool}: CLI handler for GeneNotFoundError skips and counts invalid_gene_id", repo.loc(c, gnf[0]) if gnf else c.where, ok,
               'GeneNotFoundError is not skipped-and-counted as invalid gene id', key=cq + '::gnf-handler', fn=c.qual)
        # gene lookups in the parser
        for sub in [n for n in ast.walk(p.node) if isinstance(n, ast.Subscript) and unparse(n.value) == 'anno.genes']:
            key = unparse(sub.slice)
            if not key.startswith('self.'):
                continue
            conv = False
            for a in repo.ancestors(sub):
                if isinstance(a, ast.Try) and any(h.type is not None and 'KeyError' in unparse(h.type) and
                                                  any(isinstance(x, ast.Raise) and 'GeneNotFoundError' in unparse(x) for x in h.body) for h in a.handlers):
                    if any(sub in list(ast.walk(st)) for st in a.body):
                        conv = True
            chk.ob('C15.b', f"{tool}: anno.genes[{key}] converts KeyError to GeneNotFoundError", repo.loc(p, sub), conv,
                   f"lookup anno.genes[{key}] with a record-derived id is not wrapped: an unknown gene aborts the run instead of being skipped and counted",
                   key=pq + f'::lookup::{key}', fn=p.qual)
        # ---- d: affine forms
        models = {'coordinate_genomic_to_gene': model_g2gene()}

        def canon(t):
            for a, b in (('self.left_breakpoint_position', 'BPL'), ('self.right_breakpoint_position', 'BPR'),
                         ('self.breakpoint1_position', 'BPL'), ('self.breakpoint2_position', 'BPR')):
                if t == a:
                    return b
            return t

        def cf(text):
            return None
        for s in (1, -1):
            it = Interp(s, call_models=models, canon=canon, record=('FeatureLocation', 'VariantRecord'), max_paths=1024,
                        is_strand=lambda t: False)        # strand tests here concern the REF base only
            # the per-pair loop body is interpreted once: splice it in
            fn = ast.parse(unparse(p.node)).body[0]
            new_body = []
            for st in fn.body:
                if isinstance(st, ast.For) and _is_pair_loop(fn, st):
                    new_body += st.body
                else:
                    new_body.append(st)
            fn.body = new_body
            paths = [x for x in it.run_function(fn) if x.end == 'return' or x.end == 'fallthrough']
            got = set()
            for x in paths:
                locs = [l for l in x.locs if l['ctor'] == 'FeatureLocation']
                recs = [l for l in x.locs if l['ctor'] == 'VariantRecord']
                if not locs or not recs:
                    continue
                l = locs[-1]['kwargs']
                attrs = x.env.get('attrs')
                acc = None
                # ACCEPTER_POSITION value
                for n in ast.walk(fn):
                    if isinstance(n, ast.Dict):
                        for k, v in zip(n.keys, n.values):
                            if isinstance(k, ast.Constant) and k.value == 'ACCEPTER_POSITION':
                                acc = it.ev(x, v)
                got.add((repr(l.get('start')), repr(l.get('end')), repr(acc), repr(x.env.get('fusion_id'))[:0]))
            forms[(tool, s)] = got
        # id / location / attrs consistency (text level, inside the loop)
        lp = next((l for l in walk_no_nested(p.node) if isinstance(l, ast.For) and _is_pair_loop(p.node, l)), None)
        if lp is None:
            raise AnalysisError(f"anchor={pq}: transcript-pair loop not found")
        loc = [x for x in G.find_calls(lp, 'FeatureLocation')]
        dn = unparse(kwarg(loc[0], 'start')) if loc else None
        ok = len(loc) == 1 and unparse(kwarg(loc[0], 'end')) == f"{dn} + 1"
        # the identifier: the `_id` argument of the record built in the loop, through whatever locals it is assembled
        from sa import sem as _s15
        vr = [x for x in G.find_calls(lp, 'VariantRecord') if kwarg(x, '_id') is not None]
        txt = ''
        if len(vr) == 1:
            txt = unparse(_s15.expand_names(p.node, repo.enclosing_stmt(vr[0]), kwarg(vr[0], '_id')))
        accn = None
        for n in ast.walk(lp):
            if isinstance(n, ast.Dict):
                for k, v in zip(n.keys, n.values):
                    if isinstance(k, ast.Constant) and k.value == 'ACCEPTER_POSITION':
                        accn = unparse(v)
        ok = ok and dn is not None and f"{{{dn}}}" in txt and accn is not None and f"{{{accn}}}" in txt
        chk.ob('C15.d', f"{tool}: location [{dn}, {dn}+1), id and ACCEPTER_POSITION use the same coordinates", repo.loc(p, lp), ok,
               f"location start {dn}, ACCEPTER_POSITION {accn}, id '{txt[:80]}' disagree", key=pq + '::coords-consistent', fn=p.qual)
        # ---- e
        recs = [x for x in G.find_calls(lp, 'VariantRecord')]
        for rc in recs:
            a = kwarg(rc, 'attrs')
            fresh = False
            if isinstance(a, ast.Dict):
                fresh = True
            elif isinstance(a, ast.Name):
                fresh = any(isinstance(n, ast.Assign) and unparse(n.targets[0]) == a.id and isinstance(n.value, ast.Dict) for n in lp.body)
            chk.ob('C15.e', f"{tool}: attrs of each record is a dict created inside the pair loop", repo.loc(p, rc), fresh,
                   f"attrs '{unparse(a)}' is created outside the transcript-pair loop and only updated inside: all records of one fusion share one dict and "
                   "carry the last pair's transcript ids", key=pq + '::attrs-fresh', fn=p.qual)
    # sibling comparison of the affine forms
    S, E = 'S', 'E'
    want = {1: {('BPL-S', 'BPL-S+1', 'BPR-S-1', '')}, -1: {('-BPL+E+1', '-BPL+E+2', '-BPR+E', '')}}
    for tool in CLIS:
        for s in (1, -1):
            got = forms.get((tool, s), set())
            chk.ob('C15.d', f"{tool} strand {s:+d}: donor [g(BPL-1)+1, +1), acceptor g(BPR-1): {sorted(want[s])}", repo.func(CLIS[tool][1]).where, got == want[s],
                   f"{tool} on strand {s:+d} builds (donor start, donor end, acceptor position) = {sorted(got)}; the shared convention of the three parsers is "
                   f"{sorted(want[s])} (g = genomic->gene of the 0-based breakpoint; the -1/+1 do not cancel on the minus strand)",
                   key=CLIS[tool][1] + f'::forms::{s:+d}', fn=CLIS[tool][1])
    for tool in CLIS:
        # STAR-Fusion keeps a deliberate difference in the REF base (bp+1 vs bp): reported, not judged
        pass
    chk.note("REF base convention differs by design: STAR-Fusion reads the + strand REF at genome[bp+1], FusionCatcher/Arriba at genome[bp]")

    # ------------------------------------------------------------------ c
    from rules.C11 import cache_typestate
    cache_typestate(chk, repo, 'C15.c')
    gm = repo.func('gtf.GenomicAnnotation:GenomicAnnotation.get_gene_model_from_unversioned_id')
    chk.uses(gm)
    hs = [h for t in walk_no_nested(gm.node) if isinstance(t, ast.Try) for h in t.handlers]
    ok = len(hs) == 2 and all('KeyError' in unparse(h.type) and any(isinstance(x, ast.Raise) and 'GeneNotFoundError' in unparse(x) for x in h.body) for h in hs)
    chk.ob('C15.b', 'unversioned gene lookup converts KeyError to GeneNotFoundError on both branches', gm.where, ok,
           'get_gene_model_from_unversioned_id lets a KeyError escape', key=gm.qual + '::convert', fn=gm.qual)

    chk.rule('C15.f', 'isoform selection uses the half-open containment start <= pos < end', 1)
    gt = repo.func('gtf.GenomicAnnotation:GenomicAnnotation.get_transcripts_with_position')
    chk.uses(gt)
    tests = [n for n in ast.walk(gt.node) if isinstance(n, ast.Compare) and len(n.ops) == 2]
    ok = len(tests) == 1 and unparse(tests[0]) == 'start <= pos < end'
    b = {unparse(n.targets[0]): unparse(n.value) for n in ast.walk(gt.node) if isinstance(n, ast.Assign) and len(n.targets) == 1}
    ok = ok and b.get('start') == 'tx_model.transcript.location.start' and b.get('end') == 'tx_model.transcript.location.end'
    chk.ob('C15.f', 'get_transcripts_with_position: start <= pos < end over the transcript location', gt.where, ok,
           f"containment test {[unparse(t) for t in tests]} with {b}: a breakpoint on the first (or last) genomic base of an isoform silently drops that isoform pair",
           key=gt.qual + '::half-open', fn=gt.qual)

    # ------------------------------------------------------------------ g
    chk.rule('C15.g', 'R-NEAREST: exon scans that move an intronic breakpoint select the NEAREST exon (scan direction x predicate monotonicity)', 4)
    n_scan = 0
    for q in ('gtf.TranscriptAnnotationModel:TranscriptAnnotationModel.get_upstream_exon_end',
              'gtf.TranscriptAnnotationModel:TranscriptAnnotationModel.get_downstream_exon_start'):
        fn = repo.func(q)
        chk.uses(fn)
        loops = sorted([l for l in walk_no_nested(fn.node) if isinstance(l, ast.For) and isinstance(l.target, ast.Name)], key=lambda l: l.lineno)
        for li, lp in enumerate(loops):
            it = unparse(lp.iter)
            direction = 'asc' if it == 'self.exon' else 'desc' if it == 'reversed(self.exon)' else None
            v = lp.target.id
            # the single test that decides the selection: either `if Q: break` (select last before Q) or `if P: <assign>; break` (select first with P)
            tests = [s_ for s_ in lp.body if isinstance(s_, ast.If) and any(isinstance(x, ast.Break) for x in s_.body)]
            mono = None
            if len(tests) == 1:
                cp = G.cmp_parts(tests[0].test)
                if cp:
                    l_, op, r_ = cp
                    if v in l_ and v not in r_:
                        mono = 'up' if op in ('>', '>=') else 'down' if op in ('<', '<=') else None
                    elif v in r_ and v not in l_:
                        mono = 'down' if op in ('>', '>=') else 'up' if op in ('<', '<=') else None
            n_scan += 1
            ok = direction is not None and mono is not None and (direction, mono) in (('asc', 'up'), ('desc', 'down'))
            strand = '+' if li == 0 else '-'
            chk.ob('C15.g', f"{fn.name} ({strand} strand): scan {direction} over exons, stop test `{unparse(tests[0].test) if tests else None}` is false-then-true along the scan",
                   repo.loc(fn, lp), ok,
                   f"the scan runs {direction} and stops on a test that is {'true-then-false' if mono else 'not monotone / not found'} along it: it stops at the FIRST exon of "
                   "the scan instead of the exon next to the breakpoint, so an intronic breakpoint in the 2nd or a later intron is moved across whole exons "
                   "(the fusion transcript keeps / drops exons it should not)", key=f"{q}::nearest::{strand}", fn=fn.qual)

    # ------------------------------------------------------------------ h
    chk.rule('C15.h', 'R-LOCKSTEP: sequences of each (acceptor) transcript are fetched from that transcript\'s own chromosome', 2)
    gq = 'cli.call_variant_peptide:VariantPeptideCaller.gather_data_for_call_variant'
    gd = repo.func(gq)
    chk.uses(gd)
    lps = [l for l in walk_no_nested(gd.node) if isinstance(l, ast.For) and unparse(l.iter) == 'tx_ids' and isinstance(l.target, ast.Name)
           and G.find_calls(l, 'get_transcript_sequence')]
    if len(lps) != 1:
        raise AnalysisError(f"anchor={gq}: per-transcript sequence loop not found")
    lp = lps[0]
    derived = {lp.target.id}
    changed = True
    assigns = [n for n in ast.walk(lp) if isinstance(n, ast.Assign) and len(n.targets) == 1 and isinstance(n.targets[0], ast.Name)]
    while changed:
        changed = False
        for a in assigns:
            if a.targets[0].id not in derived and any(isinstance(x, ast.Name) and x.id in derived for x in ast.walk(a.value)):
                derived.add(a.targets[0].id)
                changed = True
    for nm in ('get_transcript_sequence', 'get_gene_sequence'):
        cs = G.find_calls(lp, nm)
        bad = []
        for c in cs:
            recv = G.root_name(c.func.value)
            argnames = {x.id for a in c.args for x in ast.walk(a) if isinstance(x, ast.Name)} - {'ref', 'self'}
            if recv not in derived or not argnames or not argnames <= derived:
                bad.append(f"{repo.loc(gd, c)}: `{unparse(c)[:70]}` (not derived from `{lp.target.id}`: {sorted(({recv} | argnames) - derived)})")
        chk.ob('C15.h', f"in `for {lp.target.id} in tx_ids` every {nm}() call uses a model and a chromosome derived from `{lp.target.id}`", repo.loc(gd, lp),
               bool(cs) and not bad,
               f"{bad or 'call not found'}: the sequence of an additional (fusion acceptor) transcript is cut from the chromosome of another transcript; for an "
               "inter-chromosomal fusion the acceptor part of the fused transcript is unrelated sequence", key=f"{gq}::own-chrom::{nm}", fn=gd.qual)
    # ------------------------------------------------------------------ shared: option plumbing by name
    from rules.shared import optname
    chk.clauses.append('C15.i (shared R-THREAD) an option value bound to a name that is itself a CLI option carries that very option')
    optname(chk, repo, 'C15.i', ['cli.parse_star_fusion', 'cli.parse_arriba', 'cli.parse_fusion_catcher'], floor=0)
    # ------------------------------------------------------------------ j: unversioned gene ids resolve to the primary (non-PAR_Y) copy
    from sa import sem as _sem15
    chk.rule('C15.j', 'R-GUARD: the unversioned-id mapper never replaces a mapped gene by its _PAR_Y copy', 1)
    chk.clauses.append('C15.j gene ids without version (FusionCatcher) resolve to the primary copy of a PAR gene: a _PAR_Y duplicate never overwrites an existing mapping')
    cm = repo.func('gtf.GenomicAnnotation:GenomicAnnotation.create_gene_id_version_mapper')
    chk.uses(cm)
    ncm = _sem15.nf(repo, cm)
    loops_ = [l for l in ast.walk(ncm) if isinstance(l, ast.For) and isinstance(l.target, ast.Name)]
    stores = []
    for l in loops_:
        stores += [(st, fx, l) for st, fx in _sem15.facts_in_iteration(ncm, l, lambda st: isinstance(st, ast.Assign) and isinstance(st.targets[0], ast.Subscript)
                                                                           and unparse(st.targets[0].value) == 'self.gene_id_version_mapper')]
    okj = bool(stores)
    for st, fx, l in stores:
        K = unparse(st.targets[0].slice)
        Vv = unparse(st.value)
        if fx is not None and fx.known(f"{K} in self.gene_id_version_mapper and '_PAR_Y' in {Vv}") is not False:
            okj = False
    # the other direction: an id is skipped (the iteration ends without storing it) only when it IS a _PAR_Y copy - a mapped _PAR_Y copy is
    # replaced when the primary (chrX) gene arrives later, so the result does not depend on the order of the two copies in the annotation
    skips = []
    for l in loops_:
        skips += [(st, fx) for st, fx in _sem15.facts_in_iteration(ncm, l, lambda st: isinstance(st, ast.Continue))]
    oks = True
    for st, fx in skips:
        vnames = {unparse(s_[0].value) for s_ in stores}
        if fx is None or not any(fx.known(f"'_PAR_Y' in {v_}") is True for v_ in vnames):
            oks = False
    chk.ob('C15.j', 'an id is skipped only when it is itself a _PAR_Y copy (a mapped _PAR_Y copy is replaced by the primary gene arriving later)', cm.where, oks,
           "an incoming primary (non-_PAR_Y) id can be skipped while the mapping still holds the _PAR_Y copy: the result depends on which copy the annotation lists first "
           "(FusionCatcher fusions of PAR genes are emitted on the N-masked chrY copy)", key=cm.qual + '::par-y-replaced', fn=cm.qual)
    chk.ob('C15.j', "mapper[unversioned] is (re)assigned only when it is new or the incoming id is not a _PAR_Y copy", cm.where, okj,
           "a _PAR_Y copy can overwrite the mapping of its chrX gene: FusionCatcher fusions of PAR genes are emitted on the N-masked chrY copy (no junction peptides)",
           key=cm.qual + '::par-y-first-wins', fn=cm.qual)
    from rules.shared import kwname
    from rules.C13 import info_shift_rules
    chk.rule('C15.m', 'R-KEYS (shared with C13.b): the INFO column writes every attribute of a fusion record, positions shifted +1 and read back -1', 2)
    chk.clauses.append('C15.m (shared with C13.b) every attribute of a fusion record is written to the INFO column (ACCEPTER_POSITION = 0 included) with position attributes shifted +1, and read back -1')
    info_shift_rules(chk, repo, 'C15.m')
    from rules.shared import memo_shared
    chk.clauses.append('C15.n (shared with C13.i) a GVF block is parsed afresh on every load: the fusion records whose breakpoints are shifted in place are never handed out a second time')
    memo_shared(chk, repo, 'C15.n', ['seqvar', 'circ'], floor=0)
    from rules.C06 import rule_identity
    chk.clauses.append('C15.l (shared with C06.g) the identity (hash / eq) of a variant record covers the fusion acceptor attributes: set() de-duplication cannot merge two fusions of one donor breakpoint')
    rule_identity(chk, repo, 'C15.l')
    chk.clauses.append('C15.kw (shared R-THREAD) parameters handed on as keyword arguments keep their name: no `a=b` between two parameters of one function')
    kwname(chk, repo, 'C15.kw', ['parser.STARFusionParser', 'parser.FusionCatcherParser', 'parser.ArribaParser', 'cli.parse_star_fusion', 'cli.parse_fusion_catcher', 'cli.parse_arriba'], floor=0)

"""C03 - FASTA headers: label-construction clauses (truthfulness NOT decided).

a R-GUARD synthetic merged-MNV ids never reach a header (individual ids are used)
b R-ONCE  label index taken after exactly one increment; in-peptide duplicates filtered first
c R-EFFECT per-cursor bookkeeping lists handed to sibling cursors are copies (no aliasing between branches)
d        Sec-truncated labels keep every variant that ends at or before the Sec codon
"""
import ast
import re
from sa.model import unparse, norm_stmt, call_name, kwarg, walk_no_nested, AnalysisError
from sa.cfg import CFG, iteration_paths
from sa import guards as G


def run(chk, repo):
    chk.clauses = [
        'C03.a merged-MNV ids are replaced by their individual input ids when a header is built',
        'C03.b within one call graph each header string gets its index from exactly one counter increment; duplicates within a peptide are filtered first',
        'C03.c cleavage-gain bookkeeping handed to each outgoing cursor is a copy, so in-place extensions cannot leak into sibling branches',
        'C03.d a Sec-truncated peptide keeps in its header every variant ending at or before the Sec codon start',
        'C03.g the cursor whose ORF / start-gain variants are propagated into a node is selected from node and traversal state only (never from the last staged edge)',
    ]
    chk.not_decided = ['that exactly the named variants, applied to the backbone, yield the peptide', 'global uniqueness across graphs']

    # ------------------------------------------------------------------ a
    chk.rule('C03.a', 'R-GUARD: variant.id enters variant_id_map only when not a merged MNV', 2)
    f = repo.func('aa.VariantPeptideIdentifier:create_variant_peptide_id')
    chk.uses(f)
    from sa import sem
    nf = sem.nf(repo, f)
    # ids enter the header map through `<list>.append(<v>.id)`; merged MNVs through their INDIVIDUAL_VARIANT_IDS
    def id_appends(st):
        return [c for c in sem.calls_in_stmt(st, 'append') if len(c.args) == 1 and isinstance(c.args[0], ast.Attribute) and c.args[0].attr == 'id'
                and isinstance(c.args[0].value, ast.Name)]
    sites = [(st, fx, id_appends(st)[0]) for st, fx in sem.facts_where(nf, lambda st: sem.own_stmt(st) and bool(id_appends(st)))]
    for st, fx, c in sites:
        V = c.args[0].value.id
        chk.ob('C03.a', 'variant.id appended only on the not-merged-MNV branch', f.where, sem.known(fx, f'not {V}.is_merged_mnv()') is True,
               f"'{norm_stmt(st)}' is reachable for a merged MNV: the synthetic 'MNV-...' id (not present in any input GVF) can reach a header",
               key=f.qual + '::mnv-guard', fn=f.qual)
    ext = sem.facts_where(nf, lambda st: sem.own_stmt(st) and 'INDIVIDUAL_VARIANT_IDS' in unparse(st) and (bool(sem.calls_in_stmt(st, 'extend')) or isinstance(st, ast.AugAssign)))
    def merged_known(st, fx):
        vs = {n.value.id for n in ast.walk(st) if isinstance(n, ast.Attribute) and n.attr == 'attrs' and isinstance(n.value, ast.Name)}
        return any(sem.known(fx, f'{v}.is_merged_mnv()') is True for v in vs)
    ok = len(ext) >= 1 and all(merged_known(st, fx) for st, fx in ext) and len(sites) >= 1
    chk.ob('C03.a', 'merged MNVs contribute their individual input ids', f.where, ok, 'merged-MNV branch altered', key=f.qual + '::mnv-individual', fn=f.qual)
    mk = repo.func('seqvar.VariantRecord:create_mnv_from_adjacent')
    t = unparse(mk.node)
    chk.uses(mk)
    chk.ob('C03.a', 'create_mnv_from_adjacent records the individual ids and the MERGED_MNV flag', mk.where,
           "'INDIVIDUAL_VARIANT_IDS': var_ids" in t and "'MERGED_MNV': True" in t and t.count('var_ids.append(v.id)') == 2,
           'merged MNV no longer carries the ids of every merged variant', key=mk.qual + '::attrs', fn=mk.qual)

    # ------------------------------------------------------------------ b
    chk.rule('C03.b', 'R-ONCE: label counter incremented exactly once before the index is read', 3)
    g = repo.func('svgraph.VariantPeptideDict:VariantPeptideDict.get_peptide_sequences')
    chk.uses(g)
    gcfg = CFG(g.node)
    loop = next(l for l in G.find_for(g.node) if unparse(l.iter) == 'metadatas')
    ps = iteration_paths(gcfg, loop, max_paths=5000)
    chk.paths += len(ps)
    bad = None
    COUNTER = 'self.labels'

    def is_store(a):
        t = a.targets[0] if isinstance(a, ast.Assign) and len(a.targets) == 1 else (a.target if isinstance(a, ast.AugAssign) else None)
        return isinstance(t, ast.Subscript) and unparse(t.value) == COUNTER

    def store_ok(a, lab):
        """the store makes the counter of `lab` one larger than before (or 1 when absent)"""
        t = a.targets[0] if isinstance(a, ast.Assign) else a.target
        if unparse(t.slice) != lab:
            return False
        if isinstance(a, ast.AugAssign):
            return isinstance(a.op, ast.Add) and unparse(a.value) == '1'
        v = unparse(sem_b.expand_names(g.node, a, a.value, allow_calls=('get',))).replace(' ', '')
        return v in ('1', f'{COUNTER}.get({lab},0)+1', f'{COUNTER}[{lab}]+1', f'1+{COUNTER}.get({lab},0)')
    from sa import sem as sem_b
    for p in ps:
        nodes = [n for n in p.nodes() if n.kind == 'stmt']
        emits = [i for i, n in enumerate(nodes) if any(isinstance(c, ast.Call) and call_name(c) == 'AnnotatedPeptideLabel' for c in ast.walk(n.ast))]
        stores = [i for i, n in enumerate(nodes) if isinstance(n.ast, (ast.Assign, ast.AugAssign)) and is_store(n.ast)]
        if not emits:
            if stores:
                bad = bad or p
            continue
        ec = next(c for c in ast.walk(nodes[emits[0]].ast) if isinstance(c, ast.Call) and call_name(c) == 'AnnotatedPeptideLabel')
        lab = unparse(ec.args[0]) if ec.args else None
        inline_idx = None
        if ec.args and isinstance(ec.args[0], ast.JoinedStr):
            # AnnotatedPeptideLabel(f'{label}|{index}', ...): the index is attached in the emitting expression itself
            vals = ec.args[0].values
            if len(vals) == 3 and isinstance(vals[0], ast.FormattedValue) and isinstance(vals[0].value, ast.Name) and isinstance(vals[1], ast.Constant) \
                    and vals[1].value == '|' and isinstance(vals[2], ast.FormattedValue):
                lab = vals[0].value.id
                inline_idx = unparse(vals[2].value)
        uniq = [i for i, n in enumerate(nodes) if isinstance(n.ast, ast.Expr) and isinstance(n.ast.value, ast.Call) and call_name(n.ast.value) == 'add'
                and [unparse(a) for a in n.ast.value.args] == [lab]]
        idx = []
        for i, n in enumerate(nodes):
            a = n.ast
            if isinstance(a, ast.AugAssign) and unparse(a.target) == lab and isinstance(a.op, ast.Add) and isinstance(a.value, ast.JoinedStr):
                fv = [v for v in a.value.values if isinstance(v, ast.FormattedValue)]
                if len(fv) == 1:
                    vt = unparse(fv[0].value)
                    stored_names = {unparse(nodes[k].ast.value) for k in stores if isinstance(nodes[k].ast, ast.Assign)}
                    if vt == f'{COUNTER}[{lab}]' or vt in stored_names:
                        idx.append(i)
        if inline_idx is not None and not idx and len(stores) == 1:
            stored_names = {unparse(nodes[k].ast.value) for k in stores if isinstance(nodes[k].ast, ast.Assign)}
            if inline_idx == f'{COUNTER}[{lab}]' or inline_idx in stored_names:
                idx = [emits[0] - 0.5]          # the index is read in the emitting statement, after the store
        good = lab is not None and len(emits) == 1 and len(idx) == 1 and len(stores) == 1 and len(uniq) == 1 and uniq[0] < stores[0] < idx[0] < emits[0] \
            and store_ok(nodes[stores[0]].ast, lab)
        if not good:
            bad = bad or p
    chk.ob('C03.b', 'every emitted label: duplicate filter -> one increment -> index appended -> emitted', repo.loc(g, loop), bad is None,
           'a header entry can be emitted with an index that was not freshly incremented (duplicate header strings) or a counter is bumped without emission',
           key=g.qual + '::label-counter', path=bad.describe(g.module.relpath) if bad else None, fn=g.qual)
    dup = [n for n in walk_no_nested(loop) if isinstance(n, ast.If) and unparse(n.test) == 'label in unique_labels']
    chk.ob('C03.b', 'duplicates within one peptide are skipped before the counter', repo.loc(g, loop),
           len(dup) == 1 and isinstance(dup[0].body[-1], ast.Continue), 'in-peptide duplicate filter altered', key=g.qual + '::dup-filter', fn=g.qual)
    init = [n for n in walk_no_nested(g.node) if isinstance(n, ast.Assign) and unparse(n.targets[0]) == 'unique_labels']
    okp = len(init) == 1 and not any(a is loop for a in repo.ancestors(init[0]))
    chk.ob('C03.b', 'unique_labels is reset per peptide (outside the metadata loop)', repo.loc(g, init[0]) if init else g.where, okp,
           'unique_labels is not per-peptide', key=g.qual + '::unique-reset', fn=g.qual)

    # ------------------------------------------------------------------ c
    chk.rule('C03.c', 'R-EFFECT: bookkeeping lists given to outgoing cursors are copies', 2)
    for q in ('svgraph.PeptideVariantGraph:PeptideVariantGraph.call_and_stage_known_orf_in_cds',
              'svgraph.PeptideVariantGraph:PeptideVariantGraph.call_and_stage_unknown_orf'):
        h = repo.func(q)
        chk.uses(h)
        # names passed as the cleavage_gain argument of PVGCursor inside a loop over out nodes, and mutated in place in that loop
        for lp in [l for l in walk_no_nested(h.node) if isinstance(l, ast.For) and 'out_nodes' in unparse(l.iter)]:
            curs = [c for c in G.find_calls(lp, 'PVGCursor')]
            for c in curs:
                arg = kwarg(c, 'cleavage_gain') or (c.args[4] if len(c.args) > 4 else None)
                if arg is None or not isinstance(arg, ast.Name):
                    continue
                nm = arg.id
                binds = [n for n in walk_no_nested(lp) if isinstance(n, ast.Assign) and unparse(n.targets[0]) == nm]
                mutated = [w for w in G.writes_in(lp.body) if w[0] == nm and w[1].startswith('call:')]
                def is_fresh(v, depth=0):
                    if isinstance(v, (ast.List, ast.ListComp)) or (isinstance(v, ast.Constant) and v.value is None):
                        return True
                    if isinstance(v, ast.Call) and unparse(v.func) in ('copy.copy', 'list', 'copy.deepcopy'):
                        return True
                    if isinstance(v, ast.Name) and depth < 3 and v.id != nm:
                        bs = [n for n in walk_no_nested(lp) if isinstance(n, ast.Assign) and unparse(n.targets[0]) == v.id]
                        return bool(bs) and all(is_fresh(b.value, depth + 1) for b in bs)
                    return False
                fresh = all(is_fresh(b.value) for b in binds) and bool(binds)
                chk.ob('C03.c', f"{h.name}: cursor list '{nm}' is a fresh list/copy per out node", repo.loc(h, c), fresh,
                       f"'{nm}' handed to each outgoing cursor is bound by {[norm_stmt(b) for b in binds]}: sibling cursors alias one list, and the in-place "
                       f"updates {[norm_stmt(repo.enclosing_stmt(m[2])) for m in mutated]} leak variants of one branch into the headers of another",
                       key=f"{q}::cursor-alias::{nm}", fn=h.qual)

    # ------------------------------------------------------------------ d
    sec_variant_filter(chk, repo, 'C03.d')
    leading_node_sibling(chk, repo, 'C03.e')

    # ------------------------------------------------------------------ g
    chk.rule('C03.g', 'R-EFFECT: the winning cursor of a node is chosen independently of the order its in-edges were staged', 1)
    sq = 'svgraph.PeptideVariantGraph:PVGTraversal.stage'
    sf = repo.func(sq)
    chk.uses(sf)
    ps = sf.params()
    if len(ps) != 4:
        raise AnalysisError(f"anchor={sq}: expected (self, in_node, out_node, cursor)")
    last_edge = {ps[1], ps[3]}
    gate = [i for i, st in enumerate(sf.node.body) if isinstance(st, ast.If) and G.block_leaves(st.body) and not st.orelse
            and 'len(' in unparse(st.test) and f"{ps[2]}.in_nodes" in unparse(st.test)]
    if len(gate) != 1:
        raise AnalysisError(f"anchor={sq}: the all-in-edges-staged gate was not found")
    reads = []
    for st in sf.node.body[gate[0] + 1:]:
        for n in ast.walk(st):
            if isinstance(n, ast.Name) and n.id in last_edge and isinstance(n.ctx, ast.Load):
                reads.append(f"{repo.loc(sf, n)}: `{norm_stmt(repo.enclosing_stmt(n))[:70]}`")
    chk.ob('C03.g', f"after the gate `{unparse(sf.node.body[gate[0]].test)}` nothing reads {sorted(last_edge)} (the edge that happened to be staged last)",
           repo.loc(sf, sf.node.body[gate[0]]), not reads,
           f"the selection among the pooled cursors reads the last staged edge at {reads}: which ORF / start-gain variants are propagated to the node then "
           "depends on the visiting order of its in-edges, so downstream peptides can be labelled with the wrong frameshift / start-gain variants",
           key=sq + '::order-independent', fn=sf.qual)
    from rules.C09 import w2f_label
    chk.rule('C03.h', '(shared with C09.b) W2F ids named in a header are exactly those of the substituted combination', 1)
    chk.clauses.append('C03.h the W2F identifiers appended to a label are those of the combination applied to the sequence (not of every candidate position)')
    w2f_label(chk, repo, 'C03.h')
    from rules.shared import copy_own_containers
    chk.clauses.append('C03.i (R-EFFECT) PVGOrf.copy() gives every copy its own start-gain / cleavage-gain sets: labels added on one traversal branch never leak into a sibling branch')
    copy_own_containers(chk, repo, 'C03.i', ['svgraph.PVGOrf:PVGOrf', 'svgraph.PVGNode:PVGNode'], floor=2)
    sec_split_rebase(chk, repo, 'C03.j')
    stop_lost_scan(chk, repo, 'C03.k')
    stage_comparator_per_node(chk, repo, 'C03.l')
    start_gain_decision(chk, repo, 'C03.m')
    from rules.shared import sec_shift_before_growth
    chk.clauses.append('C03.n in join_miscleaved_peptides the Sec positions of a node are shifted by the length joined before that node (shift precedes the growth of the running length): SECT labels sit on peptides that really end in front of the Sec')
    sec_shift_before_growth(chk, repo, 'C03.n')


def sec_variant_filter(chk, repo, rid):
    """Sec-truncated peptides keep every variant ending at or before the Sec codon start (shared with C01.e)."""
    from sa.cfg import literal
    chk.rule(rid, 'Sec-truncated label keeps variants ending at or before the Sec codon', 1)
    tm = repo.func('svgraph.VariantPeptideDict:MiscleavedNodes.translational_modification')
    chk.uses(tm)
    cv = [n for n in walk_no_nested(tm.node) if isinstance(n, ast.Assign) and unparse(n.targets[0]) == 'cur_variants' and isinstance(n.value, ast.ListComp)]
    ok = False
    detail = ''
    if len(cv) == 1:
        conds = cv[0].value.generators[0].ifs
        lits = {literal(c) for c in conds}
        ok = lits == {('v.location.end <= sec.variant.location.start', True)}
        detail = f"filter {sorted(lits)}"
    chk.ob(rid, 'cur_variants = variants with end <= sec start (half-open: a variant ending at the Sec start is upstream)', repo.loc(tm, cv[0]) if cv else tm.where, ok,
           f"{detail}: a variant ending exactly at the Sec codon start lies inside the truncated peptide but is dropped from its header "
           "(and the peptide itself is dropped when it was the only variant)", key=tm.qual + '::sec-variant-filter', fn=tm.qual)


def leading_node_sibling(chk, repo, rid):
    """R-SIBLING: every traversal passes the in-graph node as leading_node (upstream-indel lookup is keyed by node identity)."""
    chk.rule(rid, 'R-SIBLING: add_miscleaved_sequences always receives leading_node=target_node', 3)
    n = 0
    for f in repo.funcs_in('svgraph.PeptideVariantGraph'):
        for c in G.find_calls(f.node, 'add_miscleaved_sequences', nested=False):
            n += 1
            a = kwarg(c, 'leading_node')
            chk.ob(rid, f"{f.name}: add_miscleaved_sequences(leading_node=target_node)", repo.loc(f, c), a is not None and unparse(a) == 'target_node',
                   f"{f.name} calls add_miscleaved_sequences with leading_node={unparse(a) if a is not None else 'missing (defaults to the truncated copy)'}: "
                   "its sibling traversals pass the in-graph node; the upstream-indel map is keyed by that node, so indels on the outgoing edge vanish from the header",
                   key=f"{f.qual}::leading_node", fn=f.qual)

def sec_split_rebase(chk, repo, rid):
    """When a PVG node is split / truncated at `index`, the Sec positions that go to the RIGHT part are re-based by -index exactly
    once (in split_selenocysteines or at the call site - never in neither, never in both) and those that stay LEFT are not moved.
    A Sec position that is off by the split index truncates the peptide at the wrong residue while the label still says SECT-<pos>."""
    chk.rule(rid, 'R-SIBLING: Sec positions moved to the right part of a split node are re-based by -index exactly once at every call site', 3)
    chk.clauses.append('C03.j selenocysteine positions of the right part of a split / truncated PVG node are shifted by -index exactly once (helper + caller), those of the left part never')
    h = repo.func('svgraph.PVGNode:PVGNode.split_selenocysteines')
    chk.uses(h)
    hp = [a.arg for a in h.node.args.args if a.arg != 'self']
    if len(hp) != 1 or not any(isinstance(r, ast.Return) and isinstance(r.value, ast.Tuple) and len(r.value.elts) == 2 for r in ast.walk(h.node)):
        chk.undecided(rid, 'split_selenocysteines', h.where, 'the helper no longer takes one index and returns a pair', key=h.qual + '::shape', fn=h.qual)
        return
    ret = next(r for r in ast.walk(h.node) if isinstance(r, ast.Return) and isinstance(r.value, ast.Tuple))
    names = [unparse(e) for e in ret.value.elts]

    def shifts_in(fn, listname, idx):
        """how many times elements put into `listname` are shifted by -idx inside fn (0 or 1), None if unclear"""
        n = []
        for c in ast.walk(fn):
            if isinstance(c, ast.Call) and isinstance(c.func, ast.Attribute) and c.func.attr in ('append', 'extend') and unparse(c.func.value) == listname and c.args:
                n.append(1 if re.search(r'\.shift\(-\(?' + re.escape(idx) + r'\)?\)', unparse(c.args[0])) else (None if '.shift(' in unparse(c.args[0]) else 0))
            if isinstance(c, ast.Assign) and unparse(c.targets[0]) == listname and isinstance(c.value, (ast.ListComp,)):
                n.append(1 if re.search(r'\.shift\(-\(?' + re.escape(idx) + r'\)?\)', unparse(c.value.elt)) else (None if '.shift(' in unparse(c.value) else 0))
        if not n or None in n or len(set(n)) != 1:
            return None
        return n[0]
    h_left, h_right = shifts_in(h.node, names[0], hp[0]), shifts_in(h.node, names[1], hp[0])
    if h_left is None or h_right is None:
        chk.undecided(rid, 'split_selenocysteines', h.where, 'cannot tell whether the helper re-bases the positions', key=h.qual + '::shape', fn=h.qual)
        return
    n_sites = 0
    for f in repo.funcs_in('svgraph.PVGNode'):
        for st in ast.walk(f.node):
            if isinstance(st, ast.Assign) and isinstance(st.value, ast.Call) and call_name(st.value) == 'split_selenocysteines' and isinstance(st.targets[0], ast.Tuple) \
                    and len(st.targets[0].elts) == 2 and len(st.value.args) == 1:
                n_sites += 1
                L, R = (unparse(e) for e in st.targets[0].elts)
                idx = unparse(st.value.args[0])
                uses = {L: [], R: []}
                for a in ast.walk(f.node):
                    if isinstance(a, ast.Assign) and isinstance(a.targets[0], ast.Attribute) and a.targets[0].attr == 'selenocysteines':
                        for nm in (L, R):
                            if any(isinstance(x, ast.Name) and x.id == nm for x in ast.walk(a.value)):
                                t = unparse(a.value)
                                if t == nm:
                                    uses[nm].append(0)
                                elif re.fullmatch(r'\[(\w+)\.shift\(-\(?' + re.escape(idx) + r'\)?\) for \1 in ' + re.escape(nm) + r'\]', t):
                                    uses[nm].append(1)
                                else:
                                    uses[nm].append(None)
                ok = uses[L] == [0 - h_left + 0] and uses[R] == [1 - h_right] if h_left == 0 else False
                chk.ob(rid, f"{f.qual}: Sec positions of the right part re-based by -{idx} exactly once, left part untouched", repo.loc(f, st), ok,
                       f"{f.name}: helper shifts (left {h_left}, right {h_right}) + this call site shifts (left {uses[L]}, right {uses[R]}): the right part must be "
                       "shifted exactly once and the left part never - a Sec position off by the split index cuts the peptide at the wrong residue under an unchanged SECT label",
                       key=f"{f.qual}::sec-rebase", fn=f.qual)
    chk.extra['sec_split_sites'] = n_sites



def stop_lost_scan(chk, repo, rid):
    """R-DEPENDS / R-DRAIN: PVGNode.get_stop_lost_variants(stop_index) is a function of the node's variants and the stop codon: every
    variant is looked at (the scan over self.variants is on every path to a return) and no other state of the node (its
    reference locations, its sequence) takes part - residues made of variant sequence have no reference location, so a test on
    seq.locations drops exactly the stop-lost variants that replace the whole stop codon."""
    from sa.cfg import CFG
    chk.rule(rid, 'R-DEPENDS: stop-lost variants are decided from the variants of the node and the stop codon alone', 2)
    chk.clauses.append('C03.k get_stop_lost_variants looks at every variant of the node and at nothing else of the node (no early exit on reference locations): read-through peptides keep the stop-lost variant in their label')
    f = repo.func('svgraph.PVGNode:PVGNode.get_stop_lost_variants')
    chk.uses(f)
    reads = sorted({unparse(n) for n in ast.walk(f.node) if isinstance(n, ast.Attribute) and isinstance(n.ctx, ast.Load) and isinstance(n.value, ast.Name)
                    and n.value.id == 'self'} | {f"self.{n.func.attr}()" for n in ast.walk(f.node) if isinstance(n, ast.Call) and isinstance(n.func, ast.Attribute)
                                                 and isinstance(n.func.value, ast.Name) and n.func.value.id == 'self'})
    chk.ob(rid, 'the only state of the node that is read is self.variants', f.where, set(reads) <= {'self.variants'},
           f"get_stop_lost_variants reads {reads}: the answer depends on more than the variants and the stop codon", key=f.qual + '::depends', fn=f.qual)
    cfg = CFG(f.node)
    loops = [cfg.node_for(l) for l in walk_no_nested(f.node) if isinstance(l, ast.For) and unparse(l.iter) == 'self.variants']
    scans = loops or [n.id for n in cfg.nodes if n.kind == 'stmt' and any(isinstance(c, (ast.ListComp, ast.GeneratorExp)) and
                      any(unparse(g.iter) == 'self.variants' and not g.ifs == None for g in c.generators) for c in ast.walk(n.ast))]
    rets = [n.id for n in cfg.nodes if n.kind == 'stmt' and isinstance(n.ast, ast.Return)]
    ok = bool(scans) and bool(rets) and all(any(cfg.dominates(s_, r_) or s_ == r_ for s_ in scans) for r_ in rets)
    chk.ob(rid, 'the scan over self.variants is on every path to a return', f.where, ok,
           'get_stop_lost_variants can return without having looked at the variants of the node', key=f.qual + '::scan-dominates', fn=f.qual)
    # the test applied to each variant is an interval OVERLAP with the stop codon [stop_index, stop_index + 3): `.overlaps(<that location>)`, or the
    # two comparisons start < stop_index + 3 and stop_index < end.  Membership of single positions (`stop_index in location`) is not an
    # overlap test: a variant lying strictly inside the codon contains neither end point of it... and vice versa.
    from sa import sem
    ch = sem.block_chains(f.node)
    tests = []
    for n in ast.walk(f.node):
        if isinstance(n, ast.If) and any(isinstance(c, ast.Call) and call_name(c) in ('append', 'add') for s_ in n.body for c in ast.walk(s_)):
            tests.append(unparse(sem.expand_names(f.node, n, n.test, chains=ch, allow_calls=('FeatureLocation', 'overlaps'), depth=4)))
        if isinstance(n, (ast.ListComp, ast.GeneratorExp)) and any(unparse(g.iter) == 'self.variants' for g in n.generators):
            st_ = repo.enclosing_stmt(n)
            tests += [unparse(sem.expand_names(f.node, st_, c_, chains=ch, allow_calls=('FeatureLocation', 'overlaps'), depth=4)) for g in n.generators for c_ in g.ifs]
    norm = [re.sub(r'\s', '', t) for t in tests]
    overlap_call = any(re.search(r'\.overlaps\(FeatureLocation\((start=stop_index,end=stop_index\+3|end=stop_index\+3,start=stop_index)\)\)', t) for t in norm)
    member = any(re.search(r'\bin\b', t) and 'location' in t and 'overlaps' not in t for t in tests)
    if overlap_call:
        chk.ob(rid, 'each variant is tested for overlap with the stop codon [stop_index, stop_index + 3)', f.where, True, '', key=f.qual + '::overlap-test', fn=f.qual)
    elif member:
        chk.ob(rid, 'each variant is tested for overlap with the stop codon [stop_index, stop_index + 3)', f.where, False,
               f"the per-variant test is {tests}: membership of single positions in the variant location is not an overlap test (a variant strictly inside the stop codon "
               'contains neither of its end points and is not reported as stop-lost)', key=f.qual + '::overlap-test', fn=f.qual)
    else:
        chk.undecided(rid, 'stop-codon overlap test', f.where, f"the per-variant test {tests} is neither `.overlaps(FeatureLocation(start=stop_index, end=stop_index + 3))` nor a membership test",
                      key=f.qual + '::overlap-test', fn=f.qual)


def stage_comparator_per_node(chk, repo, rid):
    """R-FRESH: PVGTraversal.stage ranks the cursors staged for a node with a comparator chosen FOR THAT NODE (for a known ORF it
    depends on out_node.reading_frame_index).  The chosen comparator must not be stored on the traversal (self.<attr>) and read
    back for another node: no function that stage() calls on self to obtain the sort key may return a value it read from an
    attribute of self that it (or stage) assigns."""
    from sa import sem
    chk.rule(rid, 'R-FRESH: the cursor comparator is chosen per staged node, never cached on the traversal', 1)
    chk.clauses.append('C03.l the comparator that ranks the cursors of a node is selected from that node (reading frame vs known ORF) at every call of stage(): it is not memoised across nodes')
    f = repo.func('svgraph.PeptideVariantGraph:PVGTraversal.stage')
    chk.uses(f)
    cls_q = f.qual.rsplit('.', 1)[0]
    sorts = [c for c in ast.walk(f.node) if isinstance(c, ast.Call) and call_name(c) in ('sort', 'sorted') and kwarg(c, 'key') is not None]
    if not sorts:
        chk.undecided(rid, 'cursor ranking', f.where, 'no sort(key=...) found in PVGTraversal.stage', key=f.qual + '::sort', fn=f.qual)
        return
    assigned = set()
    for q, g in repo.functions.items():
        if q.startswith(cls_q + '.'):
            for n in ast.walk(g.node):
                if isinstance(n, ast.Attribute) and isinstance(n.ctx, ast.Store) and isinstance(n.value, ast.Name) and n.value.id == 'self':
                    assigned.add(n.attr)
    cmp_names = {q.rsplit('.', 1)[1] for q in repo.functions if q.startswith(cls_q + '.') and q.rsplit('.', 1)[1].startswith(('cmp_', 'comp_'))}
    for c in sorts:
        key = kwarg(c, 'key')
        st = repo.enclosing_stmt(c)
        e = sem.expand_names(f.node, st, key, allow_calls=('cmp_to_key',), depth=4)
        bad = []
        for n in ast.walk(e):
            # a data attribute of the traversal (assigned somewhere in the class, not a method) used as / inside the key
            if isinstance(n, ast.Attribute) and isinstance(n.value, ast.Name) and n.value.id == 'self' and n.attr in assigned and n.attr not in cmp_names:
                bad.append(f"self.{n.attr}")
            if isinstance(n, ast.Call) and isinstance(n.func, ast.Attribute) and isinstance(n.func.value, ast.Name) and n.func.value.id == 'self' \
                    and f"{cls_q}.{n.func.attr}" in repo.functions and n.func.attr not in cmp_names:
                h = repo.func(f"{cls_q}.{n.func.attr}")
                for r_ in [x for x in ast.walk(h.node) if isinstance(x, ast.Return) and x.value is not None]:
                    for m in ast.walk(r_.value):
                        if isinstance(m, ast.Attribute) and isinstance(m.value, ast.Name) and m.value.id == 'self' and m.attr in assigned and m.attr not in cmp_names:
                            bad.append(f"self.{n.func.attr}() returns self.{m.attr}")
        chk.ob(rid, 'the sort key is built from the comparator chosen in this call', repo.loc(f, c), not bad,
               f"the cursors are ranked with {sorted(set(bad))}: a value kept on the traversal object, chosen for an earlier node "
               "(in-frame and frame-shifted nodes need different comparators)", key=f.qual + '::comparator-fresh', fn=f.qual)



def start_gain_decision(chk, repo, rid):
    """Decision function: which variants of the start node go into the start-gain set of a cursor that leaves a novel start
    (call_and_stage_known_orf_not_in_cds).  Per variant of target_node the set receives it iff
        is_frameshifting()  or  (location.start > start_index and is_stop_altering)
    - a frameshift counts wherever it lies in the node (an indel anchored on the start codon shifts everything behind it), a
    stop-altering variant only behind the start.  The condition under which `<set>.add(variant.variant)` is reached in the loop
    over target_node.variants is built as one boolean expression (sem.emit_condition) and compared by truth table."""
    from sa import sem
    chk.rule(rid, 'decision: frameshifting variants of the start node always enter the start-gain set; stop-altering ones only behind the start', 1)
    chk.clauses.append('C03.m in call_and_stage_known_orf_not_in_cds a variant of the start node enters start_gain iff it is frameshifting, or it starts behind the start index and alters the stop (position does not gate frameshifts): downstream labels name the frameshift they depend on')
    f = repo.func('svgraph.PeptideVariantGraph:PeptideVariantGraph.call_and_stage_known_orf_not_in_cds')
    chk.uses(f)

    def is_add(st):
        return isinstance(st, ast.Expr) and isinstance(st.value, ast.Call) and call_name(st.value) == 'add' and len(st.value.args) == 1
    loops = [l for l in ast.walk(f.node) if isinstance(l, ast.For) and unparse(l.iter) == 'target_node.variants' and isinstance(l.target, ast.Name)
             and any(is_add(x) for x in ast.walk(l))]
    if len(loops) != 1:
        chk.undecided(rid, 'start-gain of the start node', f.where, f"{len(loops)} loops over target_node.variants that add to a set found", key=f.qual + '::start-gain-decision', fn=f.qual)
        return
    v = loops[0].target.id
    ec = sem.emit_condition(f.node, loops[0].body, is_add, allow_calls=('is_frameshifting', 'get_query_index'))
    if ec is None:
        chk.undecided(rid, 'start-gain of the start node', repo.loc(f, loops[0]), 'the condition of the add could not be expressed as one decision', key=f.qual + '::start-gain-decision', fn=f.qual)
        return
    want = ast.parse(f"{v}.variant.is_frameshifting() or ({v}.location.start > start_index and {v}.is_stop_altering)", mode='eval').body
    # the tests inside ec are expanded to their definitions; expand the names of the stated decision the same way (at the first statement of the loop body)
    want = sem.expand_names(f.node, loops[0].body[0], want, allow_calls=('is_frameshifting', 'get_query_index'), keep=(v,))
    eqv, wit = sem.tt_equal(ec[0], want)
    if eqv is None:
        chk.undecided(rid, 'start-gain of the start node', repo.loc(f, loops[0]), f"truth table too large ({wit})", key=f.qual + '::start-gain-decision', fn=f.qual)
        return
    chk.ob(rid, 'add <=> frameshifting or (behind the start and stop-altering)', repo.loc(f, loops[0]), eqv,
           f"the start-gain decision differs when {sorted(k for k, x in (wit or {}).items() if x)} hold and {sorted(k for k, x in (wit or {}).items() if not x)} do not "
           "(a frameshifting variant anchored on the start codon is dropped from the labels of everything downstream)", key=f.qual + '::start-gain-decision', fn=f.qual)

"""C08 - callNovelORF: selection guards, option liveness, flag threading, shared ORF map."""
import ast
from sa.model import unparse, norm_stmt, call_name, kwarg, walk_no_nested, AnalysisError
from sa.cfg import CFG, iteration_paths
from sa import guards as G
from sa import options as O

ENTRY = 'cli.call_novel_orf:call_novel_orf_peptide'
MAIN = 'cli.call_novel_orf:call_noncoding_peptide_main'
SUBP = 'cli.call_novel_orf:add_subparser_call_novel_orf'
ORFS = 'cli.call_novel_orf:get_orf_sequences'
NAMED = {'orf_assignment': '--orf-assignment', 'w2f_reassignment': '--w2f-reassignment',
         'coding_novel_orf': '--coding-novel-orf', 'inclusion_biotypes': '--inclusion-biotypes',
         'exclusion_biotypes': '--exclusion-biotypes', 'min_tx_length': '--min-tx-length'}


def run(chk, repo):
    chk.clauses = [
        'C08.a on every path to the per-transcript caller: non-coding, or --coding-novel-orf set; for non-coding '
        'transcripts the biotype inclusion/exclusion, proteome-membership and min-tx-length tests all passed',
        'C08.b every option the property names is read and the read is not inert',
        'C08.c orf-assignment / w2f / cleavage params / canonical pool reach the caller unmodified with the ORF-mode flags',
        'C08.d peptide labels and the ORF FASTA come from the same graph object; ORFs and peptides are emitted together',
    ]
    chk.not_decided = ['equality with the definitional three-frame ORF digest', 'that every listed ORF has surviving peptides']
    f = repo.func(ENTRY)
    m = repo.func(MAIN)
    sp = repo.func(SUBP)
    go = repo.func(ORFS)
    chk.uses(f, m, sp, go)
    rel = f.module.relpath
    cfg = CFG(f.node)

    # ---------------------------------------------------------------- a
    chk.rule('C08.a', 'R-GUARD (path literals): transcript selection dominates the per-transcript call', 5)
    loops = [l for l in G.find_for(f.node) if unparse(l.iter) == 'anno.transcripts']
    if len(loops) != 1:
        raise AnalysisError(f"anchor={ENTRY}: loop over anno.transcripts not found")
    loop = loops[0]
    calls = [c for c in G.find_calls(loop, 'call_noncoding_peptide_main')]
    if len(calls) != 1:
        raise AnalysisError(f"anchor={ENTRY}: call to call_noncoding_peptide_main not found")
    chk.call_sites += 1
    site = cfg.node_for(repo.enclosing_stmt(calls[0]))

    def stop(src, label, dst):
        return dst == site
    head = cfg.node_for(loop)
    paths = cfg.paths(head, stop=lambda s, l, d: d == site or (d == head and l in ('back', 'continue')),
                      start_label='loop', max_paths=20000)
    chk.paths += len(paths)
    reach = [p for p in paths if p.steps[-1][2] == site]
    req_noncoding = {
        'inclusion-biotypes': 'not inclusion_biotypes or tx_model.transcript.biotype in inclusion_biotypes',
        'exclusion-biotypes': 'not exclusion_biotypes or tx_model.transcript.biotype not in exclusion_biotypes',
        'proteome-membership': 'tx_id not in proteome',
        'min-tx-length': 'not tx_model.transcript_len() < args.min_tx_length',
    }
    coding_ok, coding_bad = True, None
    nc = {k: True for k in req_noncoding}
    nc_bad = {}
    n_coding = n_noncoding = 0
    for p in reach:
        pc = p.facts.known('tx_model.is_protein_coding')
        if pc is not False:
            n_coding += 1
            # coding (or undiscriminated) path: flag must be known true
            if p.facts.known('args.coding_novel_orf') is not True:
                coding_ok = False
                coding_bad = coding_bad or p
        if pc is not True:
            n_noncoding += 1
            for k, formula in req_noncoding.items():
                if p.facts.known(formula) is not True:
                    nc[k] = False
                    nc_bad.setdefault(k, p)
    key = f"{ENTRY}::for tx_id in anno.transcripts"
    chk.ob('C08.a', 'coding transcripts reach the caller only with --coding-novel-orf', repo.loc(f, loop), coding_ok and n_coding > 0,
           "a path reaches call_noncoding_peptide_main with tx_model.is_protein_coding not known false and "
           "args.coding_novel_orf not known true: coding transcripts are processed without --coding-novel-orf"
           if n_coding else "no path lets coding transcripts reach the caller even with --coding-novel-orf",
           key=key + '::coding-guard', path=coding_bad.describe(rel) if coding_bad else None, fn=f.qual)
    for k in req_noncoding:
        chk.ob('C08.a', f'non-coding path passed the {k} test', repo.loc(f, loop), nc[k] and n_noncoding > 0,
               f"a non-coding transcript reaches the caller without the {k} condition '{req_noncoding[k]}' being established",
               key=key + f'::{k}', path=nc_bad[k].describe(rel) if k in nc_bad else None, fn=f.qual)

    # ---------------------------------------------------------------- b
    chk.rule('C08.b', 'R-OPTION: every named option is read in reachable code and the read is not inert', 6)
    opts = O.cli_options(repo, sp)
    reach_fns = O.reachable_functions(repo, f, depth=2, same_pkg_prefixes=('cli.call_novel_orf', 'cli.common'))
    nodes = [g.node for g in reach_fns]
    for dest, flag in NAMED.items():
        if dest not in opts:
            chk.ob('C08.b', f'{flag} is defined by the sub-parser', sp.where, False,
                   f"option {flag} named by the property is not defined", key=f"{SUBP}::{dest}::defined", fn=sp.qual)
            continue
        reads = O.option_reads(nodes, dest)
        live = [r for r in reads if not O.is_inert_read(repo, r)]
        where = f"{rel}:{reads[0].lineno}" if reads else opts[dest][1]
        chk.ob('C08.b', f'{flag} is live', where, bool(live),
               f"option {flag} is {'never read' if not reads else 'only read by an if whose branches do nothing (inert)'}",
               key=f"{ENTRY}::option::{dest}", fn=f.qual)
    for dest, (flag, where) in sorted(opts.items()):
        if dest in NAMED:
            continue
        reads = O.option_reads(nodes, dest)
        if not [r for r in reads if not O.is_inert_read(repo, r)]:
            chk.note(f"option {flag} (dest {dest}) accepted by callNovelORF is not read in its reachable code ({where})")

    # ---------------------------------------------------------------- c
    chk.rule('C08.c', 'R-THREAD: parameters reach the caller unmodified; ORF-mode flags are constants', 14)
    want_call = {'orf_assignment': 'args.orf_assignment', 'w2f_reassignment': 'args.w2f_reassignment',
                 'cleavage_params': 'cleavage_params', 'canonical_peptides': 'canonical_peptides',
                 'tx_id': 'tx_id', 'tx_model': 'tx_model', 'genome': 'genome'}
    for k, v in want_call.items():
        a = kwarg(calls[0], k)
        chk.ob('C08.c', f'call_noncoding_peptide_main({k}={v})', repo.loc(f, calls[0]), a is not None and unparse(a) == v,
               f"argument {k} is {unparse(a) if a is not None else 'missing'}, expected {v}", key=f"{ENTRY}::arg::{k}", fn=f.qual)
    for nm in ('cleavage_params', 'canonical_peptides'):
        w = [x for x in G.writes_in(loop.body) if x[0] == nm]
        chk.ob('C08.c', f'{nm} not modified in the transcript loop', repo.loc(f, loop), not w,
               f"{nm} is written inside the loop: {[norm_stmt(x[2]) for x in w]}", key=f"{ENTRY}::loop-writes::{nm}", fn=f.qual)
    cvp = [c for c in G.find_calls(m.node, 'call_variant_peptides')]
    if len(cvp) != 1:
        raise AnalysisError(f"anchor={MAIN}: call_variant_peptides call not found")
    want_cvp = {'check_variants': 'False', 'check_orf': 'True', 'denylist': 'canonical_peptides',
                'orf_assignment': 'orf_assignment', 'w2f': 'w2f_reassignment', 'check_external_variants': 'False'}
    for k, v in want_cvp.items():
        a = kwarg(cvp[0], k)
        chk.ob('C08.c', f'call_variant_peptides({k}={v})', repo.loc(m, cvp[0]), a is not None and unparse(a) == v,
               f"argument {k} is {unparse(a) if a is not None else 'missing'}, expected {v}", key=f"{MAIN}::cvp-arg::{k}", fn=m.qual)
    for nm in m.params():
        w = [x for x in G.writes_in(m.node.body) if x[0] == nm and x[1] == 'assign']
        if w:
            chk.ob('C08.c', f'parameter {nm} not rebound in the caller', repo.loc(m, w[0][2]), False,
                   f"parameter {nm} is rebound: {norm_stmt(w[0][2])}", key=f"{MAIN}::rebinding::{nm}", fn=m.qual)
    tvg = [c for c in G.find_calls(m.node, 'ThreeFrameTVG')]
    want_tvg = {'cleavage_params': 'cleavage_params', 'has_known_orf': 'False', 'seq': 'tx_seq', '_id': 'tx_id'}
    for k, v in want_tvg.items():
        a = kwarg(tvg[0], k) if tvg else None
        chk.ob('C08.c', f'ThreeFrameTVG({k}={v})', repo.loc(m, tvg[0]) if tvg else m.where, a is not None and unparse(a) == v,
               f"graph argument {k} is {unparse(a) if a is not None else 'missing'}, expected {v}", key=f"{MAIN}::tvg-arg::{k}", fn=m.qual)
    adds = [c for c in G.find_calls(loop, 'add_peptide')]
    for c in adds:
        args = [unparse(a) for a in c.args] + [f"{k.arg}={unparse(k.value)}" for k in c.keywords]
        ok = ('canonical_peptides' in args or 'canonical_peptides=canonical_peptides' in args) and \
             ('cleavage_params' in args or 'cleavage_params=cleavage_params' in args) and \
             not any(a.startswith('skip_checking') for a in args) and len(c.args) <= 3
        chk.ob('C08.c', 'pool.add_peptide filters against the canonical pool and the limits', repo.loc(f, c), ok,
               f"add_peptide called with {args}: the canonical/limit filter is bypassed or mis-parameterised",
               key=f"{ENTRY}::add_peptide-args", fn=f.qual)
    chk.ob('C08.c', 'peptides are added through add_peptide', repo.loc(f, loop), len(adds) == 1,
           f"{len(adds)} add_peptide calls in the loop", key=f"{ENTRY}::add_peptide-count", fn=f.qual)

    # ---------------------------------------------------------------- d
    chk.rule('C08.d', 'labels and ORF FASTA read the same graph; ORFs and peptides emitted together', 4)
    pg_assign = [n for n in walk_no_nested(m.node) if isinstance(n, ast.Assign) and unparse(n.targets[0]) == 'pgraph']
    gos = [c for c in G.find_calls(m.node, 'get_orf_sequences')]
    ok = len(pg_assign) == 1 and len(gos) == 1 and unparse(kwarg(gos[0], 'pgraph')) == 'pgraph' and \
        unparse(cvp[0].func.value) == 'pgraph' and unparse(kwarg(gos[0], 'tx_seq')) == 'tx_seq' and \
        unparse(kwarg(gos[0], 'tx_id')) == 'tx_id'
    chk.ob('C08.d', 'get_orf_sequences receives the graph the peptides were called from', repo.loc(m, gos[0]) if gos else m.where, ok,
           'the ORF list is not derived from the same pgraph / tx_seq / tx_id as the peptides', key=f"{MAIN}::same-graph", fn=m.qual)
    reads_map = [n for n in ast.walk(go.node) if isinstance(n, ast.Attribute) and n.attr == 'orf_id_map']
    chk.ob('C08.d', 'get_orf_sequences enumerates pgraph.orf_id_map', go.where,
           len(reads_map) == 1 and unparse(reads_map[0].value) == 'pgraph',
           'ORF ids are not taken from pgraph.orf_id_map (ids in peptide labels and ORF FASTA may disagree)',
           key=f"{ORFS}::orf_id_map", fn=go.qual)
    ex = kwarg(gos[0], 'exclude_canonical_orf') if gos else None
    chk.ob('C08.d', 'no ORF is excluded from the ORF FASTA (exclude_canonical_orf=False)', repo.loc(m, gos[0]) if gos else m.where,
           ex is not None and unparse(ex) == 'False', 'ORFs may be dropped from the ORF FASTA while their peptides are kept',
           key=f"{MAIN}::exclude_canonical_orf", fn=m.qual)
    # in the loop: `if not orfs: continue` precedes both emissions; both emissions on the same paths
    ext = [c for c in G.find_calls(loop, 'extend') if unparse(c.func.value) == 'orf_pool']
    okp = False
    if len(ext) == 1 and len(adds) == 1:
        n_ext = cfg.node_for(repo.enclosing_stmt(ext[0]))
        n_add = cfg.node_for(repo.enclosing_stmt(adds[0]))
        # the add loop is reachable only after the extend, and every path through extend reaches the add loop head
        add_loop = next(a for a in repo.ancestors(adds[0]) if isinstance(a, ast.For))
        okp = cfg.dominates(n_ext, n_add) and unparse(add_loop.iter) == 'peptides' and \
            G.facts_at(cfg, n_ext).get('orfs') is True
    chk.ob('C08.d', 'ORFs are listed iff peptides of that transcript are added (both after `if not orfs`)', repo.loc(f, loop), okp,
           'orf_pool.extend and the peptide additions are not on the same paths', key=f"{ENTRY}::orfs-with-peptides", fn=f.qual)

    # ---------------------------------------------------------------- e
    chk.rule('C08.e', 'denylist skip of a start-codon peptide requires BOTH the M-form and the M-removed form to be denylisted', 1)
    jm = repo.func('svgraph.VariantPeptideDict:MiscleavedNodes.join_miscleaved_peptides')
    chk.uses(jm)
    jcfg = CFG(jm.node)
    # the `continue` right after the denylist test
    ifs = [n for n in walk_no_nested(jm.node) if isinstance(n, ast.If) and 'is_in_denylist' in unparse(n.test) and G.block_leaves(n.body)]
    okk = False
    bad = None
    if len(ifs) == 1:
        site = jcfg.node_for(ifs[0].body[0])
        okk = G.must_at(jcfg, site, 'seq in denylist') and G.must_at(jcfg, site, 'not is_start_codon or seq[1:] in denylist')
    chk.ob('C08.e', 'skip only if seq in denylist and (not start codon or seq[1:] in denylist)', repo.loc(jm, ifs[0]) if ifs else jm.where, okk,
           'a start-codon peptide whose M-retaining form is canonical is skipped although its M-removed form is not canonical: that digestion product is lost',
           key=jm.qual + '::denylist-start-codon', fn=jm.qual)

    # ---------------------------------------------------------------- f
    from sa.affine import simple_aff, Aff
    chk.rule('C08.f', 'R-AFFINE-EQV: ORF header coordinates span exactly the listed sequence', 4)
    lp = [l for l in walk_no_nested(go.node) if isinstance(l, ast.For) and 'orf_id_map' in unparse(l.iter)]
    if len(lp) != 1:
        raise AnalysisError(f"anchor={ORFS}: loop over orf_id_map not found")
    env = {}
    finds = []          # (name, base text, lower bound) of `X = <base>[lo:].find('*')`
    fallback = None     # affine value assigned under `if X == -1`

    def find_call(v):
        return isinstance(v, ast.Call) and call_name(v) == 'find' and isinstance(v.func, ast.Attribute) and isinstance(v.func.value, ast.Subscript) \
            and isinstance(v.func.value.slice, ast.Slice) and len(v.args) == 1 and isinstance(v.args[0], ast.Constant) and v.args[0].value == '*'

    def reg_find(nm, v):
        sl = v.func.value
        finds.append((nm, unparse(sl.value), simple_aff(sl.slice.lower, env) if sl.slice.lower is not None else Aff(0), sl.slice.upper))
        env[nm] = Aff.sym('L')       # the length of the ORF in residues, whichever branch defines it

    for st in lp[0].body:
        if isinstance(st, ast.Assign) and len(st.targets) == 1 and isinstance(st.targets[0], ast.Name):
            v = st.value
            nm = st.targets[0].id
            if find_call(v):
                reg_find(nm, v)
                continue
            if isinstance(v, ast.IfExp) and finds and isinstance(v.test, ast.Compare) and isinstance(v.test.left, ast.Name) and v.test.left.id == finds[0][0]:
                # L = fallback if f == -1 else f   where f = <find> was bound before (or the mirrored form)
                pc = G.cmp_parts(v.test)
                if pc and pc[2] == '-1' and pc[1] in ('==', '!='):
                    hit, miss = (v.orelse, v.body) if pc[1] == '==' else (v.body, v.orelse)
                    if isinstance(hit, ast.Name) and hit.id == finds[0][0]:
                        fallback = (st, simple_aff(miss, {k: w for k, w in env.items() if k not in (nm, finds[0][0])}))
                        env[nm] = Aff.sym('L')
                        continue
            if isinstance(v, ast.IfExp):
                # L = fallback if <find> == -1 else <find>   (or the mirrored form)
                pc = G.cmp_parts(v.test)
                t_find = v.test.left if isinstance(v.test, ast.Compare) and find_call(v.test.left) else None
                if t_find is not None and pc and pc[2] == '-1' and pc[1] in ('==', '!='):
                    hit, miss = (v.orelse, v.body) if pc[1] == '==' else (v.body, v.orelse)
                    if find_call(hit) and unparse(hit) == unparse(t_find):
                        reg_find(nm, hit)
                        fallback = (st, simple_aff(miss, {k: w for k, w in env.items() if k != nm}))
                        continue
            a = simple_aff(v, env)
            env[nm] = a if a is not None else Aff.sym('?' + nm)
        elif isinstance(st, ast.If) and finds and unparse(st.test) == f"{finds[0][0]} == -1":
            for s2 in st.body:
                if isinstance(s2, ast.Assign) and unparse(s2.targets[0]) == finds[0][0]:
                    fallback = (s2, simple_aff(s2.value, env))
        elif isinstance(st, ast.If) and not finds and isinstance(st.test, ast.Compare) and find_call(st.test.left):
            # if <find> == -1: L = fallback  else: L = <find>      (a length helper inlined by the normal form)
            pc = G.cmp_parts(st.test)
            if pc and pc[2] == '-1' and pc[1] in ('==', '!=') and len(st.body) == 1 and len(st.orelse) == 1:
                hit, miss = (st.orelse[0], st.body[0]) if pc[1] == '==' else (st.body[0], st.orelse[0])
                if all(isinstance(x, ast.Assign) and len(x.targets) == 1 and isinstance(x.targets[0], ast.Name) for x in (hit, miss)) \
                        and hit.targets[0].id == miss.targets[0].id and find_call(hit.value) and unparse(hit.value) == unparse(st.test.left):
                    fb = simple_aff(miss.value, env)
                    reg_find(hit.targets[0].id, hit.value)
                    fallback = (miss, fb)
    if len(finds) != 1:
        if not finds and orf_end_candidates(chk, repo, go, lp[0]):
            from rules.shared import optname
            chk.clauses.append('C08.g (shared R-THREAD) an option value bound to a name that is itself a CLI option carries that very option')
            optname(chk, repo, 'C08.g', ['cli.call_novel_orf'], floor=0)
            return
        raise AnalysisError(f"anchor={ORFS}: stop-codon search `<seq>[start:].find('*')` not found")
    nm, base, lo, up = finds[0]
    want = Aff.sym(f"len({base})") - lo
    chk.ob('C08.f', f"without a stop codon the ORF length is the length of the searched slice, len({base}) - ({lo})", repo.loc(go, fallback[0]) if fallback else go.where,
           fallback is not None and up is None and fallback[1] is not None and fallback[1] == want,
           f"fallback length is `{unparse(fallback[0].value) if fallback else None}` = {fallback[1] if fallback else None}, but the slice searched for '*' has "
           f"{want} residues: for an ORF running to the transcript end the header end coordinate differs from start + 3 * len(sequence) "
           "(frames 1 and 2 have fewer codons than len(tx) // 3 whenever len(tx) % 3 < frame)", key=f"{ORFS}::no-stop-length", fn=go.qual)
    # header coordinates: the two integers of the `<start>-<end>` field of the ORF name
    from sa import sem as _sem8
    hdr = [v for n in ast.walk(lp[0]) if isinstance(n, ast.JoinedStr) for v in [n.values]
           if sum(isinstance(x, ast.FormattedValue) for x in v) >= 2]
    hdr += [j.values for n in ast.walk(lp[0]) if isinstance(n, ast.Call) for j in [_sem8.format_call_to_fstring(n)] if j is not None
            and sum(isinstance(x, ast.FormattedValue) for x in j.values) >= 2]
    oe = os_ = None
    for vals in hdr:
        for i in range(len(vals) - 2):
            if isinstance(vals[i], ast.FormattedValue) and isinstance(vals[i + 1], ast.Constant) and vals[i + 1].value == '-' and isinstance(vals[i + 2], ast.FormattedValue):
                os_, oe = simple_aff(vals[i].value, env), simple_aff(vals[i + 2].value, env)
    ok1 = None not in (oe, os_) and (oe - os_) == Aff.sym('L').scale(3)
    chk.ob('C08.f', 'orf_end - orf_start == 3 * length', go.where, bool(ok1), f"orf_end - orf_start = {oe - os_ if None not in (oe, os_) else None} (L = residues)",
           key=f"{ORFS}::nt-span", fn=go.qual)
    # the listed sequence: the one bounded slice of the searched translation
    sls = [n for n in ast.walk(lp[0]) if isinstance(n, ast.Subscript) and isinstance(n.slice, ast.Slice) and n.slice.upper is not None
           and isinstance(n.ctx, ast.Load) and base in (unparse(n.value), unparse(n.value) + '.seq')]
    ss = se = None
    if len(sls) == 1:
        ss = simple_aff(sls[0].slice.lower, env) if sls[0].slice.lower is not None else Aff(0)
        se = simple_aff(sls[0].slice.upper, env)
    ok2 = None not in (se, ss) and (se - ss) == Aff.sym('L') and ss == lo
    chk.ob('C08.f', 'seq_end - seq_start == length, and seq_start is where the stop search began', go.where, bool(ok2),
           f"seq_end - seq_start = {se - ss if None not in (se, ss) else None}; search began at {lo}, slice begins at {ss}", key=f"{ORFS}::aa-span", fn=go.qual)
    chk.ob('C08.f', 'the listed sequence is [seq_start:seq_end] of the translation that was searched', go.where, len(sls) == 1,
           f"bounded slices of the searched translation {base}: {[unparse(x) for x in sls]}", key=f"{ORFS}::same-translation", fn=go.qual)
    # ------------------------------------------------------------------ shared: option plumbing by name
    from rules.shared import optname
    chk.clauses.append('C08.g (shared R-THREAD) an option value bound to a name that is itself a CLI option carries that very option')
    optname(chk, repo, 'C08.g', ['cli.call_novel_orf'], floor=0)
    # C08.k: the ORF FASTA lists every ORF record handed to write_orf (identity of an ORF = transcript | gene | ORF id | range, not its translation)
    chk.rule('C08.k', 'R-DRAIN: write_orf writes every ORF record it is given (no filtering / de-duplication in the writer)', 1)
    chk.clauses.append('C08.k write_orf emits one FASTA record per ORF record: the loop over the records has no condition, continue or break')
    wo = repo.func('cli.call_novel_orf:write_orf')
    chk.uses(wo)
    wl = [l for l in ast.walk(wo.node) if isinstance(l, ast.For) and any(isinstance(c, ast.Call) and call_name(c) == 'write_record' for c in ast.walk(l))]
    okw = len(wl) == 1 and not any(isinstance(x, (ast.If, ast.Continue, ast.Break, ast.Return, ast.Try)) for x in ast.walk(wl[0])) and \
        isinstance(wl[0].iter, ast.Name) and wl[0].iter.id in wo.params()
    bulk = [c for c in ast.walk(wo.node) if isinstance(c, ast.Call) and call_name(c) == 'write_file' and c.args and isinstance(c.args[0], ast.Name) and c.args[0].id in wo.params()]
    chk.ob('C08.k', 'every record of the parameter is written', wo.where, okw or (not wl and len(bulk) == 1),
           'write_orf filters / de-duplicates the ORF records it writes (records compare by sequence: ORFs with the same translation on other transcripts vanish from the ORF FASTA '
           'while peptides are still attributed to them)', key=wo.qual + '::every-record', fn=wo.qual)
    from rules.shared import fresh_buffer_per_combination
    chk.clauses.append('C08.l (R-FRESH) every W>F combination is applied to the original peptide (the buffer written into is created per combination): all 2^n - 1 forms of a peptide with n tryptophans are produced')
    fresh_buffer_per_combination(chk, repo, 'C08.l')
    from rules.C10 import rule_thread
    chk.clauses.append('C08.h (shared R-THREAD, with C01.h / C04.g / C06.e / C10.d) the canonical pool that is subtracted is digested with the resolved cleavage parameters (exception name normalised, not the raw --cleavage-exception value)')
    rule_thread(chk, repo, 'C08.h', quals=('cli.common:load_references',))
    # ------------------------------------------------------------------ h: --orf-assignment decides attribution only
    from sa import sem as _sem8
    chk.rule('C08.h', 'R-OPTION scope: the ORF-assignment strategy never guards the start-site search, the staging of cursors or the calling of peptides', 3)
    chk.clauses.append('C08.h --orf-assignment only selects which open ORF a peptide is attributed to: no start-site search, cursor staging or peptide call '
                       'is conditioned on it (the peptide set is the same under min and max)')
    GEN = ('find_all_start_sites', 'add_miscleaved_sequences', 'PVGCursor', 'stage', 'call_and_stage_unknown_orf', 'call_and_stage_known_orf_in_cds',
           'call_and_stage_known_orf_not_in_cds')
    for q in ('svgraph.PeptideVariantGraph:PeptideVariantGraph.call_and_stage_unknown_orf', 'svgraph.PeptideVariantGraph:PeptideVariantGraph.call_variant_peptides'):
        g_ = repo.func(q)
        chk.uses(g_)
        ng_ = _sem8.nf(repo, g_)
        sites = _sem8.facts_where(ng_, lambda st: _sem8.own_stmt(st) and any(_sem8.calls_in_stmt(st, nm) for nm in GEN))
        bad = []
        for st, fx in sites:
            if fx is None:
                continue
            txt = ' '.join(list(fx.d) + [t_ for (t_, _e, _tr) in fx.cons] + [' '.join(a for a, _p in c) for c in fx.clauses]
                           + [unparse(v) for k_, v in fx.defs.items() if fx.d.get(k_) is not None])
            if 'orf_assignment' in txt:
                bad.append(norm_stmt(st)[:70])
        chk.ob('C08.h', f"{g_.name}: {len(sites)} generation sites are not conditioned on orf_assignment", g_.where, bool(sites) and not bad,
               f"generation statements guarded by the ORF-assignment strategy: {bad}: ORFs (and their peptides) are generated under one strategy and not under the other",
               key=q + '::orf-assignment-scope', fn=g_.qual)
    reads = [f_.qual for f_ in repo.funcs_in('svgraph', 'cli.call_novel_orf') for n in ast.walk(f_.node)
             if isinstance(n, ast.Attribute) and n.attr == 'orf_assignment' and isinstance(n.ctx, ast.Load)]
    allowed = {'svgraph.PeptideVariantGraph:PeptideVariantGraph.call_and_stage_unknown_orf', 'svgraph.PeptideVariantGraph:PVGTraversal.cmp_unknown_orf',
               'svgraph.PeptideVariantGraph:PVGTraversal.cmp_unknown_orf_check_orf', 'svgraph.PeptideVariantGraph:PVGTraversal.cmp_unknown_orf_keep_all_occurrence',
               'cli.call_novel_orf:call_novel_orf_peptide'}
    extra = sorted(set(reads) - allowed - {q_ for q_ in set(reads) if 'cmp_' in q_})
    chk.ob('C08.h', 'the strategy is read only by the ORF chooser and the cursor comparators', 'moPepGen/svgraph/PeptideVariantGraph.py:1', not extra,
           f"orf_assignment is also read in {extra}", key='svgraph::orf-assignment-readers')
    from rules.shared import kwname
    chk.clauses.append('C08.kw (shared R-THREAD) parameters handed on as keyword arguments keep their name: no `a=b` between two parameters of one function')
    kwname(chk, repo, 'C08.kw', ['cli.call_novel_orf'], floor=0)
    from rules.shared import w2f_scan_complete
    chk.clauses.append('C08.i (shared R-COVER) every tryptophan of a peptide, the last residue included, gets its W>F candidate')
    w2f_scan_complete(chk, repo, 'C08.i')
    # ------------------------------------------------------------------ j: open-ended ORFs are translated to the transcript end
    chk.rule('C08.j', 'R-SIBLING: the transcript graph of callNovelORF is not end-truncated, in agreement with the ORF FASTA that lists an ORF without stop up to the transcript end', 1)
    chk.clauses.append('C08.j callNovelORF builds its transcript graph without mRNA-end truncation (an ORF without stop codon runs to the transcript end, as get_orf_sequences lists it)')
    for fq in ('cli.call_novel_orf:call_noncoding_peptide_main',):
        fn_ = repo.func(fq)
        chk.uses(fn_)
        for c_ in G.find_calls(fn_.node, 'ThreeFrameTVG'):
            v_ = kwarg(c_, 'mrna_end_nf')
            ok_ = v_ is None or (isinstance(v_, ast.Constant) and v_.value is False)
            chk.ob('C08.j', f"{fq}: ThreeFrameTVG(...) without end truncation", repo.loc(fn_, c_), ok_,
                   f"the novel-ORF graph is built with mrna_end_nf={unparse(v_) if v_ is not None else None}: for mRNA_end_NF transcripts the peptides of an ORF that is still open at "
                   "the transcript end are dropped, while the ORF FASTA (get_orf_sequences) still lists that ORF to the end", key=fq + '::mrna_end_nf', fn=fn_.qual)





def orf_end_candidates(chk, repo, go, loop) -> bool:
    """get_orf_sequences without the `.find('*')` search (the end of the ORF is looked up some other way): the listed sequence is
    the one bounded slice <translation>[a:b] in the loop; every value b can take is either a looked-up position (a subscript - an
    element of a table of stop positions) or the fall-back for "no stop codon downstream", which must be the length of THAT
    translation (frames 1 and 2 have fewer codons than len(tx) // 3).  Returns False when the shape is not recognised."""
    from sa import sem
    sls = [n for n in ast.walk(loop) if isinstance(n, ast.Subscript) and isinstance(n.slice, ast.Slice) and n.slice.upper is not None and n.slice.lower is not None
           and isinstance(n.ctx, ast.Load) and isinstance(n.value, ast.Name)]
    sls = [n for n in sls if 'translate' in n.value.id]
    if len(sls) != 1:
        return False
    sl = sls[0]
    st = repo.enclosing_stmt(sl)
    base = sl.value.id
    ch = sem.block_chains(go.node)
    e = sem.expand_names(go.node, st, sl.slice.upper, chains=ch, depth=1)

    def cands(x):
        if isinstance(x, ast.IfExp):
            return cands(x.body) + cands(x.orelse)
        return [x]
    cs = cands(e)
    if len(cs) < 2 and isinstance(sl.slice.upper, ast.Name):
        # the bound is a name assigned more than once in the loop (`b = <lookup>` ... `if b == -1: b = <fall-back>`): every value it is given
        cs = [c for a_ in ast.walk(loop) if isinstance(a_, ast.Assign) and len(a_.targets) == 1 and unparse(a_.targets[0]) == sl.slice.upper.id for c in cands(a_.value)]
    if len(cs) < 2:
        return False
    bad = []
    for c in cs:
        if isinstance(c, ast.Subscript) or (isinstance(c, ast.Call) and call_name(c) in ('find', 'index') and c.args and isinstance(c.args[0], ast.Constant) and c.args[0].value == '*'):
            continue          # a looked-up stop position
        c2 = unparse(sem.expand_names(go.node, st, c, chains=ch, depth=3))
        if c2 not in (f"len({base}.seq)", f"len({base})"):
            bad.append(c2)
    chk.ob('C08.f', 'without a stop codon downstream the ORF ends at the length of the translation it is cut from', repo.loc(go, sl), not bad,
           f"the end of the listed slice of `{base}` falls back to {bad}: not the length of that translation - for an ORF running to the transcript end the header "
           "end coordinate differs from start + 3 * len(sequence) (frames 1 and 2 have fewer codons than len(tx) // 3 whenever len(tx) % 3 < frame)",
           key=f"{ORFS}::no-stop-length", fn=go.qual)
    return True

"""C13 - GVF round trip and index-equivalent access.

a R-KEYS circRNA reader keys == writer keys; column positions; offset algebra
b R-KEYS variant records: position attributes (+1/-1 on the same constant), POS, columns
c symbol table: writer ALT symbols accepted by the reader and mapped back; END attribute == location end
d .idx columns, checksum key, validate dominates load, validate raises on every non-equal path
e R-DRAIN pointer generator yields the trailing pointer; byte offsets; extend on equal keys
"""
import ast
import re
from sa.model import unparse, norm_stmt, call_name, kwarg, walk_no_nested, AnalysisError, str_consts
from sa.cfg import CFG, iteration_paths
from sa import guards as G
from sa.affine import Interp, Aff, lift


def fstring_text(node) -> str:
    """Concatenated constant parts of (possibly '+'-joined) f-strings, holes as {}."""
    out = ''
    for n in ast.walk(node):
        pass
    def rec(e):
        if isinstance(e, ast.BinOp) and isinstance(e.op, ast.Add):
            return rec(e.left) + rec(e.right)
        if isinstance(e, ast.JoinedStr):
            return ''.join(v.value if isinstance(v, ast.Constant) else '{' + unparse(v.value) + '}' for v in e.values)
        if isinstance(e, ast.Constant) and isinstance(e.value, str):
            return e.value
        return '{' + unparse(e) + '}'
    return rec(node)


def run(chk, repo):
    chk.clauses = [
        'C13.a circRNA: keys/columns the reader consumes are exactly those the writer emits; fragment offsets invert',
        'C13.b variant records: the same position-attribute table is shifted +1 on write and -1 on read; POS and column order agree',
        'C13.c every ALT symbol the writer can produce is accepted by the reader and mapped back to the same type and end rule',
        'C13.d .idx columns agree; checksum validation dominates index loading and raises on every non-equal path',
        'C13.e pointer generation yields the trailing pointer, counts byte offsets, extends on equal keys',
        'C13.f every pointer of every file is registered in the pool (no path of the registration loop skips one)',
        'C13.g the .idx checksum is computed over the whole GVF (read-until-EOF loop)',
    ]
    chk.not_decided = ['byte-exact round trip of arbitrary attribute values']

    # ------------------------------------------------------------------ a
    chk.rule('C13.a', 'R-KEYS circRNA writer/reader agreement', 5)
    wr = repo.func('circ.CircRNA:CircRNAModel.to_string')
    rd = repo.func('circ.io:line_to_circ_model')
    chk.uses(wr, rd)
    from rules.shared import circ_writer
    cw = circ_writer(repo, wr)
    wcols, winfo, anchor, anchor_core, off, ln = cw['cols'], cw['info'], cw['anchor'], cw['anchor_core'], cw['off'], cw['len']
    wkeys = list(winfo)
    join = [c.text for c in wcols]
    colval = cw['colval']
    rkeys = set()
    for n in ast.walk(rd.node):
        if isinstance(n, ast.Subscript) and unparse(n.value) == 'attrs' and isinstance(n.slice, ast.Constant):
            rkeys.add(n.slice.value)
        if isinstance(n, ast.Call) and call_name(n) == 'get' and unparse(n.func.value) == 'attrs' and n.args and isinstance(n.args[0], ast.Constant):
            rkeys.add(n.args[0].value)
    chk.ob('C13.a', 'every key the reader looks up is written', rd.where, rkeys <= set(wkeys),
           f"reader looks up {sorted(rkeys - set(wkeys))}, which the writer never emits (writer keys {wkeys}): value silently lost",
           key='circ.io::reader-keys', fn=rd.qual)
    chk.ob('C13.a', 'every key the writer emits is consumed', wr.where, set(wkeys) <= rkeys,
           f"writer emits {sorted(set(wkeys) - rkeys)}, which the reader drops", key='circ.io::writer-keys', fn=wr.qual)
    special = set()
    for n in ast.walk(rd.node):
        if isinstance(n, ast.Compare) and unparse(n.left) == 'key':
            special |= set(str_consts(n.comparators[0]))
    chk.ob('C13.a', 'typed keys (list-valued) are writer keys', rd.where, special <= set(wkeys) and {'OFFSET', 'LENGTH', 'INTRON'} <= special,
           f"reader special-cases {sorted(special)}", key='circ.io::typed-keys', fn=rd.qual)
    cols_ok = len(join) == 8 and colval(0) == 'self.gene_id' and anchor_core == 'self.fragments[0].location.start' and colval(2) == 'self.id'
    ridx = {unparse(n.targets[0]): unparse(n.value) for n in walk_no_nested(rd.node) if isinstance(n, ast.Assign) and 'fields[' in unparse(n.value)}
    cols_ok = cols_ok and ridx.get('gene_id') == 'fields[0]' and ridx.get('start') == 'int(fields[1])' and ridx.get('circ_id') == 'fields[2]' \
        and any('fields[7]' in unparse(n) for n in ast.walk(rd.node) if isinstance(n, ast.For))
    chk.ob('C13.a', 'column positions agree (gene 0, start 1, id 2, info 7)', wr.where, cols_ok,
           f"writer columns {join}; reader bindings {ridx}", key='circ.io::columns', fn=wr.qual)
    # offset algebra
    it = Interp(1)
    from sa.affine import Path as APath
    p = APath()
    p.env['start'] = Aff.sym('F0')
    q = APath()
    q.env.update({'start': Aff.sym('F0'), 'position': off, 'length': ln})
    sj = ej = None
    # the fragment interval the reader rebuilds: the start / end handed to FeatureLocation inside the fragment loop, whatever
    # intermediate locals it goes through (they are evaluated in order over the affine domain)
    rloops = [l for l in walk_no_nested(rd.node) if isinstance(l, ast.For) and G.find_calls(l, 'FeatureLocation')]
    if len(rloops) == 1:
        for st_ in rloops[0].body:
            if isinstance(st_, ast.Assign) and len(st_.targets) == 1 and isinstance(st_.targets[0], ast.Name) and not G.find_calls(st_, 'FeatureLocation'):
                try:
                    q.env[st_.targets[0].id] = it.ev(q, st_.value)
                except Exception:
                    pass
        fl_ = G.find_calls(rloops[0], 'FeatureLocation')
        if len(fl_) == 1 and kwarg(fl_[0], 'start') is not None and kwarg(fl_[0], 'end') is not None:
            sj, ej = it.ev(q, kwarg(fl_[0], 'start')), it.ev(q, kwarg(fl_[0], 'end'))
    ok = sj == Aff.sym('fragment.location.start') and ej == Aff.sym('fragment.location.end')
    w0 = anchor_core == 'self.fragments[0].location.start'
    chk.ob('C13.a', 'reader(start + OFFSET, + LENGTH) inverts writer(fragment - start, end - start)', rd.where, ok and w0,
           f"reader rebuilds [{sj!r}, {ej!r}) from writer offset {off!r} / length {ln!r} (anchor = first fragment start: {w0})",
           key='circ.io::offset-algebra', fn=rd.qual)

    # the INTRON list the writer joins in order is the list the reader parsed, in file order (no set / sort in between)
    from sa import sem as _sem13
    mk = [c for c in ast.walk(rd.node) if isinstance(c, ast.Call) and call_name(c) == 'CircRNAModel']
    iv = None
    if len(mk) == 1:
        ci_ = repo.func('circ.CircRNA:CircRNAModel.__init__')
        ps_ = [a.arg for a in ci_.node.args.args][1:]
        iv = kwarg(mk[0], 'intron') or (mk[0].args[ps_.index('intron')] if 'intron' in ps_ and ps_.index('intron') < len(mk[0].args) else None)
    if iv is None:
        chk.undecided('C13.a', 'circRNA reader: intron list', rd.where, 'the CircRNAModel(...) built by line_to_circ_model / its intron argument was not found', key='circ.io::intron-order', fn=rd.qual)
    else:
        e_iv = unparse(_sem13.expand_names(rd.node, repo.enclosing_stmt(mk[0]), iv))
        chk.ob('C13.a', 'the intron indices reach the model as the parsed list (file order, duplicates kept)', repo.loc(rd, mk[0]), e_iv in ("attrs['INTRON']", "attrs.get('INTRON')"),
               f"the reader hands `{e_iv}` to CircRNAModel as intron: the writer joins it in iteration order, so write -> parse -> write is no longer the identity "
               "(hash order / lost duplicates)", key='circ.io::intron-order', fn=rd.qual)

    # ------------------------------------------------------------------ b
    chk.rule('C13.b', 'R-KEYS variant record writer/reader agreement', 5)
    ts = repo.func('seqvar.VariantRecord:VariantRecord.to_string')
    inf = repo.func('seqvar.VariantRecord:VariantRecord.info')
    pa = repo.func('seqvar.io:parse_attrs')
    lr = repo.func('seqvar.io:line_to_variant_record')
    chk.uses(ts, inf, pa, lr)

    # E9 partial evaluation (sa/peval.py): what each side computes, whatever its control structure or local names
    from sa.peval import PEval, repo_consts, show as _show, Unk
    from sa.affine import simple_aff as _saff

    wkey = info_shift_rules(chk, repo, 'C13.b')

    def writer_columns(T):
        pe = PEval(resolve_const=repo_consts(repo, ts.module), record=('join',))
        cols = []
        for o in pe.run(ts.node, {'self.type': T}):
            if o.kind == 'return':
                js = [c for c in o.calls if c['name'] == 'join' and c['args'] and isinstance(c['args'][0], list) and len(c['args'][0]) == 8]
                cols.append(js[-1]['args'][0] if js else None)
        return cols

    def reader_fields(alt):
        pe = PEval(resolve_const=repo_consts(repo, lr.module), record=('VariantRecord', 'FeatureLocation'))
        res = []
        for o in pe.run(lr.node, {'fields[4]': alt} if alt is not None else {}):
            if o.kind != 'return':
                res.append(('raise', None, None))
                continue
            vr = [c for c in o.calls if c['name'] == 'VariantRecord']
            fl = [c for c in o.calls if c['name'] == 'FeatureLocation']
            res.append(('return', vr[-1]['kwargs'] if vr else {}, fl[-1]['kwargs'] if fl else {}))
        return res
    wc = writer_columns('SNV')
    cols = [_show(x) for x in wc[0]] if len(wc) == 1 and wc[0] else None
    pos_w = cols is not None and re.sub(r'\s', '', cols[1]) == 'str(int(self.location.start)+1)'
    rf = [r_ for r_ in reader_fields(None) if r_[0] == 'return']
    F = "line.rstrip().split('\\t')"
    starts = {_show(r_[2].get('start')) for r_ in rf}
    pos_r = starts == {f"int({F}[1]) - 1"}
    chk.ob('C13.b', 'POS written 1-based and read back 0-based', ts.where, pos_w and pos_r, f"writer column 2 {cols[1] if cols else None}; reader start {sorted(starts)}", key='seqvar.io::pos')
    okc = cols is not None and cols[0] == 'self.location.seqname' and cols[2] == 'self.id' and cols[3] == 'str(self.ref)' and cols[4] == 'str(self.alt)' \
        and cols[5] == cols[6] == "'.'" and cols[7] == 'self.info'
    rb = {}
    if rf:
        kw, fl = rf[0][1], rf[0][2]
        rb = {'gene_id': _show(fl.get('seqname')), 'ref': _show(kw.get('ref')), 'alt': _show(kw.get('alt')), '_id': _show(kw.get('_id')), 'attrs': _show(kw.get('attrs'))}
    okc = okc and rb == {'gene_id': f"{F}[0]", 'ref': f"{F}[3]", 'alt': f"{F}[4]", '_id': f"{F}[2]", 'attrs': f"parse_attrs({F}[7])"}
    chk.ob('C13.b', 'column order agrees', ts.where, okc, f"writer {cols}; reader {rb}", key='seqvar.io::columns')
    up = wkey is not None and wkey.endswith('[0].upper()') and wkey.count('(') == 2
    chk.ob('C13.b', 'attribute keys are written upper-case (position table is upper-case)', inf.where, up,
           'keys no longer upper-cased on write', key=inf.qual + '::upper', fn=inf.qual)

    # ------------------------------------------------------------------ c
    chk.rule('C13.c', 'ALT symbol table: writer symbols accepted by the reader, mapped back; END == location end', 8)
    types = ast.literal_eval(repo.const('seqvar.VariantRecord', '_VARIANT_TYPES'))
    snsub = ast.literal_eval(repo.const('constant', 'SINGLE_NUCLEOTIDE_SUBSTITUTION'))
    gvf_types = [T for T in types if T not in ('circRNA', 'SECT', 'W2F')]
    for T in gvf_types:
        wcs = writer_columns(T)
        syms = {(_show(c[4]) if isinstance(c[4], Unk) else c[4]) if c else None for c in wcs}
        if T in snsub:
            chk.ob('C13.c', f"{T}: written as plain REF/ALT", ts.where, syms == {'str(self.alt)'}, f"{T} written as {sorted(map(str, syms))}", key=f"seqvar.io::symbol::{T}")
            continue
        sym = next(iter(syms)) if len(syms) == 1 else None
        got = reader_fields(sym) if isinstance(sym, str) and sym.startswith('<') else []
        ok = bool(got) and all(g[0] == 'return' for g in got)
        seen = []
        for g in got:
            if g[0] != 'return':
                seen.append('raises')
                continue
            ty = g[1].get('_type')
            st_t, en_t = _show(g[2].get('start')), _show(g[2].get('end'))
            rel = en_t.replace(st_t, 'START') if st_t else en_t
            if T in ('Deletion', 'Substitution'):
                end_ok = bool(re.fullmatch(r"int\(.*\['END'\]\)", en_t))
                end_s = "int(attrs['END'])" if end_ok else en_t
            else:
                try:
                    a_ = _saff(ast.parse(rel, mode='eval').body)
                except SyntaxError:
                    a_ = None
                from sa.affine import Aff as _Aff
                end_ok = a_ is not None and a_ == _Aff.sym('START') + 1
                end_s = 'start + 1' if end_ok else rel
            seen.append((ty, end_s))
            ok = ok and ty == T and end_ok
        want_end = "int(attrs['END'])" if T in ('Deletion', 'Substitution') else 'start + 1'
        chk.ob('C13.c', f"{T}: writer symbol {sym} read back as {T} with end = {want_end}", lr.where, ok,
               f"writer emits {sorted(map(str, syms))} for {T}; reader gives {seen}", key=f"seqvar.io::symbol::{T}")
    # END attribute equals the location end where Deletion / Substitution records are built
    n_end = 0
    for f in repo.funcs_in('seqvar.SplicingJunction', 'parser.RMATSParser'):
        for n in walk_no_nested(f.node):
            if isinstance(n, ast.Dict):
                keys = [k.value for k in n.keys if isinstance(k, ast.Constant)]
                if 'END' in keys and 'START' in keys:
                    n_end += 1
                    e = unparse(n.values[keys.index('END')])
                    s_ = unparse(n.values[keys.index('START')])
                    locs = [c for c in G.find_calls(f.node, 'FeatureLocation')]
                    ok = any(unparse(kwarg(c, 'end')) == e and unparse(kwarg(c, 'start')) == s_ for c in locs if kwarg(c, 'end') is not None)
                    chk.ob('C13.c', f"{f.qual}: attrs START/END are the location start/end", repo.loc(f, n), ok,
                           f"attrs END={e} / START={s_} differ from the record location {[(unparse(kwarg(c, 'start')), unparse(kwarg(c, 'end'))) for c in locs]}: "
                           "the reader rebuilds the location end from END", key=f"{f.qual}::END-attr", fn=f.qual)
    chk.extra['end_attr_sites'] = n_end

    # ------------------------------------------------------------------ d
    chk.rule('C13.d', '.idx agreement; checksum validation dominates load and raises on every non-equal path', 6)
    tl = repo.func('seqvar.GVFIndex:GVFPointer.to_line')
    pr = repo.func('seqvar.GVFIndex:GVFPointer.parse')
    chk.uses(tl, pr)
    # writer: three tab-separated fields key, start, length;  reader: unpacks the same three and rebuilds end = start + length
    wt = fstring_text(tl.node.body[-1].value) if isinstance(tl.node.body[-1], ast.Return) else ''
    wfields = [re.sub(r'^\{(?:str|int)\((.*)\)\}$', r'{\1}', x) for x in wt.split('\t')]
    wfields = [re.sub(r'^\{(?:str|int)\((.*)\)\}$', r'{\1}', x) for x in wfields]
    ok = wfields == ['{self.key}', '{self.start}', '{len(self)}']
    from sa import sem as _s13d
    pch = _s13d.block_chains(pr.node)
    okr = False
    rdet = 'reader unpack / constructor not found'
    unp = [n for n in ast.walk(pr.node) if isinstance(n, ast.Assign) and isinstance(n.targets[0], ast.Tuple) and len(n.targets[0].elts) == 3
           and all(isinstance(e, ast.Name) for e in n.targets[0].elts) and isinstance(n.value, ast.Call) and call_name(n.value) == 'split'
           and [unparse(a) for a in n.value.args] == ["'\\t'"]]
    ctor = [(st, c) for st in ast.walk(pr.node) if isinstance(st, ast.stmt) and _s13d.own_stmt(st) for c in _s13d.calls_in_stmt(st, 'cls')]
    if len(unp) == 1 and len(ctor) == 1:
        k_, s_, l_ = (e.id for e in unp[0].targets[0].elts)
        st_, c_ = ctor[0]
        got = {a: re.sub(r'\s', '', unparse(_s13d.expand_names(pr.node, st_, kwarg(c_, a), chains=pch, allow_calls=('int',)))) if kwarg(c_, a) is not None else None
               for a in ('key', 'start', 'end')}
        okr = got == {'key': k_, 'start': f'int({s_})', 'end': f'int({s_})+int({l_})'}
        rdet = f"reader builds {got} from the fields ({k_}, {s_}, {l_})"
    chk.ob('C13.d', 'idx line = key, start, length; reader end = start + length', tl.where, ok and okr,
           f"writer fields {wfields}; {rdet}", key='seqvar.GVFIndex::idx-columns')
    ln = repo.func('seqvar.GVFIndex:GVFPointer.__len__')
    chk.ob('C13.d', 'pointer length = end - start', ln.where, unparse(ln.node.body[-1]) == 'return self.end - self.start', 'len altered', key=ln.qual, fn=ln.qual)
    ig = repo.func('cli.index_gvf:index_gvf')
    vg = repo.func('seqvar.VariantRecordPoolOnDisk:VariantRecordPoolOnDisk.validate_gvf_index')
    chk.uses(ig, vg)
    # writer: `<prefix>{checksum}\n`; reader: a comment line, stripped of '# ', that starts with the same key, value after '='
    from sa import sem as _s13
    wpre = None
    for c in G.find_calls(ig.node, 'write'):
        if c.args and isinstance(c.args[0], ast.JoinedStr):
            v = c.args[0].values
            if len(v) >= 2 and isinstance(v[0], ast.Constant) and 'CHECKSUM' in str(v[0].value) and isinstance(v[1], ast.FormattedValue) \
                    and (len(v) == 3 and isinstance(v[2], ast.Constant) and v[2].value == '\n'):
                wpre = v[0].value
    wck = wpre is not None and wpre.startswith('#') and wpre.endswith('=')
    rkeys, rvals = [], []
    for vfn in _s13.with_new_helpers(repo, vg):
      vnode = vfn.node
      vchains = _s13.block_chains(vnode)
      for st in ast.walk(vnode):
        if not isinstance(st, ast.stmt):
            continue
        own = [st.test] if isinstance(st, (ast.If, ast.While)) else ([st] if _s13.own_stmt(st) else [])
        for root in own:
            for c in ast.walk(root):
                if isinstance(c, ast.Call) and isinstance(c.func, ast.Attribute) and c.func.attr == 'startswith' and len(c.args) == 1 \
                        and isinstance(c.args[0], ast.Constant) and 'CHECKSUM' in str(c.args[0].value):
                    recv = unparse(_s13.expand_names(vnode, st, c.func.value, chains=vchains, allow_calls=('rstrip', 'lstrip', 'strip')))
                    rkeys.append((c.args[0].value, recv))
                if isinstance(c, ast.Subscript) and isinstance(c.value, ast.Call) and isinstance(c.value.func, ast.Attribute) and c.value.func.attr == 'split' \
                        and [unparse(a) for a in c.value.args] == ["'='"] and unparse(c.slice) == '1':
                    rvals.append(unparse(_s13.expand_names(vnode, st, c.value.func.value, chains=vchains, allow_calls=('rstrip', 'lstrip', 'strip'))))
    stripped = re.compile(r"^\w+\.rstrip\(\)\.lstrip\('# '\)$|^\w+\.strip\(\)\.lstrip\('# '\)$")
    rck = len(rkeys) == 1 and wck and rkeys[0][0] == wpre.lstrip('# ') and bool(stripped.match(rkeys[0][1])) and rvals == [rkeys[0][1]]
    chk.ob('C13.d', 'checksum key written and read', ig.where, wck and rck, f"writer prefix {wpre!r}; reader tests {rkeys}, takes the value from {rvals}", key='seqvar::checksum-key')
    both_sha = [unparse(c.args[0]) for c in G.find_calls(ig.node, 'check_sha512')] + [unparse(c.args[0]) for c in G.find_calls(vg.node, 'check_sha512')]
    chk.ob('C13.d', 'both sides hash the raw GVF bytes with check_sha512', ig.where, len(both_sha) == 2, f"sha calls {both_sha}", key='seqvar::checksum-fn')
    cfg = CFG(vg.node)
    bad = None
    for pth in cfg.paths(cfg.entry, max_paths=5000):
        if pth.end_kind() == 'return' or (pth.end_kind() not in ('raise',) and pth.steps[-1][2] == cfg.exit):
            if pth.facts.known('sum_actual == sum_expect') is not True:
                bad = bad or pth
    chk.paths += 1
    chk.ob('C13.d', 'validate_gvf_index leaves normally only when the checksums are equal', vg.where, bad is None,
           'validate_gvf_index can return without the checksums being known equal (a stale .idx is accepted, callers rely on the exception)',
           key=vg.qual + '::raise-unless-equal', path=bad.describe(vg.module.relpath) if bad else None, fn=vg.qual)
    op = repo.func('seqvar.VariantRecordPoolOnDisk:VariantRecordPoolOnDiskOpener.open')
    chk.uses(op)
    ocfg = CFG(op.node)
    v = [n.id for n in ocfg.nodes if n.kind == 'stmt' and any(call_name(c) == 'validate_gvf_index' for c in G.find_calls(n.ast))]
    l = [n.id for n in ocfg.nodes if n.kind == 'stmt' and any(call_name(c) == 'load_index' for c in G.find_calls(n.ast))]
    ok = len(v) == 1 and len(l) == 1 and ocfg.dominates(v[0], l[0])
    if ok:
        vc = [c for c in G.find_calls(op.node, 'validate_gvf_index')][0]
        lc = [c for c in G.find_calls(op.node, 'load_index')][0]
        ok = [unparse(a) for a in vc.args] == ['file', 'idx_path'] and [unparse(a) for a in lc.args][:2] == ['idx_path', 'file']
    chk.ob('C13.d', 'validate_gvf_index(file, idx) dominates load_index(idx, file, ...)', op.where, ok,
           'the .idx is loaded without (or before) validating its checksum against the same GVF', key=op.qual + '::validate-before-load', fn=op.qual)

    # ------------------------------------------------------------------ e
    chk.rule('C13.e', 'R-DRAIN on the pointer generator; byte offsets', 6)
    ip = repo.func('seqvar.GVFIndex:iterate_pointer')
    chk.uses(ip)
    # C13.j (E9): the key a pointer is filed under is the transcript_id of the record the SAME reader builds that a linear scan / a
    # pointer load uses (line_to_variant_record / line_to_circ_model) - not a second, textual reading of the line
    chk.rule('C13.j', 'R-SIBLING: pointer keys are record.transcript_id of the record parsed by the reader of the loader', 2)
    chk.clauses.append('C13.j the key of a GVF pointer is the transcript_id of the record parsed from the line by the same reader the loader uses (no separate textual lookup of TRANSCRIPT_ID)')
    from sa.peval import PEval as _PE2, show as _sh2
    for flag, reader in ((True, 'line_to_circ_model'), (False, 'line_to_variant_record')):
        try:
            outs_ = _PE2(split_unknown=True, record=('GVFPointer',)).run(ip.node, {'is_circ_rna': flag})
        except (ValueError, OverflowError) as e_:
            chk.undecided('C13.j', f"pointer key (is_circ_rna={flag})", ip.where, f"iterate_pointer cannot be evaluated: {e_}", key=f"{ip.qual}::key::{flag}", fn=ip.qual)
            continue
        keys = sorted({_sh2(c['kwargs'].get('key', c['args'][1] if len(c['args']) > 1 else None)) for o in outs_ for c in o.calls if c['name'] == 'GVFPointer'})
        ok = bool(keys) and all(re.fullmatch(r'(?:\w+\.)*' + reader + r'\(.*\)\.transcript_id', k) for k in keys)
        chk.ob('C13.j', f"is_circ_rna={flag}: key == {reader}(line).transcript_id", ip.where, ok,
               f"pointers are filed under {keys}: not the transcript_id of the record {reader}() parses from the line "
               "(records reached through the index differ from a linear scan)", key=f"{ip.qual}::key::{flag}", fn=ip.qual)
    icfg = CFG(ip.node)
    loop = next((n for n in walk_no_nested(ip.node) if isinstance(n, ast.For)), None)
    after = ip.node.body[ip.node.body.index(loop) + 1:]
    pn_ = sorted({n.targets[0].id for n in ast.walk(loop) if isinstance(n, ast.Assign) and len(n.targets) == 1 and isinstance(n.targets[0], ast.Name)
                  and isinstance(n.value, ast.Call) and call_name(n.value) == 'GVFPointer'})
    PN = pn_[0] if len(pn_) == 1 else 'pointer'
    ok = len(after) == 1 and isinstance(after[0], ast.If) and unparse(after[0].test) in (f'{PN} is not None', PN, f'not {PN} is None') \
        and [norm_stmt(s) for s in after[0].body] == [f'yield {PN}']
    chk.ob('C13.e', 'trailing pointer is yielded after the loop', repo.loc(ip, loop), ok,
           'the last run of records gets no pointer (its transcript is invisible through the index)', key=ip.qual + '::drain', fn=ip.qual)
    pointer_runs(chk, repo, 'C13.e', ip, loop)
    byte_offsets(chk, repo, 'C13.e', 'seqvar.GVFIndex:iterate_pointer')
    from rules.shared import pointer_byte_range
    pointer_byte_range(chk, repo, 'C13.e', 'seqvar.GVFIndex:GVFPointer.__iter__', 'GVFPointer.__iter__', key_suffix='::byte-read')

    # ------------------------------------------------------------------ f
    chk.rule('C13.f', 'R-COVER: every pointer read from an index / generated from a GVF is registered (no value-based de-duplication across files)', 2)
    for q in ('seqvar.VariantRecordPoolOnDisk:VariantRecordPoolOnDisk.load_index',
              'seqvar.VariantRecordPoolOnDisk:VariantRecordPoolOnDisk.generate_index'):
        g = repo.func(q)
        chk.uses(g)
        lps = [l for l in walk_no_nested(g.node) if isinstance(l, ast.For) and isinstance(l.target, ast.Name)
               and any(call_name(c) in ('append', 'setdefault') for c in G.find_calls(l))]
        if len(lps) != 1:
            raise AnalysisError(f"anchor={q}: pointer registration loop not found")
        v = lps[0].target.id

        def registers(st, v=v):
            if isinstance(st, ast.Expr) and isinstance(st.value, ast.Call) and call_name(st.value) == 'append' \
                    and 'self.pointers' in unparse(st.value.func) and [unparse(a) for a in st.value.args] == [v]:
                return True
            return isinstance(st, ast.Assign) and 'self.pointers[' in unparse(st.targets[0]) and unparse(st.value) == f"[{v}]"
        gc = CFG(g.node)
        n, nsites, wit = G.iter_covers(gc, lps[0], '__always__', registers)
        chk.paths += n
        chk.ob('C13.f', f"{g.name}: every `{v}` of the loop is stored in self.pointers ({n} iteration paths, {nsites} sites)", repo.loc(g, lps[0]),
               nsites > 0 and not wit,
               'a pointer can pass the loop without being registered' + (f" (path: {'; '.join(wit[0].describe(g.module.relpath)[:5])})" if wit else '') +
               ': pointers of different GVF files may share key and byte range, so any skip loses all records of that transcript from the later file '
               '(index and linear scan disagree)', key=q + '::register-all', fn=g.qual)

    # ------------------------------------------------------------------ g
    chk.rule('C13.g', 'the checksum covers the whole file: digest updates sit in a loop driven by handle.read until EOF', 1)
    cs = repo.func(':check_sha512')
    chk.uses(cs)
    ups = G.find_calls(cs.node, 'update')
    ok = bool(ups)
    detail = 'no digest update found'
    for u in ups:
        lp = next((a for a in repo.ancestors(u) if isinstance(a, (ast.For, ast.While))), None)
        if lp is None:
            ok, detail = False, f"`{unparse(u)}` is not inside a loop: only the first block of the file is hashed"
            break
        if isinstance(lp, ast.For):
            it = lp.iter
            drv = isinstance(it, ast.Call) and call_name(it) == 'iter' and len(it.args) == 2 and '.read(' in unparse(it.args[0]) \
                and isinstance(it.args[1], ast.Constant) and it.args[1].value == b''
            if not drv and not (unparse(it) == 'handle'):
                ok, detail = False, f"loop iterable `{unparse(it)}` is not read-until-EOF"
        else:
            tested = {n.id for n in ast.walk(lp.test) if isinstance(n, ast.Name)}
            reread = any(isinstance(n, (ast.Assign, ast.NamedExpr)) and '.read(' in unparse(n.value) and
                         (unparse(n.targets[0]) if isinstance(n, ast.Assign) else n.target.id) in tested for n in ast.walk(lp))
            const_true = isinstance(lp.test, ast.Constant) and lp.test.value is True and any(isinstance(n, ast.Break) for n in ast.walk(lp))
            if not (reread or const_true):
                ok, detail = False, 'while-loop does not re-read the handle into the tested variable'
    chk.ob('C13.g', 'check_sha512 hashes every block of the handle', cs.where, ok,
           detail + ' - an edit behind the hashed prefix leaves the checksum unchanged, so a stale .idx is accepted and its byte offsets are used',
           key=cs.qual + '::whole-file', fn=cs.qual)
    # ------------------------------------------------------------------ shared: option plumbing by name
    from rules.shared import optname
    chk.clauses.append('C13.h (shared R-THREAD) an option value bound to a name that is itself a CLI option carries that very option')
    optname(chk, repo, 'C13.h', ['cli.index_gvf'], floor=0)
    # ------------------------------------------------------------------ shared: no cache on mutable results
    from rules.shared import memo_shared
    chk.clauses.append('C13.i no parsing / record function of seqvar or circ is memoised while returning a mutable container (parsed records must not share attribute dictionaries)')
    memo_shared(chk, repo, 'C13.i', ['seqvar', 'circ'], floor=0)
    index_written_whole(chk, repo, 'C13.k')
    from rules.shared import iterable_param_once
    chk.clauses.append('C13.l (R-ONESHOT) seqvar.io.write consumes its `variants` argument (declared Iterable) once: a generator of records is written completely')
    iterable_param_once(chk, repo, 'C13.l', 'seqvar.io:write')
    from rules.shared import kwname
    chk.clauses.append('C13.kw (shared R-THREAD) parameters handed on as keyword arguments keep their name: no `a=b` between two parameters of one function')
    kwname(chk, repo, 'C13.kw', ['seqvar', 'circ', 'cli.index_gvf'], floor=0)

def pointer_runs(chk, repo, rid, ip, loop):
    """Value-based reading of the pointer generator (affine summary of ONE iteration, sa/loops.py + must-facts):
    some accumulator grows by len(<raw line>) on EVERY iteration path (comment lines included, before any re-binding of the
    line), a new pointer is [acc_in, acc_in + len(raw)), an extension sets end = acc_in + len(raw); a pointer is opened exactly
    when the key differs from the current one, the previous one being yielded unless there is none."""
    from sa import sem, loops
    from sa.affine import Aff
    X = loop.target.id if isinstance(loop.target, ast.Name) else None
    cands = sorted({unparse(n.target) for n in ast.walk(loop) if isinstance(n, ast.AugAssign) and isinstance(n.target, ast.Name) and isinstance(n.op, ast.Add)} |
                   {t.id for n in ast.walk(loop) if isinstance(n, ast.Assign) for tg in n.targets for t in (tg.elts if isinstance(tg, ast.Tuple) else [tg])
                    if isinstance(t, ast.Name) and any(isinstance(x, ast.Name) and x.id == t.id for x in ast.walk(n.value))})
    ok_acc, ACC, paths = False, None, []
    if X is not None:
        for c_ in cands:
            ps = loops.iteration_paths(loop, 1, [c_], canon=lambda t: t, record=('GVFPointer',))
            if ps and all(p_.delta.get(c_) == Aff.sym(f"len({X})") for p_ in ps):
                ok_acc, ACC, paths = True, c_, ps
                break
    chk.paths += len(paths)
    chk.ob(rid, 'offsets accumulate len() of the raw bytes line (before decode), for every line incl. comments', repo.loc(ip, loop), ok_acc,
           f"no offset accumulator advances by len({X}) of the raw line on every iteration path (candidates {cands}): line offsets are not accumulated from the byte "
           'length of every line before decoding (multi-byte characters / comment lines shift all later pointers)', key=ip.qual + '::byte-offsets', fn=ip.qual)
    # comment lines: some path leaves the iteration under `<decoded line>.startswith('#')` and it, too, advanced the accumulator (implied by
    # ok_acc); the skip itself must exist so that comment lines never reach the record parser
    skips = [st for st, fx in sem.facts_where(ip.node, lambda st: isinstance(st, ast.Continue))
             if fx is not None and any(re.match(r"^\w+\.startswith\('#'\)$", t) and v for t, v in sem.sure_literals(fx))]
    chk.ob(rid, 'comment lines are skipped only after their bytes were counted', repo.loc(ip, loop), ok_acc and len(skips) >= 1,
           'comment lines are skipped before their length is added to the offset (or are not skipped)', key=ip.qual + '::comment-offset', fn=ip.qual)
    # pointer intervals
    ok_iv, det = ok_acc, ''
    n_ctor = 0
    if ok_acc:
        a_in = Aff.sym(f"{ACC}@in")
        a_out = a_in + Aff.sym(f"len({X})")
        for p_ in paths:
            for l_ in p_.p.locs:
                if l_['ctor'] != 'GVFPointer':
                    continue
                n_ctor += 1
                kw = l_['kwargs']
                if not (kw.get('start') == a_in and kw.get('end') == a_out):
                    ok_iv, det = False, f"a pointer is opened as [{kw.get('start')!r}, {kw.get('end')!r}) instead of [{a_in!r}, {a_out!r})"
        ext = [n for n in ast.walk(loop) if isinstance(n, ast.Assign) and len(n.targets) == 1 and isinstance(n.targets[0], ast.Attribute) and n.targets[0].attr == 'end']
        for n in ext:
            vals = {repr(p_.p.env.get(n.value.id)) if isinstance(n.value, ast.Name) else unparse(n.value) for p_ in paths}
            if vals != {repr(a_out)}:
                ok_iv, det = False, f"`{norm_stmt(n)}` extends the pointer to {sorted(vals)} instead of {a_out!r}"
        if n_ctor == 0 or len(ext) != 1:
            ok_iv, det = False, det or f"{n_ctor} pointer constructions / {len(ext)} extensions found"
    # run logic from must-facts
    CK = K = None
    for n in ast.walk(loop):
        if isinstance(n, ast.Assign) and len(n.targets) == 1 and isinstance(n.targets[0], ast.Name) and isinstance(n.value, ast.Name):
            a_, b_ = n.targets[0].id, n.value.id
            if any(isinstance(s_, ast.Assign) and unparse(s_.targets[0]) == a_ and isinstance(s_.value, ast.Constant) and s_.value.value is None for s_ in ip.node.body):
                CK, K = a_, b_
    ok_run = CK is not None
    if CK is None:
        # second shape: no separate "current key" local - the open pointer itself carries the key of the current run:
        #   open under (P is None or P.key != K), extend under P.key == K, yield the previous one under P is not None and P.key != K
        pa_ = [n for n in ast.walk(loop) if isinstance(n, ast.Assign) and len(n.targets) == 1 and isinstance(n.targets[0], ast.Name)
               and isinstance(n.value, ast.Call) and call_name(n.value) == 'GVFPointer']
        if len(pa_) == 1 and isinstance(kwarg(pa_[0].value, 'key'), ast.Name):
            P_, K2 = pa_[0].targets[0].id, kwarg(pa_[0].value, 'key').id

            def fx_at(pred):
                return [(st, fx) for st, fx in sem.facts_where(ip.node, pred) if fx is not None and any(st is x for x in ast.walk(loop))]
            samek = ast.parse(f"{P_} is not None and {P_}.key == {K2}", mode='eval').body
            opens2 = fx_at(lambda st: st is pa_[0])
            exts2 = fx_at(lambda st: isinstance(st, ast.Assign) and isinstance(st.targets[0], ast.Attribute) and st.targets[0].attr == 'end' and unparse(st.targets[0].value) == P_)
            ylds2 = fx_at(lambda st: isinstance(st, ast.Expr) and isinstance(st.value, ast.Yield))
            ok2 = len(opens2) == 1 and opens2[0][1].known(samek) is False and len(exts2) == 1 and exts2[0][1].known(samek) is True \
                and len(ylds2) == 1 and unparse(ylds2[0][0].value.value) == P_ and ylds2[0][1].known(f"{P_} is not None") is True and ylds2[0][1].known(samek) is False
            # the previous pointer is yielded before it is replaced
            if ok2:
                ch2 = sem.block_chains(ip.node)
                ok2 = ylds2[0][0].lineno < pa_[0].lineno
            chk.ob(rid, 'new pointer [line_start, line_end) on key change (previous yielded); end extended on equal key', repo.loc(ip, loop), ok_iv and ok2,
                   'pointer open/extend/yield logic altered' + (': ' + det if det else ''), key=ip.qual + '::open-extend', fn=ip.qual)
            CK = False
    if CK is False:
        pass
    elif ok_run:
        same = sem.lit(f"{CK} == {K}")
        def at(pred):
            return [(st, sem.sure_literals(fx)) for st, fx in sem.facts_where(ip.node, pred) if fx is not None and any(st is x for x in ast.walk(loop))]
        opens = at(lambda st: sem.own_stmt(st) and bool(sem.calls_in_stmt(st, 'GVFPointer')))
        exts = at(lambda st: isinstance(st, ast.Assign) and isinstance(st.targets[0], ast.Attribute) and st.targets[0].attr == 'end')
        ylds = at(lambda st: isinstance(st, ast.Expr) and isinstance(st.value, ast.Yield))
        sets = at(lambda st: isinstance(st, ast.Assign) and unparse(st.targets[0]) == CK)
        neq = (same[0], not same[1])
        chains_ = sem.block_chains(ip.node)

        def same_block(a, b):
            ca, cb = chains_.get(id(a)), chains_.get(id(b))
            return bool(ca and cb) and ca[0][0] is cb[0][0]
        # the key is rebound right where the pointer is opened: the != fact is read at whichever of the two comes first
        ok_run = len(opens) == 1 and len(sets) == 1 and same_block(opens[0][0], sets[0][0]) and (neq in opens[0][1] or neq in sets[0][1]) and \
            len(exts) == 1 and same in exts[0][1] and len(ylds) == 1 and neq in ylds[0][1] and sem.lit(f"{CK} is None", False) in ylds[0][1]
        if ok_run:
            c_ = sem.calls_in_stmt(opens[0][0], 'GVFPointer')[0]
            ok_run = kwarg(c_, 'key') is not None and unparse(kwarg(c_, 'key')) in (CK, K)
    if CK is not False:
        chk.ob(rid, 'new pointer [line_start, line_end) on key change (previous yielded); end extended on equal key', repo.loc(ip, loop), ok_iv and ok_run,
               'pointer open/extend/yield logic altered' + (': ' + det if det else ''), key=ip.qual + '::open-extend', fn=ip.qual)


def byte_offsets(chk, repo, rid, qual):
    """Typestate on the line variable of a pointer generator: offsets are advanced by len() of the RAW
    bytes line (before any re-binding such as decode), for every line (before the comment skip)."""
    ip = repo.func(qual)
    chk.uses(ip)
    c = CFG(ip.node)
    loops = [n for n in walk_no_nested(ip.node) if isinstance(n, ast.For) and unparse(n.iter) == 'handle' and isinstance(n.target, ast.Name)]
    if len(loops) != 1:
        raise AnalysisError(f"anchor={qual}: `for line in handle` not found")
    lp = loops[0]
    L = lp.target.id
    head = c.node_for(lp)
    def acc_arg(a):
        """the argument of len() by which statement `a` advances an offset (x += len(A); x = x + len(A); also as one element of a tuple assignment)"""
        if isinstance(a, ast.AugAssign) and isinstance(a.op, ast.Add) and isinstance(a.value, ast.Call) and call_name(a.value) == 'len' and a.value.args:
            return unparse(a.value.args[0])
        if isinstance(a, ast.Assign) and len(a.targets) == 1:
            pairs = list(zip(a.targets[0].elts, a.value.elts)) if isinstance(a.targets[0], ast.Tuple) and isinstance(a.value, ast.Tuple) \
                and len(a.targets[0].elts) == len(a.value.elts) else [(a.targets[0], a.value)]
            for t, v in pairs:
                if isinstance(t, ast.Name) and isinstance(v, ast.BinOp) and isinstance(v.op, ast.Add):
                    for x, y in ((v.left, v.right), (v.right, v.left)):
                        if isinstance(x, ast.Name) and x.id == t.id and isinstance(y, ast.Call) and call_name(y) == 'len' and y.args:
                            return unparse(y.args[0])
        return None
    acc = [n for n in c.nodes if n.kind == 'stmt' and acc_arg(n.ast) is not None]
    ok = len(acc) == 1 and acc_arg(acc[0].ast) == L
    detail = f"offset accumulation statements: {[norm_stmt(a.ast) for a in acc]}"
    if ok:
        rebinds = [n for n in c.nodes if n.kind == 'stmt' and L in G.assigned_names(n.ast) and isinstance(n.ast, (ast.Assign, ast.AugAssign))
                   or (n.kind == 'stmt' and isinstance(n.ast, ast.AnnAssign) and n.ast.value is not None and L in G.assigned_names(n.ast))]
        early = [r for r in rebinds if acc[0].id in c.reachable(r.id, avoid=[head])]
        if early:
            ok = False
            detail = f"`{norm_stmt(early[0].ast)}` re-binds `{L}` before `{norm_stmt(acc[0].ast)}`: the offset advances by the number of characters, not bytes"
        skips = [n for n in c.nodes if n.kind == 'test' and any(isinstance(a, ast.For) and a is lp for a in repo.ancestors(n.ast))
                 and not c.dominates(acc[0].id, n.id)]
        if ok and skips:
            ok = False
            detail = f"the test `{unparse(skips[0].ast)}` can leave the iteration before the line's bytes were counted"
    chk.ob(rid, f"{ip.name}: offsets advance by len() of the raw bytes line, for every line, before any re-binding / skip", repo.loc(ip, lp), ok,
           detail + ' - pointers are byte offsets used with seek()/read() on the file opened in binary mode, so every pointer behind a multi-byte '
           'character (or a skipped line) is shifted and loads the wrong byte range', key=qual + '::raw-byte-offsets', fn=ip.qual)


def info_shift_rules(chk, repo, rid):
    """INFO column of a variant record: the writer emits `KEY=value` pieces, position attributes shifted +1 (and only those); the
    reader shifts exactly those back by -1.  Returns the key text the writer emits (for the upper-case obligation)."""
    from sa.peval import PEval, repo_consts, show as _show, Unk
    inf = repo.func('seqvar.VariantRecord:VariantRecord.info')
    pa = repo.func('seqvar.io:parse_attrs')
    chk.uses(inf, pa)
    def one_item(fn, position: bool):
        """value stored / emitted for one attribute when `key in constant.ATTRS_POSITION` is `position` (and the value is no list)"""
        outs = []
        for assume_list in (False,):
            pe = PEval(resolve_const=repo_consts(repo, fn.module), assume={})

            class PE2(PEval):
                def decide(self2, v, st):
                    t = _show(v)
                    if 'ATTRS_POSITION' in t and ' in ' in t:
                        neg = ' not in ' in t
                        return position != neg
                    if t.startswith('isinstance('):
                        return False
                    return PEval.decide(self2, v, st)
            pe = PE2(resolve_const=None)
            for o in pe.run(fn.node, {}):
                outs.append(o)
        return outs

    from sa.peval import Tmpl as _Tmpl

    def writer_item(position):
        """(key text, value text) of the `KEY=value` pieces of the string VariantRecord.info returns (one generic attribute)"""
        vals = set()
        for o in one_item(inf, position):
            if o.kind != 'return' or '<loop not entered>' in o.assumed:
                continue
            if not isinstance(o.value, _Tmpl):
                return None
            for piece in o.value.split(';'):
                if not piece.parts:
                    continue
                kv = piece.split('=')
                if len(kv) != 2 or kv[0].single() is None or kv[1].single() is None:
                    return None
                vals.add((_show(kv[0].single()), _show(kv[1].single())))
        return vals

    def reader_item(position):
        vals = set()
        for o in one_item(pa, position):
            for ef in o.effects:
                if ef[0] == 'item':
                    vals.add((_show(ef[2]), _show(ef[3])))
        return vals
    wp, wn = writer_item(True), writer_item(False)
    # KEY=value pieces: the value written for a position attribute is str(int(v) + 1) where v is what is written otherwise
    if wp is None or wn is None:
        chk.undecided(rid, 'INFO writer', inf.where, 'VariantRecord.info does not evaluate to a `;`-separated template of KEY=value pieces')
        wp, wn = set(), set()
    okw = len(wp) == 1 and len(wn) == 1
    wkey = None
    if okw:
        (k1, v1), (k0, v0) = next(iter(wp)), next(iter(wn))
        wkey = k1
        okw = k1 is not None and k1 == k0 and v0 is not None and re.sub(r'\s', '', v1) == re.sub(r'\s', '', f"str(int({v0}) + 1)")
    chk.ob(rid, 'writer shifts exactly constant.ATTRS_POSITION by +1', inf.where, okw,
           f"VariantRecord.info no longer shifts the position attributes of constant.ATTRS_POSITION by +1 (position attribute written as {sorted(wp)}, others as {sorted(wn)})",
           key=inf.qual + '::shift', fn=inf.qual)
    rp, rn = reader_item(True), reader_item(False)
    okr = len(rp) == 1 and len(rn) == 1
    if okr:
        (kk1, rv1), (kk0, rv0) = next(iter(rp)), next(iter(rn))
        okr = kk1 == kk0 and re.sub(r'\s', '', rv1) == re.sub(r'\s', '', f"str(int({rv0}) - 1)")
    chk.ob(rid, 'reader shifts exactly constant.ATTRS_POSITION by -1', pa.where, okr,
           f"parse_attrs no longer shifts the position attributes of constant.ATTRS_POSITION by -1 (position attribute stored as {sorted(rp)}, others as {sorted(rn)})",
           key=pa.qual + '::shift', fn=pa.qual)

    return wkey


def index_written_whole(chk, repo, rid):
    """R-ATOMIC: indexGVF opens <gvf>.idx for writing only AFTER every pointer has been generated (they are staged elsewhere first), so
    a run that dies while scanning the GVF - a record that cannot be parsed, an interrupt - leaves no index behind.  A partial
    index with a valid checksum line would be accepted by validate_gvf_index and hide every transcript behind the failure point.
    Obligation: the loop over iterate_pointer(...) is not nested inside the `with open(output_file, 'w..')` block, and precedes it."""
    from sa import sem
    chk.rule(rid, 'R-ATOMIC: the .idx file is opened for writing only after the pointer generation has completed', 1)
    chk.clauses.append('C13.k indexGVF generates all pointers before it opens the .idx file for writing: an aborted run leaves no truncated index with a valid checksum')
    f = repo.func('cli.index_gvf:index_gvf')
    chk.uses(f)
    loops = []
    for l in ast.walk(f.node):
        if isinstance(l, ast.For):
            it = sem.expand_names(f.node, l, l.iter, allow_calls=('iterate_pointer',))
            if isinstance(it, ast.Call) and call_name(it) == 'iterate_pointer':
                loops.append(l)
    outs = [(w, i) for w in ast.walk(f.node) if isinstance(w, ast.With) for i in w.items
            if isinstance(i.context_expr, ast.Call) and call_name(i.context_expr) == 'open' and i.context_expr.args
            and unparse(i.context_expr.args[0]) == 'output_file' and any(isinstance(a, ast.Constant) and isinstance(a.value, str) and ('w' in a.value or 'a' in a.value)
                                                                       for a in list(i.context_expr.args[1:]) + [k.value for k in i.context_expr.keywords])]
    if len(loops) != 1 or len(outs) != 1:
        chk.undecided(rid, 'index staging', f.where, f"{len(loops)} loops over iterate_pointer(...) / {len(outs)} `with open(output_file, 'w')` blocks found", key=f.qual + '::atomic', fn=f.qual)
        return
    inside = any(x is loops[0] for x in ast.walk(outs[0][0]))
    chk.ob(rid, 'pointers are generated outside (before) the block that writes the .idx', repo.loc(f, loops[0]), not inside and loops[0].lineno < outs[0][0].lineno,
           'the pointer loop runs while the .idx is already open for writing: an aborted indexGVF leaves a truncated index with a valid checksum line, which '
           'validate_gvf_index accepts - transcripts after the failure point vanish from indexed access', key=f.qual + '::atomic', fn=f.qual)

"""C18 - database bookkeeping conserves peptides.

a R-ONCE    split: every peptide reaches add_peptide_to_database exactly once per iteration path; sequences never assigned
b           merge / load: add with skip_checking=True, skip path has no early rejection
c           encodeFasta: decoy helpers handle {prefix, suffix}; get_decoy(get_real(h)) == h; dictionary line iff header is new;
            the id cached for a header is the REAL id (decoy string attached only after caching)
d R-SIBLING split and summarize obtain sources through from_variant_peptide with the same arguments (wildcard_map deviant: known finding)
e R-KEYS    every id prefix the package emits is recognised by the header parser
f           fusion source lookup keeps the first gene's ids when both transcripts share a gene
"""
import ast
import re
from sa.model import unparse, norm_stmt, call_name, kwarg, walk_no_nested, AnalysisError, str_consts
from sa.cfg import CFG, iteration_paths
from sa import guards as G

SPLIT = 'aa.PeptidePoolSplitter:PeptidePoolSplitter.split'
SUMM = 'aa.PeptidePoolSummarizer:NoncanonicalPeptideSummaryTable.add_entry'
ENC = 'cli.encode_fasta:'


def run(chk, repo):
    chk.clauses = [
        'C18.a splitFasta: every peptide is added to exactly one database on every path; no sequence is modified',
        'C18.b mergeFasta / database loading add peptides with skip_checking=True and the skip path cannot reject',
        'C18.c encodeFasta: decoy helpers agree on {prefix, suffix}; attaching undoes stripping; a dictionary line is written iff the real header is new; '
        'the cached identifier is the undecorated one',
        'C18.d splitFasta and summarizeFasta derive the deciding source set through the same call (same arguments), sort, first element',
        'C18.e every variant-id prefix emitted by the package is in the prefix table the header parser uses',
        'C18.f intragenic fusions keep the first transcript\'s variant ids when sources are looked up',
    ]
    chk.not_decided = ['priority semantics of source ordering / wildcard expansion']

    # ------------------------------------------------------------------ a
    chk.rule('C18.a', 'R-ONCE: exactly one database per peptide', 3)
    f = repo.func(SPLIT)
    chk.uses(f)
    cfg = CFG(f.node)
    loop = next((l for l in G.find_for(f.node) if unparse(l.iter) == 'self.peptides.peptides'), None)
    if loop is None:
        raise AnalysisError(f"anchor={SPLIT}: peptide loop not found")
    ps = iteration_paths(cfg, loop, loop_bound=2, max_paths=5000)
    chk.paths += len(ps)
    bad = None
    for p in ps:
        if p.end_kind() not in ('back', 'continue'):
            continue
        n = p.count(lambda x: x.kind == 'stmt' and norm_stmt(x.ast).startswith('self.add_peptide_to_database('))
        if n != 1:
            bad = bad or p
    chk.ob('C18.a', 'every iteration path adds the peptide to exactly one database', repo.loc(f, loop), bad is None,
           'an iteration path of split() adds the peptide to no database or to several', key=SPLIT + '::once',
           path=bad.describe(f.module.relpath) if bad else None, fn=f.qual)
    seqw = [norm_stmt(w[2]) for w in G.writes_in(loop.body) if isinstance(w[2], ast.Assign) and unparse(w[2].targets[0]).endswith('.seq')]
    chk.ob('C18.a', 'no sequence is assigned while splitting', repo.loc(f, loop), not seqw, f"sequence writes {seqw}", key=SPLIT + '::seq-unchanged', fn=f.qual)
    from sa import sem as _s18
    from sa.canon import _Expr as _CanonExpr18
    pv18 = loop.target.id if isinstance(loop.target, ast.Name) else 'peptide'
    desc = [n for n in loop.body if isinstance(n, ast.Assign) and unparse(n.targets[0]) == f'{pv18}.description']
    infos18 = [n.targets[0].id for n in loop.body if isinstance(n, ast.Assign) and isinstance(n.targets[0], ast.Name) and call_name(n.value) == 'from_variant_peptide']
    ok = len(desc) == 1 and len(infos18) == 1
    if ok:
        v18 = _s18.expand_names(f.node, desc[0], desc[0].value, allow_calls=('join', 'str'), keep=(infos18[0],))
        v18 = unparse(_s18.comp_alpha(_CanonExpr18().visit(ast.fix_missing_locations(v18))))
        ok = bool(re.match(r'^[\w.]+\.join\(\(str\(_c0\) for _c0 in ' + re.escape(infos18[0]) + r'\)\)$', v18))
    chk.ob('C18.a', 'header rewritten from ALL parsed entries (every entry kept)', repo.loc(f, loop), ok,
           'the header is not rebuilt from every entry of peptide_infos', key=SPLIT + '::all-entries', fn=f.qual)

    # ------------------------------------------------------------------ b
    chk.rule('C18.b', 'merge / load add without filtering', 3)
    mf = repo.func('cli.merge_fasta:merge_fasta')
    chk.uses(mf)
    adds = G.find_calls(mf.node, 'add_peptide')
    ok = len(adds) == 1 and unparse(kwarg(adds[0], 'skip_checking')) == 'True' and unparse(kwarg(adds[0], 'peptide')) == 'peptide'
    lp = next((a for a in repo.ancestors(adds[0]) if isinstance(a, ast.For)), None) if adds else None
    ok = ok and lp is not None and unparse(lp.iter) == 'second_pool.peptides'
    chk.ob('C18.b', 'mergeFasta adds every peptide of every further file with skip_checking=True', mf.where, ok,
           'mergeFasta filters or skips peptides while merging', key=mf.qual + '::add', fn=mf.qual)
    ap = repo.func('aa.VariantPeptidePool:VariantPeptidePool.add_peptide')
    chk.uses(ap)
    from sa import sem
    nap = sem.nf(repo, ap)
    rej = sem.facts_where(nap, lambda st: isinstance(st, ast.Return) and isinstance(st.value, ast.Constant) and not st.value.value, {'skip_checking': True})
    reachable = [st for st, fx in rej if fx is not None]
    anyrej = [st for st in ast.walk(nap) if isinstance(st, ast.Return) and isinstance(st.value, ast.Constant) and st.value.value is False]
    chk.ob('C18.b', 'with skip_checking the pool cannot reject (no `return False` is reachable when skip_checking is true)', ap.where,
           not reachable and len(anyrej) >= 1,
           'add_peptide can reject a peptide although skip_checking is set', key=ap.qual + '::skip-no-reject', fn=ap.qual)
    first = [n for n in walk_no_nested(mf.node) if isinstance(n, ast.Assign) and unparse(n.targets[0]) == 'pool' and 'VariantPeptidePool.load' in unparse(n.value)]
    chk.ob('C18.b', 'the first file seeds the pool unfiltered', mf.where, len(first) == 1, 'first file not loaded as the pool', key=mf.qual + '::first', fn=mf.qual)

    # ------------------------------------------------------------------ c
    chk.rule('C18.c', 'encodeFasta decoy algebra and dictionary discipline', 6)
    fs = {n: repo.func(ENC + n) for n in ('is_decoy_sequence', 'get_real_header', 'get_decoy_header', 'encode_fasta')}
    chk.uses(*fs.values())
    for n in ('is_decoy_sequence', 'get_real_header', 'get_decoy_header'):
        lits = sorted({ast.literal_eval(t.test.comparators[0]) for t in walk_no_nested(fs[n].node)
                       if isinstance(t, ast.If) and unparse(t.test).startswith('decoy_string_position == ')})
        chk.ob('C18.c', f"{n} handles exactly prefix and suffix", fs[n].where, lits == ['prefix', 'suffix'], f"{n} handles {lits}", key=ENC + n + '::positions', fn=fs[n].qual)

    def branch(fn, pos):
        for t in walk_no_nested(fn):
            if isinstance(t, ast.If) and unparse(t.test) == f"decoy_string_position == '{pos}'":
                return unparse(t.body[0].value)
        return None
    ok = branch(fs['get_real_header'].node, 'prefix') == 'header[len(decoy_string):]' and branch(fs['get_decoy_header'].node, 'prefix') == 'decoy_string + header' and \
        branch(fs['is_decoy_sequence'].node, 'prefix') == 'header.startswith(decoy_string)' and \
        branch(fs['get_real_header'].node, 'suffix') == 'header[:-len(decoy_string)]' and branch(fs['get_decoy_header'].node, 'suffix') == 'header + decoy_string' and \
        branch(fs['is_decoy_sequence'].node, 'suffix') == 'header.endswith(decoy_string)'
    chk.ob('C18.c', 'strip/attach are inverse slices on both positions (decoy(real(h)) == h when is_decoy(h))', fs['get_real_header'].where, ok,
           'decoy string slicing / concatenation altered', key=ENC + 'decoy-algebra')
    e = fs['encode_fasta']
    ecfg = CFG(e.node)
    loop = next((l for l in walk_no_nested(e.node) if isinstance(l, ast.For) and 'SeqIO.parse' in unparse(l.iter)), None)
    ps = iteration_paths(ecfg, loop, max_paths=2000)
    chk.paths += len(ps)
    bad = None
    for p in ps:
        if p.end_kind() not in ('back', 'continue'):
            continue
        ids = p.node_ids()
        known = p.facts.known('header in id_mapper')
        if known is None:
            # lookup form: N = id_mapper.get(header) (default None), then `N is None` <=> the header is new (cached identifiers are strings)
            from sa.cfg import literal as _lit
            got = None
            for (nid_, lab_, _y) in p.steps:
                n_ = ecfg.nodes[nid_]
                if n_.kind == 'stmt' and isinstance(n_.ast, ast.Assign) and len(n_.ast.targets) == 1 and isinstance(n_.ast.targets[0], ast.Name):
                    if unparse(n_.ast.value) in ('id_mapper.get(header)', 'id_mapper.get(header, None)'):
                        got = n_.ast.targets[0].id
                    elif got == n_.ast.targets[0].id:
                        got = None
                elif got is not None and n_.kind == 'test' and lab_ in ('T', 'F'):
                    atom, pol = _lit(n_.ast)
                    if atom == f"{got} is None":
                        known = not ((lab_ == 'T') == pol)
                        break
        wrote = [i for i, n in enumerate(p.nodes()) if n.kind == 'stmt' and 'dict_handle.write(' in norm_stmt(n.ast)]
        cached = [i for i, n in enumerate(p.nodes()) if n.kind == 'stmt' and (norm_stmt(n.ast).startswith('id_mapper[header] =') or 'id_mapper.setdefault(' in norm_stmt(n.ast))]
        decor = [i for i, n in enumerate(p.nodes()) if n.kind == 'stmt' and 'get_decoy_header(' in norm_stmt(n.ast)]
        if known is True and (wrote or cached):
            bad = bad or p
        if known is False and not (len(wrote) == 1 and len(cached) == 1):
            bad = bad or p
        if known is None:
            bad = bad or p
        if cached and decor and min(decor) < max(cached):
            bad = bad or p
    chk.ob('C18.c', 'dictionary line and cache insert happen iff the real header is new, and before any decoy decoration of the id', repo.loc(e, loop), bad is None,
           'an iteration path writes a dictionary line for a known header / none for a new one, or caches an identifier that already carries the decoy string '
           '(targets following their decoy would be written with the decoy identifier)', key=e.qual + '::dict-discipline',
           path=bad.describe(e.module.relpath) if bad else None, fn=e.qual)
    dl = [c for c in G.find_calls(e.node, 'write') if unparse(c.func.value) == 'dict_handle']
    ok = len(dl) == 1 and unparse(dl[0].args[0]).replace(' ', '') in ("f'{index}\\t{header}'+'\\n'", "f'{index}\\t{header}\\n'")
    chk.ob('C18.c', 'dictionary line = identifier TAB real header', repo.loc(e, loop), ok, 'dictionary line format altered', key=e.qual + '::dict-line', fn=e.qual)

    # ------------------------------------------------------------------ d
    chk.rule('C18.d', 'R-SIBLING: split and summarize derive sources identically', 3)
    s = repo.func(SUMM)
    chk.uses(s)
    c1 = G.find_calls(f.node, 'from_variant_peptide')
    c2 = G.find_calls(s.node, 'from_variant_peptide')
    k1 = {k.arg for k in c1[0].keywords} if c1 else set()
    k2 = {k.arg for k in c2[0].keywords} if c2 else set()
    k2n = k2 - {'check_source'}
    common_ok = {'peptide', 'tx2gene', 'coding_tx', 'label_map', 'group_map'} <= (k1 & k2n)
    chk.ob('C18.d', 'both pass peptide, tx2gene, coding_tx, label_map, group_map', s.where, common_ok, f"split {sorted(k1)}; summarize {sorted(k2)}", key='aa::sources-common-args')
    chk.ob('C18.d', 'both pass the wildcard map', s.where, ('wildcard_map' in k1) == ('wildcard_map' in k2),
           f"splitFasta passes wildcard_map, summarizeFasta does not (arguments {sorted(k2)}): with a wildcard source order (e.g. 'circRNA-+', 'Alt-*') the summary rows "
           "are not the databases splitFasta writes", key=SUMM + '::wildcard_map', fn=s.qual)
    def sorted_first(fn):
        """the list returned by from_variant_peptide is sorted in place before its element [0] supplies `.sources`, and no other element does"""
        names = [n.targets[0].id for n in ast.walk(fn) if isinstance(n, ast.Assign) and isinstance(n.targets[0], ast.Name) and call_name(n.value) == 'from_variant_peptide']
        if len(names) != 1:
            return False
        L = names[0]
        order = {}          # pre-order (textual execution order) index of every node

        def number(n):
            order[id(n)] = len(order)
            for c in ast.iter_child_nodes(n):
                number(c)
        number(fn)
        stmts = [n for n in ast.walk(fn) if isinstance(n, ast.stmt)]
        sort_l = [order[id(n)] for n in stmts if (isinstance(n, ast.Expr) and unparse(n.value) == f'{L}.sort()') or
                  (isinstance(n, ast.Assign) and unparse(n.targets[0]) == L and unparse(n.value) == f'sorted({L})')]
        uses = [x for x in ast.walk(fn) if isinstance(x, ast.Attribute) and x.attr == 'sources' and isinstance(x.value, ast.Subscript) and unparse(x.value.value) == L]
        return len(sort_l) == 1 and bool(uses) and all(unparse(u.value.slice) == '0' and order[id(u)] > sort_l[0] for u in uses)
    ok = sorted_first(f.node) and sorted_first(s.node)
    chk.ob('C18.d', 'both sort the entries and take the sources of the first', s.where, ok, 'sort / first-entry selection differs', key='aa::sources-first')

    # ------------------------------------------------------------------ e
    chk.rule('C18.e', 'R-KEYS: emitted id prefixes are parser prefixes', 8)
    vp = repo.cls('constant:VariantPrefix')
    table = set()
    for st in vp.node.body:
        if isinstance(st, ast.Assign):
            table |= set(str_consts(st.value))
    emitted = {}
    for fn in repo.funcs_in('parser', 'seqvar', 'svgraph', 'circ'):
        for n in ast.walk(fn.node):
            if isinstance(n, ast.JoinedStr) and n.values and isinstance(n.values[0], ast.Constant) and isinstance(n.values[0].value, str):
                head = n.values[0].value
                p_ = repo.parent(n)
                tgt = ''
                st = repo.enclosing_stmt(n)
                if isinstance(st, ast.Assign):
                    tgt = unparse(st.targets[0])
                if isinstance(p_, ast.keyword):
                    tgt = p_.arg
                if tgt in ('_id', 'circ_id', 'fusion_id', 'var_id') or (isinstance(st, ast.Return) and fn.name == 'create_variant_id'):
                    pre = head.split('-')[0].split('_')[0]
                    if pre:
                        emitted.setdefault(pre, repo.loc(fn, n))
    for pre, where in sorted(emitted.items()):
        chk.ob('C18.e', f"prefix '{pre}' emitted at {where} is recognised", where, pre in table, f"id prefix '{pre}' is emitted but not in VariantPrefix {sorted(table)}",
               key=f"aa.VariantPeptideIdentifier::prefix::{pre}")
    chk.extra['emitted_prefixes'] = sorted(emitted)

    # ------------------------------------------------------------------ f
    chk.rule('C18.f', 'intragenic fusion: ids of the first transcript are kept', 1)
    fv = repo.func('aa.VariantPeptideLabel:VariantPeptideInfo.from_variant_peptide')
    chk.uses(fv)
    # value based: G1 / G2 are the genes of the two fusion transcripts, whatever locals hold them.  A binding under the key G2 may only
    # happen when the genes are known to differ (otherwise it overwrites G1's labels), and when they are equal G1's list takes the
    # second transcript's labels as well.
    from sa import sem as _sf
    nfv = _sf.nf(repo, fv)
    chf = _sf.block_chains(nfv)
    G1t, G2t = 'tx2gene[variant_id.first_tx_id]', 'tx2gene[variant_id.second_tx_id]'

    def exp_t(st, e):
        return unparse(_sf.expand_names(nfv, st, e, chains=chf, depth=4))
    sites = []
    for st in ast.walk(nfv):
        if not (isinstance(st, ast.stmt) and _sf.own_stmt(st)):
            continue
        def dicts_under(e, conds):
            # (dict display, [(conditional-expression test, polarity)] it is evaluated under)
            if isinstance(e, ast.IfExp):
                yield from dicts_under(e.test, conds)
                yield from dicts_under(e.body, conds + [(e.test, True)])
                yield from dicts_under(e.orelse, conds + [(e.test, False)])
                return
            if isinstance(e, ast.Dict):
                yield e, conds
            for c_ in ast.iter_child_nodes(e):
                yield from dicts_under(c_, conds)
        for d, conds in dicts_under(st, []):
            for k, v in zip(d.keys, d.values):
                if k is not None:
                    sites.append((st, exp_t(st, k), exp_t(st, v), conds))
        if isinstance(st, ast.Assign) and isinstance(st.targets[0], ast.Subscript):
            sites.append((st, exp_t(st, st.targets[0].slice), exp_t(st, st.value), []))
    facts_at = {id(st): fx for st, fx in _sf.facts_where(nfv, lambda st: any(st is s_[0] for s_ in sites))}

    def genes_equal(site):
        st = site[0]
        fx = facts_at.get(id(st))
        lits = list(_sf.sure_literals(fx)) if fx is not None else []
        for tst, pol_ in site[3]:
            lits += [(a_, p_) for a_, p_ in (_sf.conj_literals(tst, pol_) or set())]
        for t, pol in lits:
            try:
                e = ast.parse(t, mode='eval').body
            except SyntaxError:
                continue
            if isinstance(e, ast.Compare) and len(e.ops) == 1 and isinstance(e.ops[0], (ast.Eq, ast.NotEq)):
                a, b = exp_t(st, e.left), exp_t(st, e.comparators[0])
                if {a, b} == {G1t, G2t}:
                    return pol if isinstance(e.ops[0], ast.Eq) else not pol
        return None
    g2_sites = [s_ for s_ in sites if s_[1] == G2t]
    g1_merge = [s_ for s_ in sites if s_[1] == G1t and 'second_variants' in s_[2] and genes_equal(s_) is True]
    ok = bool(g2_sites) and all(genes_equal(s_) is False for s_ in g2_sites) and len(g1_merge) >= 1
    if not g2_sites and not any(s_[1] == G1t for s_ in sites):
        # neither gene key is stored in this function any more (the fusion branch was moved / is dispatched through a table): not readable here
        chk.undecided('C18.f', 'same-gene fusion merge', fv.where, 'no store under the first / second gene key of a fusion found in from_variant_peptide (moved into a dispatched helper?)',
                      key=fv.qual + '::intragenic-fusion', fn=fv.qual)
    else:
      chk.ob('C18.f', 'same-gene fusion merges second-transcript ids into the first gene\'s list instead of overwriting it', fv.where, ok,
             'var_ids for a fusion is built so that the second gene key can overwrite the first when both transcripts belong to one gene: the fusion id and '
             'first-transcript ids are lost before sources are looked up (peptide assigned to the wrong / empty source)', key=fv.qual + '::intragenic-fusion', fn=fv.qual)

    # ------------------------------------------------------------------ g
    chk.rule('C18.g', 'R-EFFECT: wildcard map is insert-if-absent (first = highest-priority pattern wins)', 2)
    wm = repo.func('aa.PeptidePoolSplitter:PeptidePoolSplitter.create_wildcard_map')
    chk.uses(wm)
    wcfg = CFG(wm.node)
    for n in wcfg.nodes:
        if n.kind == 'stmt' and isinstance(n.ast, ast.Assign) and unparse(n.ast.targets[0]).startswith('wildcard_map['):
            key_ = unparse(n.ast.targets[0])[len('wildcard_map['):-1]
            fx = G.facts_at(wcfg, n.id)
            chk.ob('C18.g', f"'{norm_stmt(n.ast)}' only when the key is absent", repo.loc(wm, n.ast), fx.get(f"{key_} in wildcard_map") is False,
                   f"'{norm_stmt(n.ast)}' overwrites an existing entry: a lower-priority wildcard pattern takes over combinations already claimed by a higher-priority one",
                   key=wm.qual + f'::insert-if-absent::{key_}', fn=wm.qual)
    for c_ in G.find_calls(wm.node, 'setdefault'):
        if unparse(c_.func.value) == 'wildcard_map' and len(c_.args) == 2:
            chk.ob('C18.g', f"'{unparse(c_)[:60]}' inserts only when the key is absent", repo.loc(wm, c_), True, fn=wm.qual)
    for c_ in G.find_calls(wm.node, 'update'):
        if unparse(c_.func.value) == 'wildcard_map':
            chk.ob('C18.g', f"'{unparse(c_)[:50]}' inserts only when the key is absent", repo.loc(wm, c_), False,
                   'dict.update overwrites existing entries: a lower-priority wildcard pattern takes over combinations already claimed by a higher-priority one '
                   '(first-wins becomes last-wins)', key=wm.qual + '::insert-if-absent::update', fn=wm.qual)
    order_sorted = any(isinstance(l, ast.For) and re.sub(r'lambda \w+: self\.order\[\w+\]', 'lambda x: self.order[x]', unparse(l.iter)) == 'sorted(self.order, key=lambda x: self.order[x])'
                       for l in walk_no_nested(wm.node))
    chk.ob('C18.g', 'patterns are expanded in priority order', wm.where, order_sorted, 'wildcard patterns are not expanded in source-order priority', key=wm.qual + '::priority-order', fn=wm.qual)

    # ------------------------------------------------------------------ h
    chk.rule('C18.h', 'source-level lists are really sorted before the priority comparison; no discarded pure results in the label code', 3)
    ti = repo.func('aa.VariantPeptideLabel:VariantSourceSet.to_int')
    chk.uses(ti)
    tcfg = CFG(ti.node)
    bad = None
    n_ret = 0
    for pth in tcfg.paths(tcfg.entry, max_paths=2000):
        if pth.end_kind() != 'return':
            continue
        last = tcfg.nodes[pth.steps[-1][0]]
        if pth.facts.known('sort') is False:
            continue
        if isinstance(last.ast, ast.Return) and isinstance(last.ast.value, ast.Call) and call_name(last.ast.value) == 'sorted' \
                and not any(k.arg in ('key', 'reverse') for k in last.ast.value.keywords):
            n_ret += 1          # `return sorted(x)`: sorted by construction
            continue
        if not (isinstance(last.ast, ast.Return) and isinstance(last.ast.value, ast.Name)):
            bad = bad or (pth, 'return value is not a plain name')
            continue
        n_ret += 1
        x = last.ast.value.id
        state = 'unsorted'
        for nd in pth.nodes():
            a = nd.ast
            if nd.kind != 'stmt':
                continue
            if isinstance(a, ast.Expr) and unparse(a.value) == f"{x}.sort()":
                state = 'sorted'
            elif isinstance(a, (ast.Assign, ast.AnnAssign)) and x in G.assigned_names(a):
                v = a.value
                state = 'sorted' if isinstance(v, ast.Call) and call_name(v) == 'sorted' else 'unsorted'
        if state != 'sorted':
            bad = bad or (pth, f"`{x}` is returned without having been sorted")
    chk.paths += n_ret
    chk.ob('C18.h', f"to_int(sort=True): on every path the returned list was sorted last ({n_ret} paths)", ti.where, n_ret > 0 and bad is None,
           (bad[1] if bad else 'no return path') + ': VariantSourceSet.__gt__ compares these lists lexicographically, so an unsorted list (set iteration order; '
           'differs from numeric order once a level >= 8 is present) ranks a source set wrongly and the peptide goes to the wrong database / summary row',
           key=ti.qual + '::sorted', path=bad[0].describe(ti.module.relpath) if bad else None, fn=ti.qual)
    gt_ = repo.func('aa.VariantPeptideLabel:VariantSourceSet.__gt__')
    chk.uses(gt_)
    tcalls = G.find_calls(gt_.node, 'to_int')
    okc = bool(tcalls) and all(kwarg(c, 'sort') is None and not c.args or (kwarg(c, 'sort') is not None and unparse(kwarg(c, 'sort')) == 'True') for c in tcalls)
    chk.ob('C18.h', '__gt__ compares sorted level lists', gt_.where, okc, 'the comparison asks for unsorted level lists', key=gt_.qual + '::sorted-levels', fn=gt_.qual)
    hits = []
    nfun = 0
    for f_ in repo.funcs_in('aa.VariantPeptideLabel', 'aa.PeptidePoolSplitter', 'aa.PeptidePoolSummarizer', 'aa.VariantPeptideIdentifier'):
        nfun += 1
        chk.uses(f_)
        hits += [f"{repo.loc(f_, h[0])}: {h[1]}" for h in G.discarded_pure(f_.node)]
    import textwrap
    if not G.discarded_pure(ast.parse(textwrap.dedent("""
        def f(x):
            sorted(x)
            return x
    """)).body[0]):
        raise AnalysisError('R-DISCARD positive control did not fire')
    chk.ob('C18.h', f"R-DISCARD: no side-effect-free result is computed and dropped in the label / split / summary code ({nfun} functions)",
           'moPepGen/aa/VariantPeptideLabel.py:1', not hits, f"{hits}: the statement has no effect (e.g. `sorted(x)` instead of `x.sort()`)",
           key='aa.label::discarded-pure')
    # ------------------------------------------------------------------ shared: option plumbing by name
    from rules.shared import optname
    chk.clauses.append('C18.i (shared R-THREAD) an option value bound to a name that is itself a CLI option carries that very option')
    optname(chk, repo, 'C18.i', ['cli.split_fasta', 'cli.merge_fasta', 'cli.encode_fasta', 'cli.summarize_fasta'], floor=0)
    # ------------------------------------------------------------------ j: pools are only grown through add_peptide
    chk.rule('C18.j', 'R-OWNER: the record set of a peptide pool is written only by VariantPeptidePool itself (merging keeps every header entry)', 1)
    chk.clauses.append('C18.j outside VariantPeptidePool nothing writes a pool\'s record set directly: records of a further file enter through add_peptide, '
                       'which merges the header entries of equal sequences (a set union would drop them)')
    offenders = []
    n_sites = 0
    for f_ in repo.funcs_in('aa', 'cli'):
        if f_.qual.startswith('aa.VariantPeptidePool:VariantPeptidePool.'):
            continue
        for n in ast.walk(f_.node):
            tgt = None
            if isinstance(n, ast.AugAssign):
                tgt = n.target
            elif isinstance(n, ast.Assign) and len(n.targets) == 1 and isinstance(n.targets[0], ast.Attribute):
                tgt = n.targets[0]
            elif isinstance(n, ast.Call) and isinstance(n.func, ast.Attribute) and n.func.attr in ('update', 'add', 'union', 'discard', 'remove', 'clear', 'difference_update', 'intersection_update'):
                tgt = n.func.value
            if tgt is None:
                continue
            t_ = unparse(tgt)
            if t_.endswith('.peptides.peptides') or re.fullmatch(r'(pool|\w*_pool|second_pool)\.peptides', t_):
                n_sites += 1
                if not (isinstance(n, ast.Assign) and isinstance(n.value, ast.Call) and call_name(n.value) in ('set', 'VariantPeptidePool')):
                    offenders.append(f"{f_.qual}: {unparse(n)[:70]}")
    chk.ob('C18.j', 'no direct write to a pool record set outside VariantPeptidePool', 'moPepGen/aa/VariantPeptidePool.py:1', not offenders,
           f"pool record sets written directly: {offenders}: peptides present in two inputs keep only the header entries of the first", key='aa::pool-owner')
    from rules.shared import kwname
    chk.clauses.append('C18.kw (shared R-THREAD) parameters handed on as keyword arguments keep their name: no `a=b` between two parameters of one function')
    kwname(chk, repo, 'C18.kw', ['aa.PeptidePoolSplitter', 'aa.PeptidePoolSummarizer', 'aa.VariantPeptideLabel', 'aa.VariantPeptideIdentifier', 'cli.split_fasta', 'cli.merge_fasta', 'cli.encode_fasta', 'cli.summarize_fasta'], floor=0)
    from rules.shared import options_live
    chk.clauses.append('C18.k (shared R-OPTION) every option splitFasta itself defines is read by its code: none silently falls back to a library default')
    options_live(chk, repo, 'C18.k', 'cli.split_fasta:add_subparser_split_fasta', 'cli.split_fasta:split_fasta', ('cli.split_fasta', 'cli.common'), floor=8)
    from rules.shared import no_substring_on_headers
    chk.clauses.append('C18.l (R-KIND) header entries are never compared by a substring test on the joined header string: merging keeps every entry (union of header entries)')
    no_substring_on_headers(chk, repo, 'C18.l', ['aa.VariantPeptidePool', 'aa.PeptidePoolSplitter', 'aa.PeptidePoolSummarizer', 'cli.merge_fasta', 'cli.split_fasta', 'cli.encode_fasta'], floor=1)
    from rules.shared import no_stale_loop_locals
    chk.clauses.append('C18.m (R-FRESH) parse_variant_peptide_id resets the optional fields (gene id, ORF id) for EVERY entry of a header: an entry never inherits the ORF id of the entry before it')
    no_stale_loop_locals(chk, repo, 'C18.m', 'aa.VariantPeptideIdentifier:parse_variant_peptide_id',
                         lambda l: isinstance(l, ast.For) and 'split' in unparse(l.iter) and any(isinstance(x, ast.Name) and x.id == 'orf_id' for x in ast.walk(l)),
                         'the entry loop of parse_variant_peptide_id',
                         reviewed={'variant_id': 'assigned by an if/elif chain over the four identifier classes that IdentifierType can be (it is set to one of them above): the chain is exhaustive by construction'})



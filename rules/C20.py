"""C20 - decoyFasta: one faithful, reproducible decoy per target.

a R-ONCE   one record appended per non-raising path; main generates once per target; output order branches complete
b must-precede: targets sorted before seeding and before any RNG use; seed guard is a None-ness test
c R-TAINT literal: exception literal is an EXPASY_RULES key
d R-KIND   cut positions vs residue indices in the fixed-index list
e rearrangement loops: fixed positions copied from the same index, others from the permuted index list (shape)
"""
import ast
from sa.model import unparse, norm_stmt, call_name, kwarg, walk_no_nested, AnalysisError
from sa.cfg import CFG, iteration_paths
from sa import guards as G
from sa import flow

D = 'cli.decoy_fasta:DecoyFasta.'


def run(chk, repo):
    chk.clauses = [
        'C20.a every non-raising path of generate_decoy_sequence appends exactly one decoy whose header is decoy_string (+) target header; '
        'main generates once per target; each output-order branch yields every target and every decoy once',
        'C20.b targets are sorted by content before seeding and before any RNG-dependent step; the seed guard is `is not None`',
        'C20.c the cleavage-exception literal is a key of EXPASY_RULES',
        'C20.d values appended to the fixed-index list are residue indices (cut positions need a conversion)',
        'C20.e reverse/shuffle copy fixed residues from their own index and fill the rest from the permuted movable indices',
        'C20.f the tail fill of reverse/shuffle appends exactly the missing number of residues (len(target) - len(decoy so far))',
    ]
    chk.not_decided = ['that the rearrangement loops keep every fixed position for all index sets (loop invariants)']
    gen = repo.func(D + 'generate_decoy_sequence')
    main = repo.func(D + 'main')
    itd = repo.func(D + 'iterate_target_decoy_database')
    ffi = repo.func(D + 'find_fixed_indices')
    chk.uses(gen, main, itd, ffi)

    # ------------------------------------------------------------------ a
    chk.rule('C20.a', 'R-ONCE: one decoy per target; header algebra; order branches complete', 7)
    cfg = CFG(gen.node)
    paths = cfg.paths(cfg.entry, loop_bound=2, max_paths=5000)
    chk.paths += len(paths)
    bad = None
    for p in paths:
        if p.end_kind() == 'raise':
            continue
        n = p.count(lambda x: x.kind == 'stmt' and norm_stmt(x.ast).startswith('self.decoy_db.append('))
        if n != 1:
            bad = bad or p
    chk.ob('C20.a', 'exactly one decoy record appended on every non-raising path', gen.where, bad is None,
           'a non-raising path of generate_decoy_sequence appends no / several decoy records', key=gen.qual + '::once',
           path=bad.describe(gen.module.relpath) if bad else None, fn=gen.qual)
    # E9 partial evaluation: what record is appended when the decoy string goes in front / behind (the generation method fixed to 'reverse')
    from sa.peval import PEval, show as _show20
    tparam = [a.arg for a in gen.node.args.args if a.arg != 'self']
    hdr = {}
    rec_ok = bool(tparam)
    for pos in ('prefix', 'suffix'):
        pe20 = PEval(record=('SeqRecord',))
        outs20 = [o for o in pe20.run(gen.node, {'self.decoy_string_position': pos, 'self.method': 'reverse'}) if o.kind != 'raise']
        descs, seqs = set(), set()
        for o in outs20:
            for c in o.calls:
                if c['name'] == 'SeqRecord':
                    descs.add(_show20(c['kwargs'].get('description')))
                    seqs.add(_show20(c['args'][0]) if c['args'] else _show20(c['kwargs'].get('seq')))
        hdr[pos] = sorted(descs)
        rec_ok = rec_ok and len(seqs) == 1 and 'reverse_sequence(' in next(iter(seqs))
    chk.ob('C20.a', 'the appended record carries decoy_seq and decoy_header', gen.where, rec_ok, f"decoy record construction altered: {hdr}", key=gen.qual + '::record', fn=gen.qual)
    T = tparam[0] if tparam else 'seq'
    ok = hdr.get('prefix') == [f'self.decoy_string + {T}.description'] and hdr.get('suffix') == [f'{T}.description + self.decoy_string']
    chk.ob('C20.a', 'decoy header = decoy string attached to the unchanged target header (prefix / suffix)', gen.where, ok,
           f"decoy header construction altered: prefix -> {hdr.get('prefix')}, otherwise -> {hdr.get('suffix')}", key=gen.qual + '::header', fn=gen.qual)
    methods = {}
    for n in walk_no_nested(gen.node):
        if isinstance(n, ast.If) and unparse(n.test).startswith('self.method == '):
            methods[ast.literal_eval(n.test.comparators[0])] = n
    ok = set(methods) == {'reverse', 'shuffle'}
    last_else = None
    if ok:
        n = methods['reverse']
        while n.orelse and isinstance(n.orelse[0], ast.If):
            n = n.orelse[0]
        last_else = n.orelse
        ok = bool(last_else) and isinstance(last_else[-1], ast.Raise)
    chk.ob('C20.a', 'method dispatch: reverse | shuffle | raise', gen.where, ok, 'method dispatch altered', key=gen.qual + '::methods', fn=gen.qual)
    fi = [n for n in walk_no_nested(gen.node) if isinstance(n, ast.Assign) and unparse(n.targets[0]) == 'fixed_indices']
    ok = len(fi) == 1 and unparse(fi[0].value) == 'self.find_fixed_indices(seq.seq)' and \
        all(unparse(c.args[1]) == 'fixed_indices' and unparse(c.args[0]) == 'seq.seq' for c in G.find_calls(gen.node) if call_name(c) in ('reverse_sequence', 'shuffle_sequence'))
    chk.ob('C20.a', 'the rearrangement receives the target sequence and its fixed indices', gen.where, ok,
           'fixed indices are not computed from / passed with the target sequence', key=gen.qual + '::fixed-threading', fn=gen.qual)
    loops = [l for l in G.find_for(main.node) if unparse(l.iter) == 'self.target_db']
    ok = len(loops) == 1 and [norm_stmt(s) for s in loops[0].body] == ['self.generate_decoy_sequence(seq)']
    chk.ob('C20.a', 'main generates exactly one decoy per target', main.where, ok, 'main loop altered', key=main.qual + '::per-target', fn=main.qual)
    # output orders (E9): what the generator yields, in order, for each value of self.order when both databases are non-empty
    from sa.peval import PEval as _PE, show as _psh
    T_, D_ = '<item of self.target_db>', '<item of self.decoy_db>'
    exp = {
        'juxtaposed': [['<item of enumerate(self.target_db)>[1]', 'self.decoy_db[<item of enumerate(self.target_db)>[0]]'],
                       ['<item of zip(self.target_db, self.decoy_db)>[0]', '<item of zip(self.target_db, self.decoy_db)>[1]']],
        'target_first': [[T_, D_]],
        'decoy_first': [[D_, T_]],
    }
    got, ok = {}, True
    for order in list(exp) + ['<other>']:
        try:
            outs = _PE(split_unknown=True, unroll=True).run(itd.node, {'self.order': order})
        except (ValueError, OverflowError) as e_:
            chk.undecided('C20.a', 'output orders', itd.where, f"iterate_target_decoy_database cannot be evaluated for order {order!r}: {e_}")
            ok = None
            break
        if order == '<other>':
            ok = ok and bool(outs) and all(o.kind == 'raise' for o in outs)
            continue
        full = [[_psh(ef[1]) for ef in o.effects if ef[0] == 'yield'] for o in outs if '<loop not entered>' not in o.assumed and o.kind != 'raise']
        got[order] = full
        ok = ok and len(full) == 1 and full[0] in exp[order] and not any(o.kind == 'raise' for o in outs)
    if ok is not None:
        chk.ob('C20.a', 'each order branch yields every target and decoy once in the requested order', itd.where, ok,
               f"yields per order: {got}", key=itd.qual + '::orders', fn=itd.qual)

    # ------------------------------------------------------------------ b
    chk.rule('C20.b', 'must-precede: sort -> seed -> generation; seed guard is None-ness', 4)
    mcfg = CFG(main.node)
    srt = [n.id for n in mcfg.nodes if n.kind == 'stmt' and norm_stmt(n.ast).startswith('self.target_db.sort(')]
    seed = [n.id for n in mcfg.nodes if n.kind == 'stmt' and norm_stmt(n.ast) == 'random.seed(self.seed)']
    genl = [n.id for n in mcfg.nodes if n.kind == 'iter' and unparse(n.ast.iter) == 'self.target_db']
    ok = len(srt) == 1 and len(seed) == 1 and len(genl) == 1 and mcfg.dominates(srt[0], seed[0]) and mcfg.dominates(srt[0], genl[0])
    chk.ob('C20.b', 'target_db.sort dominates random.seed and the generation loop', main.where, ok,
           'targets are not sorted before seeding / generating (decoys depend on input order)', key=main.qual + '::sort-first', fn=main.qual)
    sk = None
    for c in G.find_calls(main.node, 'sort'):
        if unparse(c.func.value) == 'self.target_db':
            sk = kwarg(c, 'key')
    if isinstance(sk, ast.Name) and sk.id in main.module.constants:
        sk = main.module.constants[sk.id]          # a module-level key function
    ok = (isinstance(sk, ast.Lambda) and unparse(sk.body) == f"{sk.args.args[0].arg}.seq") or \
        (isinstance(sk, ast.Call) and unparse(sk.func) in ('operator.attrgetter', 'attrgetter') and [unparse(a) for a in sk.args] == ["'seq'"] and not sk.keywords)
    chk.ob('C20.b', 'sort key is the sequence content', main.where, ok, f"sort key {unparse(sk) if sk is not None else None}", key=main.qual + '::sort-key', fn=main.qual)
    if seed:
        fx = G.facts_at(mcfg, seed[0])
        ok = fx == {'self.seed is None': False}
        chk.ob('C20.b', 'random.seed runs for every seed value (guard is exactly `self.seed is not None`)', main.where, ok,
               f"random.seed(self.seed) is guarded by {fx}: some seed values (e.g. 0) leave the RNG unseeded - output not reproducible",
               key=main.qual + '::seed-guard', fn=main.qual)
        # the seed call precedes the generation loop on every path where it runs
        chk.ob('C20.b', 'seeding precedes generation', main.where, all(seed[0] in mcfg.reachable(mcfg.entry, avoid=[genl[0]]) for _ in [0]) and
               genl[0] in mcfg.reachable(seed[0]), 'random.seed does not precede the generation loop', key=main.qual + '::seed-before-gen', fn=main.qual)
    # RNG uses only inside shuffle_sequence
    rng_users = []
    for f in repo.funcs_in('cli.decoy_fasta'):
        for c in G.find_calls(f.node, nested=False):
            if isinstance(c.func, ast.Attribute) and unparse(c.func.value) == 'random':
                rng_users.append((f.name, c.func.attr))
    ok = sorted(rng_users) == [('main', 'seed'), ('shuffle_sequence', 'sample')]
    chk.ob('C20.b', 'the only RNG uses are random.seed in main and random.sample in shuffle_sequence', main.where, ok,
           f"RNG uses {rng_users}", key='cli.decoy_fasta::rng-users')

    # ------------------------------------------------------------------ c
    chk.rule('C20.c', 'R-TAINT literal: exception literal is a table member', 1)
    R1 = ast.literal_eval(repo.const('aa.expasy_rules', 'EXPASY_RULES'))
    calls = [c for c in G.find_calls(ffi.node) if 'cleave_sites' in call_name(c)]
    for c in calls:
        arg = kwarg(c, 'exception') or (c.args[1] if len(c.args) > 1 else None)
        kind, info = flow.classify(ffi, arg) if arg is not None else ('literal', [None])
        ok = kind == 'literal' and all(v is None or v in R1 for v in info)
        chk.ob('C20.c', f"{unparse(c)[:70]}", repo.loc(ffi, c), ok,
               f"exception value {info} ({kind}) is not None / a key of EXPASY_RULES", key=ffi.qual + '::exception-literal', fn=ffi.qual)

    # ------------------------------------------------------------------ d
    chk.rule('C20.d', 'R-KIND: fixed_indices holds residue indices; cut positions need a conversion', 3)
    for w in G.writes_in(ffi.node.body):
        if w[0] != 'fixed_indices' or w[1] == 'assign' and isinstance(w[2], ast.Assign) and isinstance(w[2].value, ast.List) and not w[2].value.elts:
            continue
        st = w[2]
        val = st.value if isinstance(st, (ast.AugAssign, ast.Assign)) else (st.args[0] if isinstance(st, ast.Call) and st.args else None)
        if val is None:
            continue
        cuts = [c for c in ast.walk(val) if isinstance(c, ast.Call) and 'cleave_sites' in call_name(c)]
        if cuts:
            converted = any(isinstance(b, ast.BinOp) and isinstance(b.op, (ast.Sub, ast.Add)) and isinstance(b.right, ast.Constant) for b in ast.walk(val))
            chk.ob('C20.d', f"'{norm_stmt(repo.enclosing_stmt(st) if not isinstance(st, ast.stmt) else st)[:80]}': cut positions converted to residue indices",
                   repo.loc(ffi, st), converted,
                   "cut positions (slice boundaries: index AFTER the cleaved residue) are stored unconverted in fixed_indices, whose elements are "
                   "used as residue indices (seq[i], `i in fixed_indices` over enumerate(seq)): the residue after the cleavage site is pinned, "
                   "the cleaved residue moves, and a C-terminal site yields the out-of-range index len(seq)",
                   key=ffi.qual + '::fixed_indices += cut positions', fn=ffi.qual)
        else:
            # residue indices must come from enumerate(seq)
            names = G.reads_in(val)
            loop = next((a for a in repo.ancestors(st) if isinstance(a, ast.For)), None)
            ok = loop is not None and unparse(loop.iter) == 'enumerate(seq)' and names <= {unparse(loop.target.elts[0])}
            chk.ob('C20.d', f"'{norm_stmt(repo.enclosing_stmt(st))[:60]}': enumerate index", repo.loc(ffi, st), ok,
                   'a value other than the enumerate index of seq is appended to fixed_indices', key=ffi.qual + f"::append::{unparse(val)}", fn=ffi.qual)
    # nterm / cterm / pattern tests: the condition under which the enumerate index is pinned, as a boolean function (truth table)
    from sa import sem as _s20
    eloop = [l for l in walk_no_nested(ffi.node) if isinstance(l, ast.For) and isinstance(l.iter, ast.Call) and call_name(l.iter) == 'enumerate'
             and isinstance(l.target, ast.Tuple) and len(l.target.elts) == 2 and all(isinstance(e, ast.Name) for e in l.target.elts)]
    if len(eloop) != 1:
        raise AnalysisError(f"anchor={ffi.qual}: the enumerate loop over the sequence not found")
    iv, rv = (e.id for e in eloop[0].target.elts)
    sq = unparse(eloop[0].iter.args[0])

    def pins_index(st):
        return isinstance(st, ast.Expr) and isinstance(st.value, ast.Call) and isinstance(st.value.func, ast.Attribute) and st.value.func.attr in ('append', 'add') \
            and unparse(st.value.func.value) == 'fixed_indices' and len(st.value.args) == 1 and unparse(st.value.args[0]) == iv
    ec = _s20.emit_condition(ffi.node, eloop[0].body, pins_index)
    want_t = ast.parse(f"({iv} == 0 and self.keep_peptide_nterm) or ({iv} == len({sq}) - 1 and self.keep_peptide_cterm) or ({rv} in self.non_shuffle_pattern)", mode='eval').body
    if ec is None:
        chk.undecided('C20.d', 'N-term = index 0, C-term = index len-1, listed residues by membership', ffi.where, 'the pinning loop contains a construct that is not understood', key=ffi.qual + '::terminal-tests', fn=ffi.qual)
    else:
        eqv, wit = _s20.tt_equal(ec[0], want_t)
        chk.ob('C20.d', 'N-term = index 0, C-term = index len-1, listed residues by membership', ffi.where, eqv is True,
               f"terminal / pattern fixed-position tests altered: the index is pinned under `{unparse(ec[0])[:200]}`, which differs from (first residue and keep-nterm) or "
               f"(last residue and keep-cterm) or (listed residue) when {sorted(k for k, v in (wit or {}).items() if v) if isinstance(wit, dict) else wit} hold",
               key=ffi.qual + '::terminal-tests', fn=ffi.qual)

    # ------------------------------------------------------------------ e
    chk.rule('C20.e', 'rearrangement loop can emit several fixed residues in a row (a fixed emission does not consume a movable element)', 2)
    from sa import sem as _se20
    from sa.affine import simple_aff, Aff
    from sa.canon import _Expr as _CanonExpr20
    shape = {}
    for nm in ('reverse_sequence', 'shuffle_sequence'):
        f = repo.func(D + nm)
        chk.uses(f)
        fcfg = CFG(f.node)
        SEQ = f.params()[0] if f.params() else 'seq'
        # OUT: the list that is joined into the returned sequence;  PERM / cur: `OUT.append(SEQ[PERM[cur]])`
        perm = cur = out_n = None
        mov_calls = []
        for c in G.find_calls(f.node, 'append'):
            if len(c.args) == 1 and isinstance(c.args[0], ast.Subscript) and unparse(c.args[0].value) == SEQ and isinstance(c.args[0].slice, ast.Subscript) \
                    and isinstance(c.args[0].slice.value, ast.Name):
                mov_calls.append(c)
        if len(mov_calls) == 1:
            perm, cur, out_n = mov_calls[0].args[0].slice.value.id, unparse(mov_calls[0].args[0].slice.slice), unparse(mov_calls[0].func.value)
        elif not mov_calls:
            # element form: `for [i,] j in [enumerate(]PERM[)]: ... OUT.append(SEQ[j])`
            for c in G.find_calls(f.node, 'append'):
                if len(c.args) == 1 and isinstance(c.args[0], ast.Subscript) and unparse(c.args[0].value) == SEQ and isinstance(c.args[0].slice, ast.Name):
                    j_ = c.args[0].slice.id
                    for lp_ in [a_ for a_ in repo.ancestors(c) if isinstance(a_, ast.For)]:
                        it_ = lp_.iter.args[0] if isinstance(lp_.iter, ast.Call) and call_name(lp_.iter) == 'enumerate' and lp_.iter.args else lp_.iter
                        tg_ = lp_.target.elts[-1] if isinstance(lp_.target, ast.Tuple) else lp_.target
                        if isinstance(it_, ast.Name) and isinstance(tg_, ast.Name) and tg_.id == j_:
                            mov_calls.append(c)
                            perm, cur, out_n = it_.id, j_, unparse(c.func.value)
            if len(mov_calls) != 1:
                mov_calls, perm, cur, out_n = [], None, None, None
        loops = [n for n in walk_no_nested(f.node) if isinstance(n, (ast.While, ast.For)) and mov_calls and any(x is mov_calls[0] for x in ast.walk(n))]
        shape[nm] = (SEQ, out_n, perm)
        if perm is None or not loops:
            chk.undecided('C20.e', f"{nm}: rearrangement loop found", f.where, 'cannot find the loop that emits the permuted movable residues (`out.append(seq[perm[k]])`)',
                          key=f.qual + '::loop', fn=f.qual)
            continue
        loop = loops[0]

        def is_movable_emit(n):
            return n.kind == 'stmt' and any(x is mov_calls[0] for x in ast.walk(n.ast))

        def is_fixed_emit(n):
            return n.kind == 'stmt' and not is_movable_emit(n) and any(
                call_name(c) == 'append' and unparse(c.func.value) == out_n and len(c.args) == 1 and isinstance(c.args[0], ast.Subscript)
                and unparse(c.args[0].value) == SEQ for c in G.find_calls(n.ast))
        ok = False
        detail = ''
        if isinstance(loop, ast.While):
            ps = iteration_paths(fcfg, loop, loop_bound=2, max_paths=2000)
            chk.paths += len(ps)
            for p in ps:
                if p.end_kind() not in ('back', 'continue'):
                    continue
                fixed = p.count(is_fixed_emit)
                mov = p.count(is_movable_emit)
                adv = p.count(lambda n: n.kind == 'stmt' and isinstance(n.ast, (ast.AugAssign, ast.Assign)) and
                              unparse(n.ast.target if isinstance(n.ast, ast.AugAssign) else n.ast.targets[0]) == cur)
                if fixed >= 1 and mov == 0 and adv == 0:
                    ok = True
            detail = f"no iteration path of the while loop emits a fixed residue without advancing the movable cursor '{cur}'"
        inner = [n for n in walk_no_nested(loop) if n is not loop and isinstance(n, (ast.While, ast.For))
                 and any(is_fixed_emit(type('N', (), {'kind': 'stmt', 'ast': st_})) for st_ in ast.walk(n) if isinstance(st_, ast.stmt) and _se20.own_stmt(st_))]
        if inner:
            ok = True
        if isinstance(loop, ast.For) and not inner:
            detail = 'the for loop consumes one movable element per iteration, so at most one fixed residue is emitted between two movable ones'
        chk.ob('C20.e', f"{nm}: consecutive fixed residues can be emitted in place", repo.loc(f, loop), ok,
               f"{nm}: {detail}: with adjacent fixed positions the second one is displaced and the decoy is no longer a rearrangement that keeps them",
               key=f.qual + '::consecutive-fixed', fn=f.qual)

    # ------------------------------------------------------------------ f
    chk.rule('C20.f', 'R-AFFINE-EQV: the tail fill appends exactly len(seq) - len(decoy) residues (decoy length == target length)', 2)
    for nm in ('reverse_sequence', 'shuffle_sequence'):
        f = repo.func(D + nm)
        SEQ, out_n, _perm = shape[nm]
        ok = False
        detail = 'tail fill `if len(decoy) < len(seq)` not found'
        fills = []
        if out_n is not None:
            A, N = Aff.sym(f"len({out_n})"), Aff.sym(f"len({SEQ})")
            ch20 = _se20.block_chains(f.node)
            for n in walk_no_nested(f.node):
                if isinstance(n, ast.If) and isinstance(n.test, ast.Compare) and len(n.test.ops) == 1 and not n.orelse:
                    l_ = simple_aff(_se20.expand_names(f.node, n, n.test.left, chains=ch20, allow_calls=('len',), keep=(SEQ, out_n)))
                    r_ = simple_aff(_se20.expand_names(f.node, n, n.test.comparators[0], chains=ch20, allow_calls=('len',), keep=(SEQ, out_n)))
                    if l_ is None or r_ is None:
                        continue
                    d_, op = l_ - r_, type(n.test.ops[0]).__name__
                    # len(OUT) < len(SEQ) in any affine spelling
                    if (op == 'Lt' and d_ == A - N) or (op == 'Gt' and d_ == N - A) or (op == 'LtE' and d_ == A - N + 1) or (op == 'GtE' and d_ == N - A - 1) \
                            or (op == 'NotEq' and d_ in (A - N, N - A)):
                        fills.append(n)
            if len(fills) == 1:
                body = fills[0].body
                sl = [x for st in body for x in ast.walk(st) if isinstance(x, ast.Subscript) and isinstance(x.slice, ast.Slice) and unparse(x.value) == SEQ]
                aug = [st for st in body if isinstance(st, ast.AugAssign) and unparse(st.target) == out_n and isinstance(st.op, ast.Add)] + \
                      [st for st in body if isinstance(st, ast.Expr) and call_name(st.value) == 'extend' and unparse(st.value.func.value) == out_n]
                if len(sl) == 1 and len(aug) == 1 and len(body) == 1 and sl[0].slice.upper is None and sl[0].slice.step is None and sl[0].slice.lower is not None:
                    lo = simple_aff(_se20.expand_names(f.node, aug[0], sl[0].slice.lower, chains=ch20, allow_calls=('len',), keep=(SEQ, out_n)))
                    # under the guard A < N:  seq[A - N:] (negative index) and seq[A:] both have N - A elements
                    ok = lo is not None and (lo == A - N or lo == A)
                    detail = f"the fill appends `{unparse(sl[0])}` whose lower bound is {lo}; only {A - N} (from the end) or {A} make its length len(seq) - len(decoy)"
                else:
                    detail = 'tail fill is not a single slice of the target appended to the decoy'
        if not fills and (out_n is None or not any(isinstance(x, ast.While) for g_ in _se20.with_new_helpers(repo, f) for x in ast.walk(g_.node))):
            chk.undecided('C20.f', f"{nm}: decoy length", f.where, 'the scan-then-fill construction (a while scan followed by `if len(decoy) < len(seq)`) is not present: the rearrangement is built another way',
                          key=f.qual + '::tail-fill', fn=f.qual)
            continue
        chk.ob('C20.f', f"{nm}: after the tail fill the decoy has len(seq) residues", repo.loc(f, fills[0]) if fills else f.where, ok,
               f"{nm}: {detail}: with duplicated or out-of-range fixed indices the count of list entries differs from the number of missing residues, so the decoy "
               "gains / loses residues and is no longer a rearrangement of the target", key=f.qual + '::tail-fill', fn=f.qual)
    # ------------------------------------------------------------------ shared: option plumbing by name
    from rules.shared import optname
    chk.clauses.append('C20.g (shared R-THREAD) an option value bound to a name that is itself a CLI option carries that very option')
    optname(chk, repo, 'C20.g', ['cli.decoy_fasta'], floor=0)
    from rules.shared import kwname
    chk.clauses.append('C20.kw (shared R-THREAD) parameters handed on as keyword arguments keep their name: no `a=b` between two parameters of one function')
    kwname(chk, repo, 'C20.kw', ['cli.decoy_fasta'], floor=0)
    from rules.shared import options_live
    fasta_title_rule(chk, repo, 'C20.i')
    chk.clauses.append('C20.h (shared R-OPTION) every option decoyFasta itself defines is read by its code: none silently falls back to a library default')
    options_live(chk, repo, 'C20.h', 'cli.decoy_fasta:add_subparser_decoy_fasta', 'cli.decoy_fasta:decoy_fasta', ('cli.decoy_fasta', 'cli.common'), floor=7)


def fasta_title_rule(chk, repo, rid):
    """R-KEYS (writer): DecoyFasta.write emits every record of iterate_target_decoy_database() with its DESCRIPTION as the FASTA
    title (targets keep their header verbatim, decoys carry the decoy string once): the writer is a FastaWriter whose record2title
    returns <record>.description (lambda or attrgetter), and every record goes through write_record.  Biopython's generic
    SeqIO.write(.., 'fasta') builds titles from id + description instead."""
    chk.rule(rid, 'R-KEYS: the FASTA title written for a target / decoy record is its description', 1)
    chk.clauses.append('C20.i decoyFasta writes each record with its description as the title (FastaWriter with record2title = description), every record of the requested order once')
    w = repo.func('cli.decoy_fasta:DecoyFasta.write')
    chk.uses(w)
    fw = [c for c in ast.walk(w.node) if isinstance(c, ast.Call) and call_name(c) == 'FastaWriter']
    ok = len(fw) == 1
    detail = f"{len(fw)} FastaWriter constructions in DecoyFasta.write"
    if ok:
        from sa import sem
        r2t = kwarg(fw[0], 'record2title')
        e = sem.expand_names(w.node, repo.enclosing_stmt(fw[0]), r2t) if r2t is not None else None
        if isinstance(e, ast.Name) and e.id in w.module.constants:
            e = w.module.constants[e.id]
        is_desc = (isinstance(e, ast.Lambda) and len(e.args.args) == 1 and unparse(e.body) == f"{e.args.args[0].arg}.description") or \
            (isinstance(e, ast.Call) and unparse(e.func) in ('operator.attrgetter', 'attrgetter') and [unparse(a) for a in e.args] == ["'description'"])
        # a lambda bound to a local is not expanded by expand_names: look the local up
        if not is_desc and isinstance(r2t, ast.Name):
            ds = [a.value for a in ast.walk(w.node) if isinstance(a, ast.Assign) and len(a.targets) == 1 and unparse(a.targets[0]) == r2t.id]
            is_desc = len(ds) == 1 and isinstance(ds[0], ast.Lambda) and len(ds[0].args.args) == 1 and unparse(ds[0].body) == f"{ds[0].args.args[0].arg}.description"
        wr = [c for c in ast.walk(w.node) if isinstance(c, ast.Call) and call_name(c) in ('write_record', 'write_file')]
        ok = is_desc and len(wr) >= 1
        detail = f"record2title = `{unparse(e) if e is not None else None}`, {len(wr)} write_record / write_file calls"
    chk.ob(rid, 'records are written through FastaWriter(record2title=description)', w.where, ok,
           f"{detail}: the header written for a record is not its description (Biopython's default title is `id description`; a decoy of a multi-word header "
           "gets the decoy string twice / in the wrong place)", key=w.qual + '::title', fn=w.qual)

"""C16 - parseRMATS.

a R-GUARD  every emission is dominated by its own read-count threshold (inclusion form <-> ijc, skipping form <-> sjc)
b          the 'nothing novel' early return conjoins ALL junctions of the event
c R-AFFINE-EQV deletion / substitution / RI intervals equal the definitional gene interval of their genomic interval on both strands
d R-ENUM   event type literals agree between CLI table, parser dispatch and constant.RMATS_TYPES
e          junction search loops visit the first exon (index 0) as well
"""
import ast
import re
from sa.model import unparse, norm_stmt, call_name, kwarg, walk_no_nested, AnalysisError, str_consts
from sa.cfg import CFG
from sa import guards as G
from sa.affine import Interp, Aff, Obj, model_g2gene, equal_mod

REC = {'SE': 'parser.RMATSParser.SERecord:SERecord', 'A5SS': 'parser.RMATSParser.A5SSRecord:A5SSRecord',
       'A3SS': 'parser.RMATSParser.A3SSRecord:A3SSRecord', 'MXE': 'parser.RMATSParser.MXERecord:MXERecord',
       'RI': 'parser.RMATSParser.RIRecord:RIRecord'}
# junction variable -> which read count supports that form (inclusion = ijc, skipping = sjc); frozen from reading the records
FORM = {'SE': {'skip_junction': 's', 'upstream_junction': 'i', 'downstream_junction': 'i'},
        'A5SS': {'long_junction': 'i', 'short_junction': 's'},
        'A3SS': {'long_junction': 'i', 'short_junction': 's'},
        'MXE': {'first_downstream_junction': 'i', 'second_upstream_junction': 's'}}
FORM_KEYS = {ev: list(d) for ev, d in FORM.items()}
SJ = 'seqvar.SplicingJunction:SpliceJunctionTranscriptAlignment.'


def canon(t):
    return {'gene_model.location.start': 'S', 'gene_model.location.end': 'E',
            'anno.genes[self.junction.gene_id].location.start': 'S', 'anno.genes[self.junction.gene_id].location.end': 'E'}.get(t, t)


def run(chk, repo):
    chk.clauses = [
        'C16.a every emitted record is dominated by the read-count test of its own form (inclusion: ijc_sample_1 vs min_ijc; skipping: sjc_sample_1 vs min_sjc)',
        'C16.b no record is suppressed as "already annotated" unless every junction of the event is annotated',
        'C16.c deletion / substitution (incl. donor) / retained-intron intervals are the definitional gene intervals of their genomic intervals on both strands; REF is read at start',
        'C16.d event-type literals agree (CLI table, parser dispatch, constant)',
        'C16.e exon searches for the spanning exon include exon 0',
        'C16.g no junction / alignment query is memoised under a key that omits an attribute its answer depends on',
    ]
    chk.not_decided = ['that the records reproduce the alternative isoform (exon adjacency logic of align_to_transcript / convert_to_variant_records)',
                       'insertion creators (branch by strand by design)']

    # ------------------------------------------------------------------ a, b
    chk.rule('C16.a', 'R-GUARD: emission dominated by own threshold', 11)
    chk.rule('C16.b', 'novelty early return conjoins all junctions', 4)
    for ev, cq in REC.items():
        f = repo.func(cq + '.convert_to_variant_records')
        chk.uses(f)
        cfg = CFG(f.node)
        if ev != 'RI':
            from sa import sem
            nf = sem.nf(repo, f)
            chains = sem.block_chains(nf)
            # junction names in the order of create_splice_junctions() (unpacked directly or via an intermediate tuple)
            jn_names = None
            for st in ast.walk(nf):
                if isinstance(st, ast.Assign) and isinstance(st.targets[0], ast.Tuple) and all(isinstance(e, ast.Name) for e in st.targets[0].elts):
                    v = sem.expand_names(nf, st, st.value, chains=chains, allow_calls=('align_to_transcript', 'create_splice_junctions'))
                    if isinstance(v, ast.Call) and call_name(v) == 'create_splice_junctions':
                        jn_names = [e.id for e in st.targets[0].elts]
                elif isinstance(st, ast.Assign) and isinstance(st.targets[0], ast.Name) and call_name(st.value) == 'create_splice_junctions' and jn_names is None:
                    jn_names = [st.targets[0].id]
            if jn_names is None or len(jn_names) != len(FORM[ev]):
                raise AnalysisError(f"anchor={cq}: junctions of create_splice_junctions() not found ({jn_names})")
            form_of = dict(zip(jn_names, FORM[ev].values()))          # positional: the tuple order is the interface of create_splice_junctions
            # emissions: statements that add aln.convert_to_variant_records(...) to the result
            emits = sem.facts_where(nf, lambda st: sem.own_stmt(st) and bool(sem.calls_in_stmt(st, 'convert_to_variant_records')))
            for st, fx in emits:
                c = sem.calls_in_stmt(st, 'convert_to_variant_records')[0]
                aln = sem.expand_names(nf, st, c.func.value, chains=chains, allow_calls=('align_to_transcript', 'create_splice_junctions'))
                jn = unparse(aln.func.value) if isinstance(aln, ast.Call) and call_name(aln) == 'align_to_transcript' else None
                x = form_of.get(jn)
                if x is None:
                    chk.undecided('C16.a', f"{ev}: emission '{unparse(st)[:60]}'", f.where, f"the junction that produced this emission was not recognised ({jn})",
                                  key=f"{cq}::threshold::{jn}", fn=f.qual)
                    continue
                lits = sem.sure_literals(fx)
                own = any(a in (f"min_{x}jc <= self.{x}jc_sample_1", f"min_{x}jc < self.{x}jc_sample_1") and p for a, p in lits)
                cross = sorted(a for a, p in lits if 'jc_sample_1' in a and 'min_' in a and not (f"min_{x}jc" in a and f"{x}jc_sample_1" in a))
                chk.ob('C16.a', f"{ev}: records of {jn} require {x}jc_sample_1 >= min_{x}jc", f.where, own and not cross,
                       f"emission for {jn} is guarded by { {a: p for a, p in lits if 'jc' in a} }; expected its own form's threshold ({x}jc)",
                       key=f"{cq}::threshold::{FORM_KEYS[ev][jn_names.index(jn)]}", fn=f.qual)
            # b: whenever ONE junction is novel the transcript loop is reached (no earlier return); the aggregate form
            #    `not any(j.is_novel(anno) for j in <all junctions>)` is recognised as such
            from sa.cfg import Facts as _Facts
            ncfg = CFG(nf)
            tl = [l for l in ast.walk(nf) if isinstance(l, ast.For) and unparse(l.iter).endswith('.transcripts')]
            if len(tl) != 1:
                raise AnalysisError(f"anchor={cq}: loop over the transcripts of the gene not found")
            head = ncfg.node_for(tl[0])
            ret_nodes = [n for n in ncfg.nodes if n.kind == 'stmt' and isinstance(n.ast, ast.Return)]

            def aggregate_over_all(test):
                for c in ast.walk(test):
                    if isinstance(c, ast.Call) and call_name(c) == 'any' and c.args and isinstance(c.args[0], (ast.GeneratorExp, ast.ListComp)):
                        g_ = c.args[0]
                        v_ = g_.generators[0].target
                        if isinstance(v_, ast.Name) and unparse(g_.elt) == f"{v_.id}.is_novel(anno)" and not g_.generators[0].ifs:
                            src = sem.expand_names(nf, tl[0], g_.generators[0].iter, chains=chains, allow_calls=('align_to_transcript', 'create_splice_junctions'))
                            t_ = unparse(src)
                            if t_ == 'self.create_splice_junctions()' or [x.strip() for x in t_.strip('()[]').split(',')] == jn_names:
                                return True
                            if isinstance(g_.generators[0].iter, ast.Name):
                                for n_ in ast.walk(nf):
                                    if isinstance(n_, ast.Assign) and unparse(n_.targets[0]) == g_.generators[0].iter.id and call_name(n_.value) == 'create_splice_junctions':
                                        return True
                return False
            bad_j = []
            # facts about the junctions only make sense after they are bound: start right after the binding statement
            asg = [n for n in ncfg.nodes if n.kind == 'stmt' and isinstance(n.ast, ast.Assign) and
                   {x.id for x in ast.walk(n.ast.targets[0]) if isinstance(x, ast.Name)} >= set(jn_names)]
            if len(asg) != 1 or len(ncfg.succ[asg[0].id]) < 1:
                raise AnalysisError(f"anchor={cq}: binding of the junctions not found")
            start_n = [y for (l_, y) in ncfg.succ[asg[0].id] if l_ == 'next'][0]
            for J in jn_names:
                init = _Facts().assume(ast.parse(f"{J}.is_novel(anno)", mode='eval').body, True)
                stt = ncfg.must_facts(start=start_n, init=init)
                for rn in ret_nodes:
                    if stt.get(rn.id) is not None and not ncfg.dominates(head, rn.id):
                        # an early return that is reachable although J is novel: accepted only for the aggregate test over ALL junctions
                        tests = [a for a in ast.walk(nf) if isinstance(a, ast.If) and any(x is rn.ast for x in ast.walk(a))]
                        if not any(aggregate_over_all(t_.test) for t_ in tests):
                            bad_j.append(J)
            early_exists = any(not ncfg.dominates(head, rn.id) for rn in ret_nodes)
            chk.ob('C16.b', f"{ev}: early return requires every junction {jn_names} to be annotated", f.where, not bad_j and early_exists,
                   f"an early return is reachable although {sorted(set(bad_j))} may be novel: an event with one novel junction is discarded"
                   if bad_j else "the 'nothing novel' early return was not found", key=f"{cq}::novelty-conjunction", fn=f.qual)
        else:
            def _ri_emission(a_):
                """statement that adds records to `variants`: variants.append(..) / .extend(..) / variants += [...]"""
                if isinstance(a_, ast.Expr) and isinstance(a_.value, ast.Call) and call_name(a_.value) in ('append', 'extend') \
                        and isinstance(a_.value.func, ast.Attribute) and unparse(a_.value.func.value) == 'variants':
                    return a_.value.args[0] if a_.value.args else None
                if isinstance(a_, ast.AugAssign) and isinstance(a_.op, ast.Add) and unparse(a_.target) == 'variants':
                    return a_.value
                return None
            for n in cfg.nodes:
                src_ = _ri_emission(n.ast) if n.kind == 'stmt' else None
                if src_ is not None:
                    fx = G.facts_at(cfg, n.id)
                    typ = None
                    # the collection of transcripts the records are made for: comprehension inside the statement, else the enclosing loop
                    comps = [c_ for c_ in ast.walk(src_) if isinstance(c_, (ast.ListComp, ast.GeneratorExp))]
                    if comps:
                        typ = unparse(comps[0].generators[0].iter)
                    else:
                        for a in repo.ancestors(n.ast):
                            if isinstance(a, ast.For):
                                typ = unparse(a.iter)
                                break
                    if typ not in ('spliced_in_ref', 'retained_in_ref'):
                        chk.undecided('C16.a', f"RI: emission '{unparse(n.ast)[:50]}'", repo.loc(f, n.ast), f"the transcripts this emission is made for were not recognised ({typ})",
                                      key=f"{cq}::threshold::{typ}", fn=f.qual)
                        continue
                    x = 'i' if typ == 'spliced_in_ref' else 's'
                    ok = fx.get(f"min_{x}jc <= self.{x}jc_sample_1") is True
                    other = 'retained_in_ref' if x == 'i' else 'spliced_in_ref'
                    ok = ok and fx.get(other) is False
                    chk.ob('C16.a', f"RI: records for {typ} require {x}jc_sample_1 >= min_{x}jc and no annotated {other}", repo.loc(f, n.ast), ok,
                           f"RI emission guarded by {fx}", key=f"{cq}::threshold::{typ}", fn=f.qual)

    # ------------------------------------------------------------------ c
    chk.rule('C16.c', 'R-AFFINE-EQV: record intervals are definitional gene intervals on both strands', 12)
    models = {'coordinate_genomic_to_gene': model_g2gene()}
    S, E = Aff.sym('S'), Aff.sym('E')

    def defn(gs, ge, s):
        return (gs - S, ge - S) if s == 1 else (E - ge, E - gs)
    for nm in ('create_upstream_deletion', 'create_downstream_deletion', 'create_upstream_substitution', 'create_downstream_substitution'):
        f = repo.func(SJ + nm)
        chk.uses(f)
        for s in (1, -1):
            it = Interp(s, call_models=models, canon=canon, record=('FeatureLocation',), max_paths=256)
            n_ok = n_all = 0
            detail = ''
            for p in it.run_function(f.node):
                if p.end != 'return':
                    continue
                locs = [l for l in p.locs if l['ctor'] == 'FeatureLocation']
                if len(locs) != 1:
                    continue
                n_all += 1
                st, en = locs[0]['kwargs'].get('start'), locs[0]['kwargs'].get('end')
                gs, ge = p.env.get('genomic_start'), p.env.get('genomic_end')
                w = defn(gs, ge, s)
                ok = st == w[0] and en == w[1]
                if 'substitution' in nm:
                    ds, de = p.env.get('donor_start'), p.env.get('donor_end')
                    gds, gde = p.env.get('genomic_donor_start'), p.env.get('genomic_donor_end')
                    wd = defn(gds, gde, s)
                    ok = ok and ds == wd[0] and de == wd[1]
                ref = p.env.get('ref')
                ok = ok and isinstance(ref, Obj) and ref.fields.get('__lo__') == st
                if ok:
                    n_ok += 1
                else:
                    detail = detail or f"path {[c for c, t in p.conds if t][:3]}: location [{st!r}, {en!r}) vs definitional [{w[0]!r}, {w[1]!r}), ref at {ref!r}"
            chk.paths += n_all
            chk.ob('C16.c', f"{nm} strand {s:+d}: {n_all} paths map [genomic_start, genomic_end) definitionally, REF at start", f.where, n_all > 0 and n_ok == n_all,
                   f"{nm} strand {s:+d}: {detail}", key=f"{f.qual}::interval::{s:+d}", fn=f.qual)
    ri = repo.func(REC['RI'] + '.convert_to_variant_records')
    for s in (1, -1):
        it = Interp(s, call_models=models, canon=canon, record=('FeatureLocation',), max_paths=512)
        paths = [p for p in it.run_function(ri.node) if p.end == 'return']
        gs, ge = Aff.sym('self.upstream_exon_end'), Aff.sym('self.downstream_exon_start')
        w = defn(gs, ge, s)
        okd = oki = False
        nd = ni = 0
        for p in paths:
            for l in p.locs:
                st, en = l['kwargs'].get('start'), l['kwargs'].get('end')
                if en == st + 1:          # insertion anchor: base before the intron in transcript orientation
                    ni += 1
                    oki = st == w[0] - 1
                else:
                    nd += 1
                    okd = st == w[0] and en == w[1]
        chk.ob('C16.c', f"RI strand {s:+d}: deletion interval = gene interval of the intron", ri.where, nd > 0 and okd,
               f"RI deletion interval on strand {s:+d} is not [{w[0]!r}, {w[1]!r})", key=f"{ri.qual}::deletion::{s:+d}", fn=ri.qual)
        chk.ob('C16.c', f"RI strand {s:+d}: insertion anchored at the base before the intron (start-1)", ri.where, ni > 0 and oki,
               f"RI insertion anchor on strand {s:+d} is not {w[0] - 1!r}", key=f"{ri.qual}::insertion::{s:+d}", fn=ri.qual)

    # ------------------------------------------------------------------ d
    chk.rule('C16.d', 'R-ENUM: rMATS event types agree', 3)
    types = set(ast.literal_eval(repo.const('constant', 'RMATS_TYPES')))
    cli = repo.func('cli.parse_rmats:parse_rmats')
    tbl = None
    for n in walk_no_nested(cli.node):
        if isinstance(n, ast.Assign) and unparse(n.targets[0]) == 'rmats_outputs':
            tbl = [e.elts[0].value for e in n.value.elts]
    chk.ob('C16.d', 'CLI table lists exactly constant.RMATS_TYPES', cli.where, tbl is not None and set(tbl) == types and len(tbl) == len(types),
           f"CLI {tbl} vs {sorted(types)}", key=cli.qual + '::types', fn=cli.qual)
    pm = repo.func('parser.RMATSParser:parse')
    # E9: what parse() yields per line when event_type is each of the types (if-chain, lookup table or match alike)
    from sa.peval import PEval as _PE, repo_consts as _rc, show as _psh
    disp = {}
    for ty in sorted(types):
        try:
            outs = _PE(resolve_const=_rc(repo, pm.module), split_unknown=True).run(pm.node, {'event_type': ty})
        except (ValueError, OverflowError) as e:
            chk.undecided('C16.d', 'parser dispatch', pm.where, f"parse cannot be evaluated for event_type={ty!r}: {e}")
            disp = None
            break
        ys = set()
        for o in outs:
            if '<loop not entered>' in o.assumed:
                continue
            ys.add(tuple(_psh(ef[1]) for ef in o.effects if ef[0] == 'yield'))
        disp[ty] = sorted(ys)
    ok = disp is not None and set(disp) == types and all(len(v) == 1 and len(v[0]) == 1 and re.fullmatch(re.escape(k) + r'Record\.readline\(<item of [^<>]+>\)', v[0][0])
                                                      for k, v in disp.items())
    chk.uses(cli, pm)
    chk.ob('C16.d', 'parser dispatch covers every type with its own record class', pm.where, ok, f"dispatch {disp}", key=pm.qual + '::dispatch', fn=pm.qual)
    call = G.find_calls(cli.node, 'convert_to_variant_records')
    ok = len(call) == 1 and unparse(kwarg(call[0], 'min_ijc')) == 'args.min_ijc' and unparse(kwarg(call[0], 'min_sjc')) == 'args.min_sjc'
    chk.ob('C16.d', 'thresholds threaded by name from the CLI', cli.where, ok, 'min_ijc / min_sjc swapped or dropped', key=cli.qual + '::thresholds', fn=cli.qual)

    # ------------------------------------------------------------------ e
    chk.rule('C16.e', 'backward exon searches include index 0; forward searches include the last exon', 2)
    for nm in ('get_upstream_end_spanning', 'get_downstream_start_spanning'):
        f = repo.functions.get(SJ + nm)
        if f is None:
            continue
        chk.uses(f)
        for fr in [n for n in walk_no_nested(f.node) if isinstance(n, ast.For) and isinstance(n.iter, ast.Call) and call_name(n.iter) == 'range']:
            a = fr.iter.args
            back = len(a) == 3 and unparse(a[2]) in ('-1',)
            if back:
                ok = unparse(a[1]) == '-1'
                chk.ob('C16.e', f"{nm}: backward search runs down to exon 0 ('{unparse(fr.iter)}')", repo.loc(f, fr), ok,
                       f"the backward search '{unparse(fr.iter)}' stops before exon 0 (range excludes its stop value {unparse(a[1])}): an alternative site inside the "
                       "first exon is never matched and a wrong record kind is emitted", key=f"{f.qual}::backward-bound", fn=f.qual)
            else:
                stop = unparse(a[1] if len(a) >= 2 else a[0])
                ok = stop.startswith('len(') and (len(a) < 3 or unparse(a[2]) == '1')
                chk.ob('C16.e', f"{nm}: forward search runs up to the last exon ('{unparse(fr.iter)}')", repo.loc(f, fr), ok,
                       f"forward search bound '{unparse(fr.iter)}'", key=f"{f.qual}::forward-bound", fn=f.qual)
        for w in [n for n in walk_no_nested(f.node) if isinstance(n, ast.While)]:
            t = unparse(w.test).replace(' ', '')
            dec = any(isinstance(x, ast.AugAssign) and isinstance(x.op, ast.Sub) for x in ast.walk(w))
            if dec:
                ok = t in ('i>=0', '0<=i', 'i>-1')
                chk.ob('C16.e', f"{nm}: backward search runs down to exon 0 ('{unparse(w.test)}')", repo.loc(f, w), ok,
                       f"the backward search stops before exon 0 ('{unparse(w.test)}'): an alternative site inside the first exon is never matched "
                       "and a wrong record kind is emitted", key=f"{f.qual}::backward-bound", fn=f.qual)
            else:
                ok = 'len(' in t and ('<len' in t)
                chk.ob('C16.e', f"{nm}: forward search runs up to the last exon ('{unparse(w.test)}')", repo.loc(f, w), ok,
                       f"forward search bound '{unparse(w.test)}'", key=f"{f.qual}::forward-bound", fn=f.qual)

    # ------------------------------------------------------------------ f
    chk.rule('C16.f', 'has_junction visits every consecutive exon pair', 1)
    hj = repo.func('gtf.TranscriptAnnotationModel:TranscriptAnnotationModel.has_junction')
    chk.uses(hj)
    lp = [l for l in walk_no_nested(hj.node) if isinstance(l, ast.For)]
    ok = False
    detail = 'loop not found'
    if len(lp) == 1:
        it = unparse(lp[0].iter)
        body = unparse(lp[0])
        idiom_enum = it == 'enumerate(self.exon)' and 'if exon1 is self.exon[-1]:\n        break' in body and 'exon2 = self.exon[i + 1]' in body
        idiom_zip = it in ('zip(self.exon[:-1], self.exon[1:])', 'zip(self.exon, self.exon[1:])')
        idiom_range = it == 'range(len(self.exon) - 1)'
        ok = idiom_enum or idiom_zip or idiom_range
        detail = f"loop over '{it}'"
    chk.ob('C16.f', 'pair loop is one of the complete idioms (enumerate+last-break / zip(e[:-1], e[1:]) / range(len-1))', hj.where, ok,
           f"{detail}: not a recognised complete pair iteration - the last intron can be skipped, so an annotated junction looks novel and records are emitted for annotated forms",
           key=hj.qual + '::all-pairs', fn=hj.qual)

    # ------------------------------------------------------------------ g
    chk.rule('C16.g', 'R-MEMO: memoised junction / alignment queries key on everything the answer depends on', 10)
    import textwrap
    ctl = ast.parse(textwrap.dedent("""
        def is_novel(self, anno):
            cache = anno.__dict__.setdefault('_c', {})
            key = (self.chrom, self.upstream_end)
            if key in cache:
                return cache[key]
            cache[key] = anno.genes[self.gene_id].has(self.upstream_end)
            return cache[key]
    """)).body[0]
    gaps = G.memo_key_gaps(ctl)
    if not gaps or gaps[0][2] != ['self.gene_id']:
        raise AnalysisError('R-MEMO positive control did not fire')
    for f_ in repo.funcs_in('seqvar.SplicingJunction', 'parser.RMATSParser'):
        chk.uses(f_)
        gaps = [g_ for g_ in G.memo_key_gaps(f_.node) if g_[2]]
        chk.ob('C16.g', f"{f_.qual}: no memo, or the memo key covers every attribute the result reads", f_.where, not gaps,
               '; '.join(f"{repo.loc(f_, g_[0])}: memo key {g_[1]} omits {g_[2]}" for g_ in gaps) +
               ': the first caller decides the answer for every later caller that differs only in the omitted attribute (e.g. the same junction coordinates '
               'asked for two overlapping genes), so records are emitted for annotated forms or suppressed for novel ones depending on event order',
               key=f"{f_.qual}::memo-key", fn=f_.qual)
    # ------------------------------------------------------------------ shared: option plumbing by name
    from rules.shared import optname
    chk.clauses.append('C16.h (shared R-THREAD) an option value bound to a name that is itself a CLI option carries that very option')
    optname(chk, repo, 'C16.h', ['cli.parse_rmats'], floor=0)
    # ------------------------------------------------------------------ i: interjacent exons ascending; RI scans every exon
    from sa import sem as _sem16
    chk.rule('C16.i', 'R-ORDER / R-COVER: interjacent exon indices are returned in ascending order whatever the scan direction; the retained-intron test visits every exon', 2)
    chk.clauses.append('C16.i get_interjacent_exons returns ascending exon indices (consumers read [0] / [-1] as first / last in genomic order) and '
                       'RIRecord tests EVERY exon of a transcript for containing the retained intron (also the last one)')
    gi = repo.func(SJ + 'get_interjacent_exons')
    chk.uses(gi)
    ngi = _sem16.nf(repo, gi)
    bad_sort = [unparse(c) for c in ast.walk(ngi) if isinstance(c, ast.Call) and call_name(c) in ('sorted', 'sort') and kwarg(c, 'reverse') is not None
                and not (isinstance(kwarg(c, 'reverse'), ast.Constant) and kwarg(c, 'reverse').value is False)]
    revs = _sem16.facts_where(ngi, lambda st: _sem16.own_stmt(st) and (any(True for c in _sem16.calls_in_stmt(st, 'reversed')) or any(True for c in _sem16.calls_in_stmt(st, 'reverse'))))
    ok = not bad_sort and bool(revs) and all(_sem16.known(fx, 'is_reversed') is True for _st, fx in revs)
    if not ok and not bad_sort:
        # the same thing as a value: what is returned is REV(x) exactly when the scan ran backwards (x[::-1], list(reversed(x)), conditional expression)
        class _Rev(ast.NodeTransformer):
            def visit_Subscript(self, n):
                self.generic_visit(n)
                if isinstance(n.slice, ast.Slice) and n.slice.lower is None and n.slice.upper is None and n.slice.step is not None and unparse(n.slice.step) == '-1':
                    return ast.Call(func=ast.Name(id='REV', ctx=ast.Load()), args=[n.value], keywords=[])
                return n

            def visit_Call(self, n):
                self.generic_visit(n)
                if call_name(n) == 'list' and len(n.args) == 1 and isinstance(n.args[0], ast.Call) and call_name(n.args[0]) == 'reversed':
                    return ast.Call(func=ast.Name(id='REV', ctx=ast.Load()), args=n.args[0].args, keywords=[])
                if call_name(n) == 'reversed' and isinstance(n.func, ast.Name):
                    return ast.Call(func=ast.Name(id='REV', ctx=ast.Load()), args=n.args, keywords=[])
                return n
        rets_ = [r for r in ast.walk(ngi) if isinstance(r, ast.Return) and r.value is not None]
        if len(rets_) == 2:
            # `if is_reversed: return REV(x)` / `return x`
            rf = {id(st): fx for st, fx in _sem16.facts_where(ngi, lambda st: isinstance(st, ast.Return))}
            kinds = []
            for r in rets_:
                t_ = unparse(_Rev().visit(ast.fix_missing_locations(ast.parse(unparse(r.value), mode='eval').body)))
                k_ = _sem16.known(rf.get(id(r)), 'is_reversed')
                kinds.append((bool(re.match(r'^REV\(\w+\)$', t_)), bool(re.match(r'^\w+$', t_)), k_))
            ok = sorted((a, b, c) for a, b, c in kinds) == [(False, True, False), (True, False, True)]
        if len(rets_) == 1:
            rv = rets_[0].value
            if isinstance(rv, ast.Name):
                lp_ = [x for x in ngi.body if isinstance(x, ast.For)]
                tail = ngi.body[ngi.body.index(lp_[-1]) + 1:] if lp_ else []
                dv = _sem16.decision_value(ngi, tail, rv.id, prior=ast.Name(id=rv.id, ctx=ast.Load()))
                rv = dv if dv is not None else rv
            t_ = unparse(_Rev().visit(ast.fix_missing_locations(rv)))
            m_ = re.match(r'^REV\((\w+)\) if is_reversed else (\w+)$', t_) or re.match(r'^(\w+) if not is_reversed else REV\((\w+)\)$', t_)
            ok = bool(m_) and m_.group(1) == m_.group(2)
    chk.ob('C16.i', 'interjacent exons collected by the backward scan are reversed back to ascending order (and only then)', gi.where, ok,
           f"order of the returned exon indices depends on the scan direction ({bad_sort or 'reversal not tied to is_reversed'}): create_*_deletion / substitution read "
           "interjacent[0] and interjacent[-1] the wrong way round when more than one exon lies in the intron", key=gi.qual + '::ascending', fn=gi.qual)
    ri = repo.func(REC['RI'] + '.convert_to_variant_records')
    chk.uses(ri)
    for lst in ('retained_in_ref', 'spliced_in_ref'):
        sites = [n for n in ast.walk(ri.node) if isinstance(n, ast.Call) and call_name(n) == 'append' and unparse(n.func.value) == lst]
        okc = bool(sites)
        detail = f"{lst}.append not found"
        for c in sites:
            lp = next((a for a in repo.ancestors(c) if isinstance(a, (ast.For, ast.While))), None)
            if lp is None:
                okc, detail = False, 'not inside an exon loop'
            elif isinstance(lp, ast.For):
                it = unparse(lp.iter)
                full = re.fullmatch(r'(enumerate\()?(model|tx_model|anno\.transcripts\[\w+\])\.exon\)?', it) is not None
                if not full and lst == 'retained_in_ref':
                    okc, detail = False, f"the loop iterates '{it}', which does not visit every exon of the transcript"
            else:
                drv = unparse(lp.test)
                src = [unparse(a.value) for a in ast.walk(ri.node) if isinstance(a, ast.Assign) and unparse(a.targets[0]) == 'it']
                if not (drv in ('exon', 'exon is not None') and any(re.fullmatch(r'iter\((model|tx_model)\.exon\)', s_) for s_ in src)):
                    okc, detail = False, f"while-loop '{drv}' is not driven by an iterator over all exons"
        if lst == 'retained_in_ref':
            chk.ob('C16.i', 'RI: every exon of the transcript is tested for retaining the intron', ri.where, okc,
                   f"{detail}: a transcript whose LAST exon retains the intron is not recognised as retaining (an Insertion is emitted although an annotated isoform has that form)",
                   key=ri.qual + '::retained-cover', fn=ri.qual)
    # C16.l: every transcript of the gene is classified (spliced / retained): the loop that fills the two lists is never abandoned
    from rules.shared import loop_own_exits
    chk.rule('C16.l', 'R-DRAIN: the classification of the gene\'s transcripts (spliced_in_ref / retained_in_ref) visits every transcript', 1)
    chk.clauses.append('C16.l RI: the loop over the transcripts of the gene that fills spliced_in_ref / retained_in_ref has no break / return of its own: an annotated isoform listed after the first match is still seen')
    tloops = [l for l in ast.walk(ri.node) if isinstance(l, ast.For) and any(isinstance(c, ast.Call) and call_name(c) == 'append' and unparse(c.func.value) in ('retained_in_ref', 'spliced_in_ref')
                                                                        for c in ast.walk(l))]
    tloops = [l for l in tloops if not any(l2 is not l and any(x is l for x in ast.walk(l2)) for l2 in tloops)]       # outermost such loop
    if len(tloops) != 1:
        chk.undecided('C16.l', 'RI: transcript classification loop', ri.where, f"{len(tloops)} loops filling spliced_in_ref / retained_in_ref found", key=ri.qual + '::classify-all', fn=ri.qual)
    else:
        ex_ = loop_own_exits(tloops[0])
        chk.ob('C16.l', 'RI: no break / return leaves the loop over the transcripts of the gene', repo.loc(ri, ex_[0]) if ex_ else repo.loc(ri, tloops[0]), not ex_,
               f"the loop `for {unparse(tloops[0].target)} in {unparse(tloops[0].iter)}` is left at {[repo.loc(ri, x) for x in ex_]}: transcripts after the first match are never classified, "
               "so a form that an annotated isoform already has is emitted as a variant", key=ri.qual + '::classify-all', fn=ri.qual)
    from rules.shared import kwname
    chk.clauses.append('C16.kw (shared R-THREAD) parameters handed on as keyword arguments keep their name: no `a=b` between two parameters of one function')
    kwname(chk, repo, 'C16.kw', ['parser.RMATSParser', 'cli.parse_rmats'], floor=0)
    from rules.shared import truthy_numeric
    chk.clauses.append('C16.j (shared R-TRUTHY) no numeric parameter (reading frame, index, offset: 0 is a value) is tested by truthiness instead of `is None`')
    truthy_numeric(chk, repo, 'C16.j', ['seqvar', 'parser'])
    from rules.shared import no_index_wrap
    chk.clauses.append('C16.k (R-GUARD) the exon in front of an aligned exon (`exon[i - 1]`) is read only where i > 0 is known: index -1 would silently take the last exon of the transcript')
    no_index_wrap(chk, repo, 'C16.k', ['seqvar.SplicingJunction', 'parser.RMATSParser'], floor=3)



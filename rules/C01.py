"""C01 - callVariant completeness: three narrow necessary clauses (completeness itself NOT decided).

a R-THREAD every cleavage-site call of the peptide graph passes rule AND exception of the same CleavageParams
b R-KEYS   the _with_range API needs both tables: same key sets
c R-ENUM   every literal compared with a variant `.type` is a member of the type table; no str == list comparisons
d          the miscleavage count ignores pop-collapsed boundaries (collapse knobs must not change the result)
"""
import ast
from sa.model import unparse, norm_stmt, call_name, kwarg, walk_no_nested, AnalysisError, str_consts
from sa import guards as G

SITE_FUNCS = ('find_first_cleave_or_stop_site', 'find_first_cleave_or_stop_site_with_range', 'find_all_cleave_and_stop_sites_with_range',
              'find_all_cleave_and_stop_sites', 'find_all_enzymatic_cleave_sites', 'find_all_enzymatic_cleave_sites_with_ranges',
              'find_first_enzymatic_cleave_site', 'iter_enzymatic_cleave_sites', 'iter_enzymatic_cleave_sites_with_range')


def split_node_flags(chk, repo, rid):
    """shared (C01.f, C02.i)"""
    chk.rule(rid, 'split_node: end-of-node flags move to the right half (transferred and cleared on the left)', 2)
    sn = repo.func('svgraph.PVGNode:PVGNode.split_node')
    chk.uses(sn)
    ctor = [c for c in G.find_calls(sn.node, 'PVGNode')]
    for flag in ('truncated', 'cpop_collapsed'):
        passed = bool(ctor) and kwarg(ctor[0], flag) is not None and unparse(kwarg(ctor[0], flag)) == f"self.{flag}"
        from sa.cfg import CFG as _CFG
        scfg = _CFG(sn.node)
        # on every path to the return, self.<flag> is assigned after the constructor (cleared, or set by the pop-collapse branch)
        bad = None
        for pth in scfg.paths(scfg.entry, max_paths=20000):
            if pth.end_kind() != 'return':
                continue
            ids = [i for i, n_ in enumerate(pth.nodes()) if n_.kind == 'stmt' and any(x is ctor[0] for x in ast.walk(n_.ast))]
            assigns = [i for i, n_ in enumerate(pth.nodes()) if n_.kind == 'stmt' and isinstance(n_.ast, ast.Assign) and unparse(n_.ast.targets[0]) == f"self.{flag}"]
            if not ids or not any(a > ids[0] for a in assigns):
                bad = bad or pth
        chk.ob(rid, f"split_node: right half inherits {flag}; left half's {flag} is re-assigned on every path", sn.where, passed and bad is None,
               f"after split_node the left half keeps {flag} of the unsplit node: the flag describes the END of the node "
               "(e.g. a truncated 3' end), so every upstream piece would wrongly carry it and its peptides are never called", key=sn.qual + f'::{flag}', fn=sn.qual)



def _is_list_local(fn, name):
    """every binding of `name` in fn is a list / tuple display (and there is at least one)"""
    vals = [a.value for a in ast.walk(fn) if isinstance(a, ast.Assign) and any(isinstance(t, ast.Name) and t.id == name for t in a.targets)]
    others = [a for a in ast.walk(fn) if isinstance(a, (ast.AugAssign, ast.AnnAssign, ast.For, ast.NamedExpr)) and any(isinstance(t, ast.Name) and t.id == name and isinstance(t.ctx, ast.Store) for t in ast.walk(a))]
    return bool(vals) and not others and all(isinstance(v, (ast.List, ast.Tuple)) for v in vals)


def run(chk, repo):
    chk.clauses = [
        'C01.a every cleavage-site computation in the peptide graph uses rule and exception of the same cleavage parameters',
        'C01.b every enzyme has both a site pattern and a range pattern',
        'C01.c literals compared with a variant type are members of the variant-type table; no dead str==list dispatch',
        'C01.d the miscleavage count and the series-recording test both ignore c-terminally pop-collapsed nodes',
        'C01.g when a node is split / truncated at index X, every variant with end > X is carried by the right part and every variant with start < X by the left part',
        'C01.h the on-the-fly canonical pool (load_references) is digested with the parameters of the run (resolved exception)',
    ]
    chk.not_decided = ['that every haplotype is enumerated (bubble alignment, codon fitting, cleavage-graph construction, traversal)',
                       'boundary conditions of the variant cursor in create_variant_graph']

    # ------------------------------------------------------------------ a
    chk.rule('C01.a', 'R-THREAD: site calls pass enzyme and exception of the same params object', 7)
    n = 0
    for f in repo.funcs_in('svgraph'):
        for c in G.find_calls(f.node, nested=False):
            nm = call_name(c)
            if nm not in SITE_FUNCS and nm != 'get_enzymatic_cleave_exception_sites':
                continue
            n += 1
            chk.call_sites += 1
            if nm == 'get_enzymatic_cleave_exception_sites':
                a = c.args[0] if c.args else kwarg(c, 'exception')
                ok = a is not None and unparse(a).endswith('cleavage_params.exception')
                chk.ob('C01.a', f"{f.name}: {nm}({unparse(a) if a is not None else ''})", repo.loc(f, c), ok,
                       'exception sites are not computed from cleavage_params.exception', key=f"{f.qual}::{nm}", fn=f.qual)
                continue
            r, e = kwarg(c, 'rule'), kwarg(c, 'exception')
            if r is None and c.args:
                r = c.args[0]
            if e is None and len(c.args) > 1:
                e = c.args[1]
            tr, te = unparse(r) if r is not None else None, unparse(e) if e is not None else None
            ok = tr is not None and te is not None and tr.endswith('.enzyme') and te.endswith('.exception') and tr[:-len('.enzyme')] == te[:-len('.exception')]
            chk.ob('C01.a', f"{f.name}: {nm}(rule={tr}, exception={te})", repo.loc(f, c), ok,
                   f"{nm} is called with rule={tr}, exception={te}: this stage would cut at different sites than the other stages "
                   "(nodes no longer cleavage-aligned; peptides spanning the site are lost)", key=f"{f.qual}::{nm}::{c.lineno - f.node.lineno}", fn=f.qual)
    chk.extra['site_calls'] = n

    # ------------------------------------------------------------------ b
    chk.rule('C01.b', 'R-KEYS: site and range tables have the same enzymes', 1)
    R1 = ast.literal_eval(repo.const('aa.expasy_rules', 'EXPASY_RULES'))
    R2 = ast.literal_eval(repo.const('aa.expasy_rules', 'EXPASY_RULES2'))
    chk.ob('C01.b', f"{len(R1)} enzymes in both tables", 'moPepGen/aa/expasy_rules.py:1', set(R1) == set(R2),
           f"only in EXPASY_RULES {sorted(set(R1) - set(R2))}; only in EXPASY_RULES2 {sorted(set(R2) - set(R1))} (KeyError in the cleavage graph for that enzyme)",
           key='aa.expasy_rules::keys')

    # ------------------------------------------------------------------ c
    chk.rule('C01.c', 'R-ENUM: variant-type literals are table members', 25)
    types = set(ast.literal_eval(repo.const('seqvar.VariantRecord', '_VARIANT_TYPES')))
    nlit = 0
    for f in repo.funcs_in('svgraph', 'seqvar', 'cli.call_variant_peptide', 'gtf'):
        for cmp_ in [x for x in ast.walk(f.node) if isinstance(x, ast.Compare) and len(x.ops) == 1]:
            lt = unparse(cmp_.left)
            if not (lt.endswith('.type') and ('variant' in lt or lt in ('self.type', 'record.type', 'x.type', 'v.type', 'tx_record.type', 'var.type'))):
                continue
            if lt in ('record.type',) and f.module.modname.startswith('gtf'):
                continue
            rhs = cmp_.comparators[0]
            op = cmp_.ops[0]
            if isinstance(op, (ast.Eq, ast.NotEq)):
                if isinstance(rhs, ast.Constant) and isinstance(rhs.value, str):
                    nlit += 1
                    chk.ob('C01.c', f"{f.qual}: {unparse(cmp_)}", repo.loc(f, cmp_), rhs.value in types,
                           f"'{rhs.value}' is not a variant type {sorted(types)}: this dispatch branch can never be taken",
                           key=f"{f.qual}::type-literal::{rhs.value}", fn=f.qual)
                elif isinstance(rhs, (ast.List, ast.Tuple)) or (isinstance(rhs, ast.Name) and _is_list_local(f.node, rhs.id)):
                    # reviewed exception (same construct, whatever the spelling of the list): the comparison is always False in
                    # the reference as well and the only caller, call_peptide_circ_rna, has already removed these types with
                    # VariantRecordPool.filter_variants(exclude_type=...)
                    reviewed = f.qual == 'svgraph.ThreeFrameCVG:ThreeFrameCVG.create_variant_circ_graph'
                    chk.ob('C01.c', f"{f.qual}: {unparse(cmp_)}", repo.loc(f, cmp_), reviewed,
                           'a variant type (str) is compared with a list by == (always False: the exclusion never happens)', key=f"{f.qual}::type-eq-list", fn=f.qual)
                elif isinstance(rhs, ast.Name):
                    # parameter annotated as a list?
                    ann = None
                    for a in f.node.args.args + f.node.args.kwonlyargs:
                        if a.arg == rhs.id and a.annotation is not None:
                            ann = unparse(a.annotation)
                    if ann and ann.startswith('List'):
                        chk.note(f"{f.qual}: '{unparse(cmp_)}' compares a type string with a list parameter (always False; callers pre-filter) at {repo.loc(f, cmp_)}")
            elif isinstance(op, (ast.In, ast.NotIn)) and isinstance(rhs, (ast.List, ast.Tuple, ast.Set)):
                for e in rhs.elts:
                    if isinstance(e, ast.Constant) and isinstance(e.value, str):
                        nlit += 1
                        chk.ob('C01.c', f"{f.qual}: {lt} in [...'{e.value}'...]", repo.loc(f, cmp_), e.value in types,
                               f"'{e.value}' is not a variant type", key=f"{f.qual}::type-literal::{e.value}", fn=f.qual)
    # exclude_type style lists
    for f in repo.funcs_in('svgraph', 'cli.call_variant_peptide'):
        for a in [x for x in walk_no_nested(f.node) if isinstance(x, ast.Assign) and isinstance(x.value, ast.List)]:
            tn = unparse(a.targets[0])
            if 'exclu' in tn and 'type' in tn:
                for v in str_consts(a.value):
                    nlit += 1
                    chk.ob('C01.c', f"{f.qual}: {tn} contains '{v}'", repo.loc(f, a), v in types, f"'{v}' is not a variant type",
                           key=f"{f.qual}::exclude-literal::{v}", fn=f.qual)
    for cn in ('ALTERNATIVE_SPLICING_TYPES', 'SINGLE_NUCLEOTIDE_SUBSTITUTION'):
        vals = ast.literal_eval(repo.const('constant', cn))
        extra = [v for v in vals if v not in types and v != 'SNP']
        chk.ob('C01.c', f"constant.{cn} members are variant types", 'moPepGen/constant.py:1', not extra, f"{extra} not in the type table", key=f"constant::{cn}")
    chk.extra['type_literals'] = nlit

    # ------------------------------------------------------------------ d
    chk.rule('C01.d', 'miscleavage count and series recording ignore c-pop-collapsed boundaries', 2)
    fm = repo.func('svgraph.VariantPeptideDict:VariantPeptideDict.find_miscleaved_nodes')
    chk.uses(fm)
    from sa import sem
    nf = sem.nf(repo, fm)
    # the quantity compared with cleavage_params.miscleavage is derived from a count that filters on cpop_collapsed
    cmpn = [n for n in ast.walk(nf) if isinstance(n, ast.Compare) and 'cleavage_params.miscleavage' in unparse(n)]
    srcs = ' ; '.join(unparse(n) + ' <- ' + ' , '.join(sem.defining_text(nf, x.id) for x in ast.walk(n) if isinstance(x, ast.Name)) for n in cmpn)
    ok = bool(cmpn) and all('cpop_collapsed' in (unparse(n) + ' '.join(sem.defining_text(nf, x.id) for x in ast.walk(n) if isinstance(x, ast.Name))) for n in cmpn)
    chk.ob('C01.d', 'the cleavage count compared with the miscleavage limit is computed over non-c-pop-collapsed nodes', fm.where, ok,
           f"miscleavage tests: {srcs[:300]}: a pop-collapse boundary (not a cleavage site) consumes an allowed miscleavage, so "
           "peptides crossing a pop-collapsed node are dropped and the result depends on the collapse knobs", key=fm.qual + '::n_cleavages', fn=fm.qual)
    loops = sem.loops_where(nf, lambda t: t.endswith('.out_nodes'))
    if len(loops) != 1 or sem.target_name(loops[0]) is None:
        raise AnalysisError(f"anchor={fm.qual}: loop over the out nodes not found")
    X = sem.target_name(loops[0])
    rec = sem.facts_in_iteration(nf, loops[0], lambda st: sem.own_stmt(st) and any(unparse(c.func.value).endswith('.data') for c in sem.calls_in_stmt(st, 'append')))
    ok = bool(rec) and all(sem.known(fx, f'not {X}.cpop_collapsed') is True for _st, fx in rec)
    chk.ob('C01.d', 'a series is recorded only at a real cleavage boundary (not after a c-pop-collapsed node)', fm.where, ok,
           'series recording no longer tests cpop_collapsed', key=fm.qual + '::record-guard', fn=fm.qual)

    # ------------------------------------------------------------------ e, f
    from rules.C03 import sec_variant_filter
    sec_variant_filter(chk, repo, 'C01.e')
    split_node_flags(chk, repo, 'C01.f')

    # ------------------------------------------------------------------ g
    from sa.cfg import CFG as _CFG2
    chk.rule('C01.g', 'R-COVER: node split / truncation distributes every overlapping variant to each part', 10)
    for q, x in (('svgraph.PVGNode:PVGNode.split_node', 'index'), ('svgraph.PVGNode:PVGNode.truncate_left', 'i'),
                 ('svgraph.PVGNode:PVGNode.truncate_right', 'i'), ('svgraph.TVGNode:TVGNode.truncate_left', 'i'),
                 ('svgraph.TVGNode:TVGNode.truncate_right', 'i')):
        fn = repo.func(q)
        chk.uses(fn)
        if x not in fn.params():
            raise AnalysisError(f"anchor={q}: cut-index parameter '{x}' not found")
        loops = G.find_for(fn.node, 'self.variants')
        if len(loops) != 1:
            raise AnalysisError(f"anchor={q}: `for ... in self.variants` not found")
        v = unparse(loops[0].target)
        c = _CFG2(fn.node)
        for side, formula in (('right', f"{v}.location.end > {x}"), ('left', f"{v}.location.start < {x}")):
            def is_app(st, side=side):
                return isinstance(st, ast.Expr) and isinstance(st.value, ast.Call) and unparse(st.value.func) == f"{side}_variants.append"
            n, nsites, wit = G.iter_covers(c, loops[0], formula, is_app)
            chk.paths += n
            # the list must also be the one that ends up in the corresponding part
            chk.ob('C01.g', f"{fn.name}: every variant with `{formula}` is appended to {side}_variants ({n} iteration paths, {nsites} append sites)",
                   repo.loc(fn, loops[0]), nsites > 0 and not wit,
                   f"a variant with `{formula}` can pass the loop without being appended to {side}_variants"
                   + (f" (path: {'; '.join(wit[0].describe(fn.module.relpath)[:6])})" if wit else '')
                   + f": the {side} part of the node loses a variant that overlaps it, so peptides of that part are labelled without it or dropped as canonical",
                   key=f"{q}::cover::{side}", fn=fn.qual)

    # ------------------------------------------------------------------ h
    from rules.C10 import rule_thread
    rule_thread(chk, repo, 'C01.h', quals=('cli.common:load_references',))
    from rules.shared import pointers_append_only
    chk.clauses.append('C01.i (shared) records of a transcript are gathered from EVERY GVF file: the pointer table only grows')
    pointers_append_only(chk, repo, 'C01.i')
    from rules.C07 import pool_copy_before_write
    chk.rule('C01.j', '(shared with C07.c) the donor series of a fusion is copied before it is truncated: later units still see every variant', 2)
    chk.clauses.append('C01.j the wrapper truncates the donor variant series for one fusion on a COPY: circRNAs and later fusions of the transcript keep the downstream variants')
    pool_copy_before_write(chk, repo, 'C01.j')
    from rules.shared import kwname
    chk.clauses.append('C01.kw (shared R-THREAD) parameters handed on as keyword arguments keep their name: no `a=b` between two parameters of one function')
    kwname(chk, repo, 'C01.kw', ['svgraph', 'cli.call_variant_peptide'], floor=0)
    chk.clauses.append('C01.l the only variants create_variant_graph drops without applying start strictly in front of a cursor node - exactly the positions apply_variant rejects')
    skip_guard_contract(chk, repo, 'C01.l')
    from rules.C06 import rule_drain
    chk.clauses.append('C01.m (shared with C06.a) every gathered transcript is dispatched: the batch loop flushes on every path of its last iteration, so no transcript\'s peptides are dropped with --threads > 1')
    rule_drain(chk, repo, 'C01.m')
    chk.clauses.append('C01.n the scan that merges adjacent variants into MNVs passes over co-located / overlapping variants and stops only strictly behind the first variant')
    mnv_scan(chk, repo, 'C01.n')
    from rules.shared import reanchor_algebra
    chk.clauses.append('C01.o a variant that is re-anchored (to_end_inclusion, shift_deletion_up) is rebuilt with the nucleotide at the boundary of its new location (index computed from the old location, or equivalently from the new one)')
    reanchor_algebra(chk, repo, 'C01.o')
    from rules.shared import slice_keeps_own_fields
    chk.clauses.append('C01.p a slice of a sequence record with coordinates keeps every field of its own constructor (orf, selenocysteine; locations recomputed): transcript prefixes built for fusions keep their Sec positions')
    slice_keeps_own_fields(chk, repo, 'C01.p')
    from rules.shared import truthy_numeric
    chk.clauses.append('C01.q (shared R-TRUTHY) no numeric parameter / attribute of the peptide graph nodes (cleavage pattern positions, indices: 0 is a value) is tested by truthiness where the reference tests `is None`')
    truthy_numeric(chk, repo, 'C01.q', ['svgraph.PVGNode', 'svgraph.PeptideVariantGraph'])
    from rules.C10 import rule_cleave
    chk.clauses.append('C01.r (shared with C10.e / C04.h / C05.l) the canonical pool that variant peptides are filtered against holds exactly the digestion products of the proteome: the Met-removed form only for the N-terminal window')
    rule_cleave(chk, repo, rid='C01.r')
    from rules.shared import w2f_scan_complete
    chk.clauses.append('C01.s (shared with C08.i / C09.j) the W>F candidate scan covers every tryptophan of a variant peptide, the first and the last residue included')
    w2f_scan_complete(chk, repo, 'C01.s')
    from rules.C05 import met_allowance_rule
    chk.clauses.append('C01.t (shared with C05.h) the allowance for a leading Met in the length gates of a miscleaved series equals the residues removed from the emitted Met-cleaved form, read from the FIRST node: the Met-cleaved form of a max_length + 1 peptide is still reported')
    met_allowance_rule(chk, repo, 'C01.t')


def skip_guard_contract(chk, repo, rid):
    """R-CONTRACT (belief contradiction): create_variant_graph drops a variant that lies in front of the cursors before it ever
    reaches apply_variant.  apply_variant states which positions it handles: it raises for `variant_start < source_start` and has
    a dedicated branch for `variant_start == source_start`.  The caller's drop condition must be that very rejection bound; a
    drop condition that also covers equality discards variants the callee explicitly handles (adjacent / same-position variants)."""
    from sa import sem
    import re as _re
    chk.rule(rid, 'R-CONTRACT: the variant-in-front-of-the-cursor skip in create_variant_graph equals the lower rejection bound of apply_variant', 2)
    cv = repo.func('svgraph.ThreeFrameTVG:ThreeFrameTVG.create_variant_graph')
    av = repo.func('svgraph.ThreeFrameTVG:ThreeFrameTVG.apply_variant')
    chk.uses(cv, av)
    NODE_START = r'\w+\.seq\.locations\[0\]\.ref\.start'

    def norm(t):
        return _re.sub(NODE_START, 'NODE.start', t)
    # callee: literals under which it raises, about the variant start and the start of the node it is applied to
    nav = av.node            # the repository-level form: one `if ...: raise` per statement, tests not merged into decision regions
    chv = sem.block_chains(nav)
    callee = set()
    for tst, own, fx in sem.facts_at_tests(nav, lambda e: True):
        if own is None or not any(isinstance(x, ast.Raise) for x in own.body):
            continue
        e = sem.expand_names(nav, own, tst, chains=chv)
        for d in (e.values if isinstance(e, ast.BoolOp) and isinstance(e.op, ast.Or) else [e]):
            l_ = sem.lit(unparse(d))
            t = norm(l_[0])
            if 'variant.location.start' in t and 'NODE.start' in t and 'source' in unparse(d):
                callee.add((t, l_[1]))
    has_eq = any(norm(sem.lit(unparse(sem.expand_names(nav, own, tst, chains=chv)))[0]) in ('NODE.start == variant.location.start', 'variant.location.start == NODE.start')
                 for tst, own, fx in sem.facts_at_tests(nav, lambda e: True) if own is not None)
    chk.ob(rid, 'apply_variant rejects exactly variant_start < source_start and handles variant_start == source_start', av.where,
           callee == {('variant.location.start < NODE.start', True)} and has_eq,
           f"apply_variant's lower rejection bound is {sorted(callee)} (equality branch present: {has_eq})", key=av.qual + '::lower-bound', fn=av.qual)
    # caller: the `continue` that advances to the next variant without applying this one
    ncv = sem.nf(repo, cv)
    drops = []
    for tst, own, fx in sem.facts_at_tests(ncv, lambda e: True):
        if own is None or not isinstance(own, ast.If) or not any(isinstance(x, ast.Continue) for x in own.body):
            continue
        if not any(isinstance(x, ast.Assign) and isinstance(x.value, ast.Call) and call_name(x.value) == 'next' for x in own.body):
            continue
        for c in ast.walk(tst):
            if isinstance(c, ast.Compare) and len(c.ops) == 1:
                l_ = sem.lit(unparse(c))
                t = norm(l_[0])
                if 'variant.location.start' in t and 'NODE.start' in t:
                    # the comparison sits inside any(...) over the cursors: the variant is dropped when it holds for some cursor
                    drops.append((t, l_[1]))
    ok = drops == [('variant.location.start < NODE.start', True)]
    chk.ob(rid, 'a variant is dropped without being applied only when it starts strictly in front of a cursor', cv.where, ok,
           f"create_variant_graph drops the variant when {drops} for some cursor, but apply_variant handles every variant_start >= source_start (it has a dedicated "
           "branch for equality): variants that start exactly at a node boundary (adjacent variants, second allele of a site, merged MNVs) never enter the graph",
           key=cv.qual + '::skip-guard', fn=cv.qual)


def mnv_scan(chk, repo, rid):
    """R-NEAREST: find_mnvs_from_adjacent_variants scans the sorted variants for those that start exactly where v_0 ends.
    Candidates in front of that position (same site, overlapping) must be passed over, and the scan may only be abandoned for
    a candidate strictly behind it - otherwise a co-located variant hides the adjacent one and the merged MNV (a haplotype the
    property counts) is never created."""
    from sa import sem
    chk.rule(rid, 'R-NEAREST: the adjacent-variant scan stops only strictly past the end of the first variant and skips what lies before it', 2)
    f = repo.func('seqvar.VariantRecord:find_mnvs_from_adjacent_variants')
    chk.uses(f)
    nf = f.node          # statement-level form (the canonical form merges the skip tests into one decision region)
    # the scan: the innermost loop with an early exit, over range(..) (candidate = variants[j]) or over a slice of the variants
    # (directly or through enumerate: candidate = the loop variable)
    loops_ = [l for l in ast.walk(nf) if isinstance(l, ast.For) and any(isinstance(x, ast.Break) for x in ast.walk(l))
              and not any(isinstance(m, ast.For) and m is not l for m in ast.walk(l))]
    if len(loops_) != 1:
        chk.undecided(rid, 'adjacent-variant scan', f.where, f"{len(loops_)} innermost scans with an early exit found", key=f.qual + '::scan', fn=f.qual)
        return
    lp = loops_[0]
    inside = {id(x) for x in ast.walk(lp)}
    ch = sem.block_chains(nf)

    def lits_at(pred):
        out = []
        for st, fx in sem.facts_where(nf, pred):
            if id(st) in inside and fx is not None:
                ls = set()
                for t, v in sem.sure_literals(fx):
                    e = ast.parse(t, mode='eval').body
                    ls.add(sem.lit(unparse(sem.expand_names(nf, st, e, chains=ch)), v))
                out.append((st, ls))
        return out
    # the candidate: variants[<loop index>];  the anchor: the variant of the outer enumeration
    outer = [l for l in ast.walk(nf) if isinstance(l, ast.For) and isinstance(l.iter, ast.Call) and call_name(l.iter) == 'enumerate' and l is not lp
             and any(x is lp for x in ast.walk(l))]
    v0 = outer[0].target.elts[1].id if outer and isinstance(outer[0].target, ast.Tuple) and len(outer[0].target.elts) == 2 else 'v_0'
    seqn = unparse(outer[0].iter.args[0]) if outer else 'variants'
    it_ = lp.iter
    cand = None
    if isinstance(it_, ast.Call) and call_name(it_) == 'range' and isinstance(lp.target, ast.Name):
        cand = f'{seqn}[{lp.target.id}]'
    elif isinstance(it_, ast.Call) and call_name(it_) == 'enumerate' and it_.args and isinstance(it_.args[0], ast.Subscript) and unparse(it_.args[0].value) == seqn \
            and isinstance(lp.target, ast.Tuple) and len(lp.target.elts) == 2 and isinstance(lp.target.elts[1], ast.Name):
        cand = lp.target.elts[1].id
    elif isinstance(it_, ast.Subscript) and unparse(it_.value) == seqn and isinstance(lp.target, ast.Name):
        cand = lp.target.id
    if cand is None:
        chk.undecided(rid, 'adjacent-variant scan', repo.loc(f, lp), f"the candidate of the scan `for {unparse(lp.target)} in {unparse(lp.iter)[:60]}` was not recognised",
                      key=f.qual + '::scan', fn=f.qual)
        return
    past = sem.lit(f'{cand}.location.start > {v0}.location.end')
    before = sem.lit(f'{cand}.location.start < {v0}.location.end')
    brks = lits_at(lambda st: isinstance(st, ast.Break))
    ok_b = bool(brks) and all(past in ls for _st, ls in brks)
    chk.ob(rid, 'the scan is abandoned only for a candidate that starts strictly behind the end of the first variant', repo.loc(f, lp), ok_b,
           f"the scan breaks under {[sorted(l_ for l_ in ls if 'location' in l_[0]) for _st, ls in brks]}: a candidate that starts in front of `{v0}.location.end` (same site, overlap) "
           'ends the search, so the variant adjacent to it is never merged', key=f.qual + '::stop', fn=f.qual)
    conts = lits_at(lambda st: isinstance(st, ast.Continue))
    ok_c = any(before in ls for _st, ls in conts)
    chk.ob(rid, 'candidates in front of the end of the first variant are passed over', repo.loc(f, lp), ok_c,
           'no `continue` for candidates that start before the end of the first variant', key=f.qual + '::skip', fn=f.qual)

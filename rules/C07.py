"""C07 - --skip-failed isolates failures; without it failures abort.

a R-DEFUSE  no name bound only in a per-unit try body is read after the try on a path
            through the fall-through (skip) handler
b R-HANDLER every skip_failed-discriminating handler re-raises whenever skip_failed is not
            true, and on the skip path records the failure (flag slot / tally counter)
c R-COMMIT  commit-last inside per-unit try bodies; shared inputs never written; copy-before-write
d R-ONCE    flag slot <-> unit <-> tally counter agree; failures not swallowed elsewhere
"""
import ast
import re
from sa.model import unparse, norm_stmt, call_name, walk_no_nested, AnalysisError
from sa.cfg import CFG, literal
from sa import guards as G

WRAPPER = 'cli.call_variant_peptide:call_variant_peptides_wrapper'
DRIVER = 'cli.call_variant_peptide:call_variant_peptide'
GATHER = 'cli.call_variant_peptide:VariantPeptideCaller.gather_data_for_call_variant'
REDUCER = 'cli.call_variant_peptide:caller_reducer'
UNIT_CALLERS = {'call_peptide_main': (0, 'variant'), 'call_peptide_fusion': (1, 'fusion'),
                'call_peptide_circ_rna': (2, 'circRNA')}
PARSER_CLIS = ['cli.parse_vep:parse_vep', 'cli.parse_star_fusion:parse_star_fusion',
               'cli.parse_arriba:parse_arriba', 'cli.parse_fusion_catcher:parse_fusion_catcher']
SHARED_INPUTS = {'pool', 'reference_data', 'tx_seqs', 'gene_seqs', 'cleavage_params', 'variant_series'}


def stores_of(node):
    out = set()
    for n in walk_no_nested(node):
        if isinstance(n, ast.Name) and isinstance(n.ctx, ast.Store):
            out.add(n.id)
    return out


def node_reads(n):
    """Names loaded by a cfg node (its own expression only, not nested blocks)."""
    a = n.ast
    if n.kind == 'test':
        return G.reads_in(a)
    if n.kind == 'iter':
        return G.reads_in(a.iter)
    if n.kind == 'handler':
        return set()
    if isinstance(a, (ast.Try, ast.FunctionDef, ast.ClassDef)):
        return set()
    if isinstance(a, ast.With):
        r = set()
        for i in a.items:
            r |= G.reads_in(i.context_expr)
        return r
    r = set()
    for x in walk_no_nested(a):
        if isinstance(x, ast.Name) and isinstance(x.ctx, ast.Load):
            r.add(x.id)
    if isinstance(a, ast.AugAssign) and isinstance(a.target, ast.Name):
        r.add(a.target.id)
    return r


def node_binds(n):
    a = n.ast
    if n.kind == 'iter':
        return stores_of(a.target)
    if n.kind == 'handler':
        return {a.name} if a.name else set()
    if n.kind != 'stmt' or isinstance(a, (ast.Try, ast.FunctionDef, ast.ClassDef)):
        return set()
    if isinstance(a, ast.With):
        out = set()
        for i in a.items:
            if i.optional_vars is not None:
                out |= stores_of(i.optional_vars)
        return out
    return stores_of(a)


def defuse(chk, repo, f, rid):
    """R-DEFUSE over every try of function f."""
    fn = f.node
    cfg = CFG(fn)
    rel = f.module.relpath
    tries = [n for n in walk_no_nested(fn) if isinstance(n, ast.Try)]
    # names assigned outside every try body (pre-initialised / committed values)
    in_try_body = set()
    for t in tries:
        for st in t.body:
            for n in ast.walk(st):
                in_try_body.add(id(n))
    outside = set(f.params())
    for n in walk_no_nested(fn):
        if isinstance(n, ast.Name) and isinstance(n.ctx, ast.Store) and id(n) not in in_try_body:
            outside.add(n.id)
    for t in tries:
        bound = set()
        for st in t.body:
            bound |= stores_of(st)
        only_try = bound - outside
        for h in t.handlers:
            hid = cfg.node_for(h)
            # forward may-analysis: stale names reaching a read
            start = frozenset(only_try)
            seen = set()
            stack = [(hid, start, [(hid, 'next', -1)])]
            bad = None
            while stack and bad is None:
                nid, stale, trail = stack.pop()
                if (nid, stale) in seen or not stale:
                    continue
                seen.add((nid, stale))
                node = cfg.nodes[nid]
                if nid != hid:
                    r = node_reads(node) & stale
                    if r:
                        bad = (node, sorted(r), trail)
                        break
                binds = node_binds(node)
                for (l, y) in cfg.succ[nid]:
                    if y in (cfg.exit, cfg.raise_exit):
                        continue
                    s2 = stale if l == 'exc' else frozenset(stale - binds)
                    stack.append((y, s2, trail + [(y, l, -1)]))
            units = [call_name(c) for st in t.body for c in G.find_calls(st) if call_name(c) in UNIT_CALLERS]
            inst = f"try@{norm_stmt(t.body[0])[:50]} handler '{norm_stmt(h)}' names={sorted(only_try)}"
            key = f"{f.qual}::try[{','.join(units) or norm_stmt(t.body[0])[:40]}]::{norm_stmt(h)}::stale-read"
            if bad:
                node, names, trail = bad
                chk.ob(rid, inst, f"{rel}:{node.line}", False,
                       f"after a caught failure, '{norm_stmt(node.ast)[:80]}' reads {names}, bound only inside the try body: "
                       "unbound on the first unit (UnboundLocalError aborts the run despite --skip-failed) or stale from the "
                       "previous unit (its results re-registered under the failing unit)",
                       key=key, path=[f"{rel}:{cfg.nodes[x].line}: {cfg.nodes[x].text()[:80]} [{l}]" for (x, l, _) in trail], fn=f.qual)
            else:
                chk.ob(rid, inst, repo.loc(f, h), True, fn=f.qual)


def skip_handlers(fn):
    """(try, handler) pairs whose handler body discriminates on skip_failed."""
    out = []
    for t in walk_no_nested(fn):
        if isinstance(t, ast.Try):
            for h in t.handlers:
                if any('skip_failed' in unparse(n) for st in h.body for n in ast.walk(st) if isinstance(n, (ast.Name, ast.Attribute))):
                    out.append((t, h))
    return out


def is_skip_atom(e):
    return unparse(e) in ('skip_failed', 'args.skip_failed', 'self.args.skip_failed')


def check_handler(chk, repo, f, t, h, rid, expect_slot=None):
    """Every path through handler h on which skip_failed is not known true ends in raise;
    the skip path bumps a counter / flag and leaves or falls through."""
    cfg = CFG(f.node)
    rel = f.module.relpath
    hid = cfg.node_for(h)
    handler_nodes = set()
    for st in h.body:
        for n in ast.walk(st):
            for i in cfg.nodes_for(n):
                handler_nodes.add(i)

    def stop(src, label, dst):
        return dst not in handler_nodes
    paths = cfg.paths(hid, stop=stop, max_paths=5000)
    chk.paths += len(paths)
    key = f"{f.qual}::{norm_stmt(h)}"
    ok_raise, ok_record = True, True
    badp = None
    for p in paths:
        skip_true = False
        for (nid, l, _y) in p.steps:
            if cfg.nodes[nid].kind == 'test' and l in ('T', 'F'):
                atom, pol = literal(cfg.nodes[nid].ast)
                if atom in ('skip_failed', 'args.skip_failed', 'self.args.skip_failed') and (pol if l == 'T' else not pol):
                    skip_true = True
        ends_raise = p.end_kind() == 'raise' or isinstance(cfg.nodes[p.steps[-1][0]].ast, ast.Raise)
        if not skip_true and not ends_raise:
            ok_raise = False
            badp = badp or p
        if skip_true:
            if ends_raise:
                continue
            recorded = False
            for n in p.nodes():
                a = n.ast
                if isinstance(a, ast.AugAssign) and isinstance(a.op, ast.Add) and 'tally' in unparse(a.target):
                    recorded = True
                if isinstance(a, ast.Assign) and unparse(a.targets[0]) == 'success_flags' and isinstance(a.value, ast.Tuple):
                    elts = a.value.elts
                    falses = [i for i, e in enumerate(elts) if isinstance(e, ast.Constant) and e.value is False]
                    keeps = [i for i, e in enumerate(elts) if unparse(e) == f"success_flags[{i}]"]
                    if len(falses) == 1 and len(falses) + len(keeps) == 3 and (expect_slot is None or falses[0] == expect_slot):
                        recorded = True
                slot_ = None
                if isinstance(a, ast.Assign) and len(a.targets) == 1 and isinstance(a.targets[0], ast.Subscript):
                    sl_ = a.targets[0].slice
                    if isinstance(sl_, ast.Constant):
                        slot_ = sl_.value
                    elif isinstance(sl_, ast.Name):
                        # a named slot: `a, b, c = range(3)` / `= (0, 1, 2)` / `b = 1` (single assignment) in this function
                        for x in ast.walk(f.node):
                            if isinstance(x, ast.Assign) and len(x.targets) == 1 and isinstance(x.targets[0], ast.Tuple) and all(isinstance(t_, ast.Name) for t_ in x.targets[0].elts):
                                names_ = [t_.id for t_ in x.targets[0].elts]
                                if sl_.id in names_:
                                    if isinstance(x.value, ast.Call) and unparse(x.value.func) == 'range' and len(x.value.args) == 1 and isinstance(x.value.args[0], ast.Constant) \
                                            and x.value.args[0].value == len(names_):
                                        slot_ = names_.index(sl_.id)
                                    elif isinstance(x.value, ast.Tuple) and len(x.value.elts) == len(names_) and isinstance(x.value.elts[names_.index(sl_.id)], ast.Constant):
                                        slot_ = x.value.elts[names_.index(sl_.id)].value
                            elif isinstance(x, ast.Assign) and len(x.targets) == 1 and isinstance(x.targets[0], ast.Name) and x.targets[0].id == sl_.id and isinstance(x.value, ast.Constant):
                                slot_ = x.value.value
                        if sum(1 for x in ast.walk(f.node) if isinstance(x, ast.Name) and x.id == sl_.id and isinstance(x.ctx, ast.Store)) != 1:
                            slot_ = None
                if isinstance(a, ast.Assign) and len(a.targets) == 1 and isinstance(a.targets[0], ast.Subscript) and isinstance(a.value, ast.Constant) \
                        and a.value.value is False and slot_ is not None and isinstance(a.targets[0].value, ast.Name):
                    # the flags are kept in a list mutated by index (`flags[k] = False`) and returned as / converted to the tuple
                    if expect_slot is None or slot_ == expect_slot:
                        fl_ = a.targets[0].value.id
                        inits_ = [x for x in ast.walk(f.node) if isinstance(x, (ast.Assign, ast.AnnAssign)) and unparse(x.targets[0] if isinstance(x, ast.Assign) else x.target) == fl_
                                  and isinstance(x.value, (ast.List, ast.Tuple)) and len(x.value.elts) == 3]
                        if inits_ and any(isinstance(r_, ast.Return) and r_.value is not None and fl_ in {n_.id for n_ in ast.walk(r_.value) if isinstance(n_, ast.Name)} for r_ in ast.walk(f.node)):
                            recorded = True
                if isinstance(a, ast.Assign) and len(a.targets) == 1 and isinstance(a.targets[0], ast.Name) and isinstance(a.value, ast.Constant) \
                        and a.value.value is False:
                    # separate success locals assembled into the flags tuple later: the name must sit at the unit's slot
                    nm_ = a.targets[0].id
                    for tup in [x for x in ast.walk(f.node) if isinstance(x, ast.Tuple) and len(x.elts) == 3 and all(isinstance(e, ast.Name) for e in x.elts)]:
                        idx_ = [i for i, e in enumerate(tup.elts) if e.id == nm_]
                        if idx_ and (expect_slot is None or idx_[0] == expect_slot):
                            recorded = True
            if not recorded:
                ok_record = False
                badp = badp or p
    chk.ob(rid, f"handler '{norm_stmt(h)}' re-raises unless skip_failed", repo.loc(f, h), ok_raise,
           "a path through the handler on which skip_failed is not true does not re-raise: the failure is swallowed "
           "without --skip-failed", key=key + '::reraise', path=badp.describe(rel) if badp and not ok_raise else None, fn=f.qual)
    chk.ob(rid, f"handler '{norm_stmt(h)}' records the skipped failure", repo.loc(f, h), ok_record,
           "the skip path does not set its success flag slot / tally counter (failure not reported)" +
           (f" (expected slot {expect_slot})" if expect_slot is not None else ''),
           key=key + '::record', path=badp.describe(rel) if badp and ok_raise else None, fn=f.qual)


def pool_copy_before_write(chk, repo, rid):
    """shared (C07.c, C01.j): the per-fusion pool of the wrapper is a copy, and the donor series is copied before it is truncated.
    Names are discovered: P = locals bound to copy.copy(pool)."""
    from sa import sem
    w = repo.func(WRAPPER)
    chk.uses(w)
    nw = sem.nf(repo, w)
    chains = sem.block_chains(nw)
    P = {unparse(a.targets[0]) for a in ast.walk(nw) if isinstance(a, ast.Assign) and len(a.targets) == 1 and isinstance(a.targets[0], ast.Name)
         and unparse(a.value) == 'copy.copy(pool)'}
    n = 0
    for st in [x for x in ast.walk(nw) if isinstance(x, (ast.Assign, ast.AugAssign))]:
        tg = st.targets[0] if isinstance(st, ast.Assign) else st.target
        base = tg
        while isinstance(base, (ast.Attribute, ast.Subscript)):
            base = base.value
        if not isinstance(base, ast.Name) or base.id not in (P | {'pool'}) or tg is base:
            continue
        n += 1
        tgt = unparse(tg)
        if base.id == 'pool':
            chk.ob(rid, f"copy-before-write: {norm_stmt(st)[:60]}", w.where, False,
                   f"'{norm_stmt(st)}' writes into the shared variant pool of the transcript (visible to later units / retries)",
                   key=f"{WRAPPER}::copy-before-write::{tgt}", fn=w.qual)
            continue
        if isinstance(tg, ast.Subscript) and isinstance(tg.value, ast.Name):
            ok = isinstance(st, ast.Assign) and unparse(st.value).startswith('copy.copy(')
            detail = f"'{norm_stmt(st)}' stores a shared series into the pool copy without copying it"
        else:
            # attribute write on P[k].x: P[k] must have been re-bound to a copy before (nearest store of P[k] is a copy.copy)
            sub = tg
            while isinstance(sub, ast.Attribute):
                sub = sub.value
            prev = sem.nearest_store(nw, st, unparse(sub), chains)
            ok = prev is not None and unparse(prev).startswith('copy.copy(')
            detail = f"'{norm_stmt(st)}' writes through the shared series (no `{unparse(sub)} = copy.copy(...)` before it): the truncation of the donor series " \
                     "for one fusion is seen by every later unit of the transcript"
        chk.ob(rid, f"copy-before-write: {norm_stmt(st)[:60]}", w.where, ok, detail,
               key=f"{WRAPPER}::copy-before-write::{re.sub(r'^' + re.escape(base.id), 'variant_pool', tgt)}", fn=w.qual)
    chk.ob(rid, 'the per-fusion pool is a copy of the transcript pool', w.where, bool(P) and n >= 1,
           f"no local bound to copy.copy(pool) is written ({sorted(P)}, {n} writes)", key=f"{WRAPPER}::copy-before-write::pool-copy", fn=w.qual)


def run(chk, repo):
    chk.clauses = [
        'C07.a no name bound only in a per-unit try body is read after a caught failure (definite assignment)',
        'C07.b every skip_failed handler re-raises unless skip_failed and records the failure on the skip path',
        'C07.c per-unit try bodies commit last; shared inputs are never written; copy-before-write on the fusion pool',
        'C07.d flag slot <-> unit <-> tally counter agree; no other handler swallows unit failures',
    ]
    chk.not_decided = ['output equality with the run lacking the failing unit (needs execution)',
                       'which exceptions the graph code can raise']
    w = repo.func(WRAPPER)
    d = repo.func(DRIVER)
    g = repo.func(GATHER)
    r = repo.func(REDUCER)
    chk.uses(w, d, g, r)

    # ---- a
    chk.rule('C07.a', 'R-DEFUSE: names bound only in a try body are not read after a fall-through handler', 3)
    defuse(chk, repo, w, 'C07.a')
    defuse(chk, repo, g, 'C07.a')

    # ---- b
    chk.rule('C07.b', 'R-HANDLER: discriminating handlers re-raise unless skip_failed and record the skip', 14)
    hs = skip_handlers(w.node)
    if len(hs) < 3:
        raise AnalysisError(f"anchor={WRAPPER}: expected 3 skip_failed handlers, found {len(hs)}")
    unit_slots = {}
    for (t, h) in hs:
        units = [call_name(c) for st in t.body for c in G.find_calls(st) if call_name(c) in UNIT_CALLERS]
        slot = UNIT_CALLERS[units[0]][0] if len(units) == 1 else None
        if slot is None:
            chk.ob('C07.b', 'try body contains exactly one per-unit caller', repo.loc(w, t), False,
                   f"try body calls {units}", key=f"{WRAPPER}::try-units::{units}", fn=w.qual)
            continue
        unit_slots[units[0]] = slot
        check_handler(chk, repo, w, t, h, 'C07.b', expect_slot=slot)
        # the isolation handler must see EVERY failure of the unit: it is a catch-all and no typed handler in front of it escapes
        catch_all = h.type is None or unparse(h.type) in ('Exception', 'BaseException')
        chk.ob('C07.b', f"{units[0]}: the skip_failed handler is a catch-all", repo.loc(w, h), catch_all,
               f"the skip_failed handler only catches {unparse(h.type) if h.type is not None else ''}: other failures of the unit abort the run despite --skip-failed",
               key=f"{WRAPPER}::{units[0]}::catch-all", fn=w.qual)
        for h2 in t.handlers:
            if h2 is h:
                break
            escapes = any(isinstance(n, ast.Raise) for st in h2.body for n in ast.walk(st)) and (t, h2) not in hs
            chk.ob('C07.b', f"{units[0]}: handler '{norm_stmt(h2)}' in front of the isolation handler does not escape it", repo.loc(w, h2), not escapes,
                   f"'{norm_stmt(h2)}' raises without consulting skip_failed: that class of failure (e.g. a time-out that cannot be cured by the "
                   "complexity-reduction retry) leaves the per-unit isolation and aborts the whole run although --skip-failed was given",
                   key=f"{WRAPPER}::{units[0]}::escape::{norm_stmt(h2)}", fn=w.qual)
    # what the loop feeding a per-unit try evaluates PER ITEM runs while the `for` fetches its next element, i.e. outside the try:
    # a generator (function or expression) that computes something for each unit moves that part of the unit out of the isolation
    for (t, h) in hs:
        loop = next((a for a in repo.ancestors(t) if isinstance(a, (ast.For, ast.While, ast.FunctionDef))), None)
        if not isinstance(loop, ast.For) or t not in loop.body:
            continue
        lazy = []
        for sub in ast.walk(loop.iter):
            if isinstance(sub, ast.GeneratorExp):
                lazy += [(f"generator expression calling {call_name(c)}()", None) for c in G.find_calls(sub.elt) if call_name(c) not in ('tuple', 'list', 'len', 'str', 'int')]
            if isinstance(sub, ast.Call):
                nm = call_name(sub).split('.')[-1]
                if nm in ('map', 'starmap') and sub.args and not isinstance(sub.args[0], ast.Constant):
                    lazy.append((f"lazy {nm}({unparse(sub.args[0])}, ...)", None))
                for fi in repo.functions.values():
                    if fi.node.name == nm and any(isinstance(y, (ast.Yield, ast.YieldFrom)) for y in walk_no_nested(fi.node)) \
                            and any(isinstance(c, ast.Call) for c in walk_no_nested(fi.node)):
                        lazy.append((f"generator {fi.qual}", fi))
        # the same after the normaliser has inlined a helper generator: per-unit work of the package standing next to the try in the loop body
        repo_names = {fi.node.name for fi in repo.functions.values()}
        for st in loop.body:
            if st is t:
                continue
            for c in G.find_calls(st):
                nm = call_name(c).split('.')[-1]
                if nm in repo_names and not call_name(c).startswith(('logger.', 'logging.')):
                    lazy.append((f"`{unparse(c)[:60]}` at line {c.lineno} (beside the try, in the loop body)", None))
        for _, fi in lazy:
            if fi is not None:
                chk.uses(fi)
        chk.ob('C07.b', f"loop feeding the per-unit try at line {t.lineno}: nothing is computed per unit while the next item is fetched", repo.loc(w, loop), not lazy,
               f"`for ... in {unparse(loop.iter)[:80]}` draws its items from {', '.join(d for d, _ in lazy)}: what that computes for a unit runs when the loop fetches the item, "
               "outside the try - a failure there is not caught by the skip_failed handler, aborts the run despite --skip-failed and loses the other units",
               key=f"{WRAPPER}::lazy-feed::{[call_name(c) for st in t.body for c in G.find_calls(st) if call_name(c) in UNIT_CALLERS]}", fn=w.qual)
    for u in UNIT_CALLERS:
        chk.ob('C07.b', f"unit caller {u} is wrapped by a skip_failed try", w.where, u in unit_slots,
               f"{u} is not called inside a per-unit try with a skip_failed handler", key=f"{WRAPPER}::unwrapped::{u}", fn=w.qual)
    for (t, h) in skip_handlers(g.node):
        check_handler(chk, repo, g, t, h, 'C07.b')
    for q in PARSER_CLIS:
        pf = repo.func(q)
        chk.uses(pf)
        for (t, h) in skip_handlers(pf.node):
            check_handler(chk, repo, pf, t, h, 'C07.b')

    # ---- c
    chk.rule('C07.c', 'R-COMMIT: commit-last in per-unit try bodies; shared inputs never written', 8)
    commit_targets = {'dgraphs', 'pgraphs', 'main_peptides', 'peptide_anno'}
    helper = None
    for n in walk_no_nested(w.node):
        if isinstance(n, ast.FunctionDef) and n is not w.node and n.name == 'add_peptide_anno':
            helper = n
    helper_pure = helper is not None and all(call_name(c) in ('setdefault', 'items', 'values', 'keys')
                                             for c in G.find_calls(helper))
    chk.ob('C07.c', 'commit helper add_peptide_anno performs dict operations only', repo.loc(w, helper) if helper else w.where,
           helper_pure, 'add_peptide_anno contains fallible calls; commit is no longer atomic w.r.t. failures',
           key=f"{WRAPPER}::add_peptide_anno::pure", fn=w.qual)

    def is_commit(st):
        ws = G.writes_in([st])
        if isinstance(st, ast.Expr) and isinstance(st.value, ast.Call) and call_name(st.value) == 'add_peptide_anno':
            return True
        return bool(ws) and all(wr[0] in commit_targets for wr in ws)

    def flat(stmts):
        for st in stmts:
            if isinstance(st, ast.If):
                yield from flat(st.body)
                yield from flat(st.orelse)
            else:
                yield st
    PURE_REG = ('add_peptide_anno', 'set', 'keys', 'list', 'str', 'tuple', 'dict', 'copy')

    def registration_only(st):
        """a statement that cannot fail in a way that depends on the unit: plain (re)bindings, stores into the result
        containers and the pure commit helper"""
        if isinstance(st, ast.Expr) and isinstance(st.value, ast.Call) and call_name(st.value) == 'add_peptide_anno':
            return all(call_name(c) in PURE_REG for c in G.find_calls(st))
        if isinstance(st, (ast.Assign, ast.AnnAssign)):
            return all(call_name(c) in PURE_REG for c in G.find_calls(st))
        return isinstance(st, ast.Pass)
    for (t, h) in hs:
        seq = list(flat(t.body))
        units = [call_name(c) for st in t.body for c in G.find_calls(st) if call_name(c) in UNIT_CALLERS]
        key = f"{WRAPPER}::try[{','.join(units)}]::commit-last"
        ci = [i for i, st in enumerate(seq) if any(call_name(c) in UNIT_CALLERS for c in G.find_calls(st))]
        if not ci:
            continue
        after = seq[ci[-1] + 1:]
        commits = [st for st in after if registration_only(st) and (G.writes_in([st]) or isinstance(st, ast.Expr))]
        if not commits:
            chk.ob('C07.c', f'try[{units}] registers its results inside the try', repo.loc(w, t), False,
                   'no registration of the unit results inside the try body after the per-unit caller', key=key, fn=w.qual)
            continue
        late = [norm_stmt(st) for st in after if not registration_only(st)]
        chk.ob('C07.c', f'try[{units}] commits after its last fallible statement', repo.loc(w, t), not late,
               f"fallible statement(s) after the per-unit caller inside the try body: {late} - a failure there leaves the "
               "unit half-registered", key=key, fn=w.qual)
        chk.ob('C07.c', f'try[{units}] unit caller precedes the commit', repo.loc(w, t), True,
               'results are committed before the per-unit caller ran', key=key + '::order', fn=w.qual)
    # shared inputs never written
    bad = [(wr[0], norm_stmt(wr[2])) for wr in G.writes_in(w.node.body) if wr[0] in SHARED_INPUTS]
    chk.ob('C07.c', 'wrapper never writes its shared inputs', w.where, not bad,
           f"shared input mutated in the wrapper (visible to later units / retries): {bad}",
           key=f"{WRAPPER}::shared-writes", fn=w.qual)
    pool_copy_before_write(chk, repo, 'C07.c')
    # denylist.update guarded by main_peptides
    for c in G.find_calls(w.node, 'update'):
        if unparse(c.func.value) == 'denylist':
            guarded = any(isinstance(a, ast.If) and unparse(a.test) == 'main_peptides' for a in repo.ancestors(c))
            chk.ob('C07.c', 'denylist.update guarded by main_peptides', repo.loc(w, c), guarded,
                   'denylist.update(main_peptides) runs when the main unit failed / produced nothing (None is not iterable)',
                   key=f"{WRAPPER}::denylist-update-guard", fn=w.qual)

    # ---- d
    chk.rule('C07.d', 'R-ONCE: flag slot <-> tally counter pairing in the driver; failures not swallowed elsewhere', 6)
    res_loops = [l for l in G.find_for(d.node) if unparse(l.iter) == 'results']
    if len(res_loops) != 1:
        raise AnalysisError(f"anchor={DRIVER}: results loop not found")
    rl = res_loops[0]
    # pairing slot <-> counter: `if not flags[i]: failed[name] += 1` per unit, or one loop over zip(flags, (names...))
    pairs = {}
    for s_ in ast.walk(rl):
        if isinstance(s_, ast.If) and not s_.orelse and len(s_.body) == 1 and isinstance(s_.body[0], ast.AugAssign):
            atom, pol = literal(s_.test)
            m_ = re.fullmatch(r'success_flags\[(\d)\]', atom)
            tg = unparse(s_.body[0].target)
            m2 = re.search(r"n_transcripts_failed\['(\w+)'\]", tg)
            if m_ and m2 and pol is False and unparse(s_.body[0].value) == '1':
                pairs.setdefault(int(m_.group(1)), []).append(m2.group(1))
        if isinstance(s_, ast.For) and isinstance(s_.iter, ast.Call) and call_name(s_.iter) == 'zip' and len(s_.iter.args) == 2 \
                and isinstance(s_.target, ast.Tuple) and len(s_.target.elts) == 2 and 'success_flags' in unparse(s_.iter):
            ai = [i for i, a_ in enumerate(s_.iter.args) if isinstance(a_, (ast.Tuple, ast.List))]
            fi = [i for i, a_ in enumerate(s_.iter.args) if 'success_flags' in unparse(a_)]
            if len(ai) != 1 or len(fi) != 1 or ai == fi:
                continue
            fv, cv = unparse(s_.target.elts[fi[0]]), unparse(s_.target.elts[ai[0]])
            incs = [a for a in ast.walk(s_) if isinstance(a, ast.AugAssign) and re.search(r"n_transcripts_failed\[" + re.escape(cv) + r"\]", unparse(a.target))
                    and unparse(a.value) == '1']
            okz = False
            if len(incs) == 1:
                from sa import sem as _sem
                fxs = _sem.facts_in_iteration(d.node, s_, lambda st: st is incs[0])
                okz = bool(fxs) and all(_sem.known(fx, f'not {fv}') is True for _st, fx in fxs)
            if okz:
                for i_, e_ in enumerate(s_.iter.args[ai[0]].elts):
                    if isinstance(e_, ast.Constant):
                        pairs.setdefault(i_, []).append(e_.value)
    # third form: `for k, kind in enumerate((names...)): if not success_flags[k]: failed[kind] += 1`
    from sa import sem as _sem3
    nd = _sem3.nf(repo, d)
    for s_ in ast.walk(nd):
        if isinstance(s_, ast.For) and isinstance(s_.iter, ast.Call) and call_name(s_.iter) == 'enumerate' and s_.iter.args \
                and isinstance(s_.iter.args[0], (ast.Tuple, ast.List)) and isinstance(s_.target, ast.Tuple) and len(s_.target.elts) == 2 \
                and len(s_.iter.args) == 1 and not s_.iter.keywords:
            kv, cv = unparse(s_.target.elts[0]), unparse(s_.target.elts[1])
            incs = [a for a in ast.walk(s_) if isinstance(a, ast.AugAssign) and re.search(r"n_transcripts_failed\[" + re.escape(cv) + r"\]", unparse(a.target))
                    and unparse(a.value) == '1']
            if len(incs) == 1:
                fxs = _sem3.facts_in_iteration(nd, s_, lambda st: st is incs[0])
                if fxs and all(_sem3.known(fx, f'not success_flags[{kv}]') is True for _st, fx in fxs):
                    for i_, e_ in enumerate(s_.iter.args[0].elts):
                        if isinstance(e_, ast.Constant):
                            pairs.setdefault(i_, []).append(e_.value)
    for u, (slot, name) in UNIT_CALLERS.items():
        ok = pairs.get(slot) == [name]
        chk.ob('C07.d', f"flag[{slot}] ({u}) increments exactly n_transcripts_failed['{name}']", repo.loc(d, rl), ok,
               f"a failed {name} unit is not tallied exactly once under '{name}' (slot {slot} is paired with {pairs.get(slot)})", key=f"{DRIVER}::tally::{name}", fn=d.qual)
    # no try in the driver / reducer catches anything but TimeoutError
    for fx in (d, r):
        for t in [n for n in walk_no_nested(fx.node) if isinstance(n, ast.Try)]:
            for h in t.handlers:
                tn = unparse(h.type) if h.type else ''
                ok = tn == 'TimeoutError' and fx is r
                chk.ob('C07.d', f"{fx.name}: handler '{norm_stmt(h)}' cannot swallow unit failures", repo.loc(fx, h), ok,
                       f"handler '{norm_stmt(h)}' in {fx.name} can swallow a unit failure raised without --skip-failed",
                       key=f"{fx.qual}::{norm_stmt(h)}::swallow", fn=fx.qual)
    # reducer loop exits only by returning the wrapper's value or raising
    rc = CFG(r.node)
    rets = [n for n in rc.nodes if n.kind == 'stmt' and isinstance(n.ast, ast.Return)]
    ok = len(rets) == 1 and isinstance(rets[0].ast.value, ast.Call) and call_name(rets[0].ast.value) == 'call_variant_peptides_wrapper' \
        and not any(l == 'fallthrough' for (l, _p) in rc.pred[rc.exit])
    chk.ob('C07.d', 'caller_reducer returns only the wrapper value (or raises)', r.where, ok,
           'caller_reducer can return something other than the wrapper result', key=f"{REDUCER}::returns", fn=r.qual)
    # FASTA is written after the loop on the normal path only (not in a finally / handler)
    wf = [c for c in G.find_calls(d.node, 'write_fasta')]
    okw = len(wf) == 1 and not any(isinstance(a, (ast.Try, ast.ExceptHandler)) for a in repo.ancestors(wf[0]) if a is not d.node) \
        and wf[0].lineno > rl.end_lineno
    chk.ob('C07.d', 'FASTA written once, after the transcript loop, outside any handler/finally', repo.loc(d, wf[0]) if wf else d.where, okw,
           'write_fasta can run although a unit failure is propagating', key=f"{DRIVER}::write_fasta", fn=d.qual)
    # tally log names each failure counter
    tl = repo.func('cli.call_variant_peptide:TallyTable.log')
    chk.uses(tl)
    txt = unparse(tl.node)
    for name in ('variant', 'fusion', 'circRNA'):
        chk.ob('C07.d', f"tally log reports n_transcripts_failed['{name}']", tl.where, f"self.n_transcripts_failed['{name}']" in txt,
               f"TallyTable.log does not report the '{name}' failures", key=f"{tl.qual}::{name}", fn=tl.qual)

    # ---- e (shared with C06.a): a skipped / invalid transcript must not leave the pending batch undispatched
    from rules.C06 import rule_drain
    rule_drain(chk, repo, 'C07.e')
    # ------------------------------------------------------------------ shared: context managers restore in finally
    from rules.shared import ctxmgr
    chk.clauses.append('C07.f every generator context manager of the package restores its state in a finally (a failure inside the managed block, later swallowed by --skip-failed, cannot leak a swapped state into other units)')
    ctxmgr(chk, repo, 'C07.f', ['seqvar', 'svgraph', 'cli.call_variant_peptide', 'cli.common', 'cli.parse_vep', 'cli.parse_star_fusion', 'cli.parse_arriba', 'cli.parse_fusion_catcher', 'gtf', 'dna', 'aa'], floor=0)

"""C10 - canonical pool = exact in-silico digest.

a R-RX     site table vs range table: same windows for all strings; pairing safety
b R-TAINT  raw --cleavage-exception never reaches a digestion sink; sink literals in table
b2 R-SIBLING every regex use of `exception` is preceded by the name->regex resolution
c shape of create_unique_peptide_pool  (X strip, first-stop cut, I/L pairing, cds_start_nf)
d R-THREAD six cleavage parameters flow name-to-name into the pool construction
e R-ONCE   enzymatic_cleave considers every window within the miscleavage limit
"""
import ast
import re
from sa.model import unparse, norm_stmt, call_name, kwarg, walk_no_nested, AnalysisError, str_consts
from sa.cfg import CFG, iteration_paths
from sa import guards as G
from sa import rx, flow

POOL = 'aa.AminoAcidSeqDict:AminoAcidSeqDict.create_unique_peptide_pool'
CLEAVE = 'aa.AminoAcidSeqRecord:AminoAcidSeqRecord.enzymatic_cleave'
SANITISER = 'CleavageParams'
SIX = ['rule', 'exception', 'miscleavage', 'min_mw', 'min_length', 'max_length']


def table(repo, name):
    node = repo.const('aa.expasy_rules', name)
    if not isinstance(node, ast.Dict):
        raise AnalysisError(f"anchor=aa.expasy_rules:{name} is not a dict literal")
    out = {}
    for k, v in zip(node.keys, node.values):
        try:
            out[ast.literal_eval(k)] = ast.literal_eval(v)
        except Exception as e:      # pylint: disable=broad-except
            raise AnalysisError(f"anchor=aa.expasy_rules:{name}: non-literal entry {unparse(k)}") from e
    return out, node


def rule_rx(chk, repo):
    chk.rule('C10.a', 'R-RX: site and range tables denote the same windows; zip(sites, ranges) pairing is safe', 36 * 3)
    R1, n1 = table(repo, 'EXPASY_RULES')
    R2, _ = table(repo, 'EXPASY_RULES2')
    where = f"moPepGen/aa/expasy_rules.py:{n1.lineno}"
    chk.ob('C10.a', 'both tables define the same enzymes', where, set(R1) == set(R2),
           f"keys differ: only in EXPASY_RULES {sorted(set(R1) - set(R2))}, only in EXPASY_RULES2 {sorted(set(R2) - set(R1))}",
           key='aa.expasy_rules::keys')
    n_pairs = 0
    for k in sorted(set(R1) & set(R2)):
        try:
            alts1 = [rx.site_alt(a) for a in rx.alternatives(R1[k])]
            alts2 = [rx.range_alt(a) for a in rx.alternatives(R2[k])]
        except rx.RxError as e:
            chk.ob('C10.a', f'{k}: patterns are finite-window', where, False, f"{k}: {e}", key=f'aa.expasy_rules::{k}::shape')
            continue
        # (ii) core width 1
        chk.ob('C10.a', f'{k}: core width is 1 in every alternative', where, all(len(c) == 1 for (_lb, c, _la) in alts1),
               f"{k}: a cut-site alternative consumes {[len(c) for (_l, c, _a) in alts1]} residues; finditer would skip overlapping sites",
               key=f'aa.expasy_rules::{k}::core-width')
        # (i) flatten equality
        flat = [lb + c + la for (lb, c, la) in alts1]
        ok = len(flat) == len(alts2) and all(a == b for a, b in zip(flat, alts2))
        detail = ''
        if not ok:
            detail = f"{k}: site rule windows {[''.join(rx.show(c) for c in f) for f in flat]} != range rule windows " \
                     f"{[''.join(rx.show(c) for c in f) for f in alts2]}"
        chk.ob('C10.a', f'{k}: flattened site rule == range rule (alternative-wise)', where, ok, detail,
               key=f'aa.expasy_rules::{k}::windows')
        # (iii) pairing safety
        conflicts = []
        for i, (lbi, ci, lai) in enumerate(alts1):
            for j, (lbj, cj, laj) in enumerate(alts1):
                if i == j or len(lbi) <= len(lbj):
                    continue
                d = len(lbi) - len(lbj)
                wi, wj = lbi + ci + lai, lbj + cj + laj
                for delta in range(0, d + 1):
                    n_pairs += 1
                    # alt i core at absolute p=0 -> window starts at -len(lbi); alt j core at -delta
                    if rx.overlap_satisfiable(wi, -len(lbi), wj, -delta - len(lbj)):
                        conflicts.append((i, j, delta))
        chk.ob('C10.a', f'{k}: no string ties/reverses range starts of two sites', where, not conflicts,
               f"{k}: alternatives (i,j,site distance) {conflicts} can match together with lookbehind widths that make the "
               "range list shorter than / ordered differently from the site list (ValueError or mispaired ranges)",
               key=f'aa.expasy_rules::{k}::pairing')
    chk.extra['rx_overlap_windows_checked'] = n_pairs
    # choices derived from the table
    ca = repo.func('cli.common:add_args_cleavage')
    chk.uses(ca)
    ch = [kwarg(c, 'choices') for c in G.find_calls(ca.node, 'add_argument') if any(isinstance(a, ast.Constant) and a.value == '--cleavage-rule' for a in c.args)]
    chk.ob('C10.a', '--cleavage-rule choices are the table keys', ca.where,
           len(ch) == 1 and ch[0] is not None and unparse(ch[0]) == 'list(EXPASY_RULES.keys())',
           '--cleavage-rule choices are not derived from EXPASY_RULES', key='cli.common:add_args_cleavage::choices', fn=ca.qual)


def sink_functions(repo):
    """package functions (non-util) that take a parameter named `exception`."""
    out = {}
    for f in repo.funcs_in():
        if f.module.modname in ('fake',):
            continue
        if 'exception' in f.params():
            out.setdefault(f.name, []).append(f)
    return out


def rule_taint(chk, repo):
    chk.rule('C10.b', 'R-TAINT: no raw source reaches an `exception` sink; literals at sinks are table members', 30)
    R1, _ = table(repo, 'EXPASY_RULES')
    sinks = sink_functions(repo)
    n_sites = 0
    for f in repo.funcs_in():
        if f.module.modname == 'fake':
            continue
        for c in G.find_calls(f.node, nested=False):
            nm = call_name(c)
            arg = kwarg(c, 'exception')
            if arg is None and nm in sinks and nm != SANITISER:
                # positional
                cands = sinks[nm]
                ps = cands[0].params()
                if ps and ps[0] in ('self', 'cls'):
                    ps = ps[1:]
                pos = ps.index('exception')
                if pos < len(c.args) and not any(isinstance(a, ast.Starred) for a in c.args):
                    arg = c.args[pos]
            if arg is None:
                continue
            if nm not in sinks and nm != SANITISER:
                continue
            n_sites += 1
            chk.call_sites += 1
            kind, info = flow.classify(f, arg)
            inst = f"{f.qual}: {nm}(exception={unparse(arg)})"
            key = f"{f.qual}::{nm}::exception={unparse(arg)}"
            if nm == SANITISER:
                chk.ob('C10.b', inst + ' [sanitiser]', repo.loc(f, c), kind != 'unknown',
                       f"cannot classify the value normalised by CleavageParams: {info}", key=key, fn=f.qual)
                continue
            if kind == 'tainted':
                chk.ob('C10.b', inst, repo.loc(f, c), False,
                       f"raw CLI value {info} reaches digestion sink {nm}() without passing through CleavageParams: the default "
                       "'auto' is used as a literal regex (no exception sites)", key=key, fn=f.qual)
            elif kind == 'literal':
                bad = [v for v in info if v is not None and v not in R1]
                chk.ob('C10.b', inst, repo.loc(f, c), not bad,
                       f"exception literal(s) {bad} are not keys of EXPASY_RULES; an unknown name is used as a literal regex "
                       "that never matches", key=key, fn=f.qual)
            elif kind in ('clean', 'param'):
                chk.ob('C10.b', inst, repo.loc(f, c), True, fn=f.qual)
            else:
                chk.ob('C10.b', inst, repo.loc(f, c), False, f"UNCLASSIFIED-USE: cannot establish provenance of {info}", key=key, fn=f.qual)
    chk.extra['exception_call_sites'] = n_sites
    # sanitiser contract
    init = repo.func('params:CleavageParams.__init__')
    chk.uses(init)
    ok = False
    for n in walk_no_nested(init.node):
        if isinstance(n, ast.If) and unparse(n.test) == "self.exception == 'auto'":
            txt = unparse(n)
            ok = "self.exception = 'trypsin_exception'" in txt and 'self.exception = None' in txt and "enzyme == 'trypsin'" in txt
    chk.ob('C10.b', "sanitiser maps 'auto' to trypsin_exception / None", init.where, ok,
           "CleavageParams.__init__ no longer normalises exception='auto'", key='params:CleavageParams.__init__::auto', fn=init.qual)
    # the CLI default is a value the sanitiser handles
    ca = repo.func('cli.common:add_args_cleavage')
    d = [kwarg(c, 'default') for c in G.find_calls(ca.node, 'add_argument') if any(isinstance(a, ast.Constant) and a.value == '--cleavage-exception' for a in c.args)]
    chk.ob('C10.b', "--cleavage-exception default is 'auto' or a table member", ca.where,
           len(d) == 1 and isinstance(d[0], ast.Constant) and (d[0].value in ('auto', None) or d[0].value in R1),
           '--cleavage-exception default is not handled by the sanitiser', key='cli.common:add_args_cleavage::exception-default', fn=ca.qual)

    chk.rule('C10.b2', 'R-SIBLING: every regex use of `exception` follows the name->regex resolution EXPASY_RULES.get', 5)
    # value flow, not spelling: a local is RESOLVED after `x = EXPASY_RULES.get(e, e)` with e the exception parameter (or a copy of
    # it), whatever x is called; every regex call whose pattern derives from the parameter must see a resolved value on all paths
    from sa import sem as _sem
    RX = ('finditer', 'compile', 'search', 'match', 'findall', 'fullmatch', 'split', 'sub')
    for f in repo.funcs_in():
        if 'exception' not in f.params() or f.module.modname == 'fake':
            continue
        fnode = f.node

        def is_resolution(v, raw, res):
            return isinstance(v, ast.Call) and isinstance(v.func, ast.Attribute) and v.func.attr == 'get' and unparse(v.func.value) == 'EXPASY_RULES' \
                and len(v.args) == 2 and all(isinstance(a, ast.Name) and ('raw:' + a.id in raw or 'res:' + a.id in res) for a in v.args) \
                and unparse(v.args[0]) == unparse(v.args[1])

        def transfer(st, S):
            # S holds 'raw:<name>' (carries the unresolved parameter) and 'res:<name>' (resolved)
            if isinstance(st, ast.Assign) and len(st.targets) == 1 and isinstance(st.targets[0], ast.Name):
                t = st.targets[0].id
                out = set(x for x in S if x[4:] != t)
                v = st.value
                if is_resolution(v, S, S):
                    out.add('res:' + t)
                elif isinstance(v, ast.Subscript) and unparse(v.value) == 'EXPASY_RULES' and isinstance(v.slice, ast.Name) and 'key:' + v.slice.id in S:
                    out.add('res:' + t)          # x = EXPASY_RULES[e] under `e in EXPASY_RULES`
                elif isinstance(v, ast.Name) and 'res:' + v.id in S:
                    out.add('res:' + t)
                elif isinstance(v, ast.Name) and 'raw:' + v.id in S:
                    out.add('raw:' + t)
                return frozenset(out)
            if isinstance(st, (ast.AugAssign, ast.AnnAssign)) and isinstance(st.target, ast.Name):
                return frozenset(x for x in S if x[4:] != st.target.id)
            return S
        def edge(test, lab, S):
            # `e in EXPASY_RULES`: on the false edge the name is its own resolution (get(e, e) == e); on the true edge e is a key
            from sa.cfg import literal as _lit
            atom, pol = _lit(test)
            m_ = re.fullmatch(r'(\w+) in EXPASY_RULES', atom)
            if m_ and ('raw:' + m_.group(1)) in S:
                is_member = (lab == 'T') == pol
                return frozenset(S | ({'key:' + m_.group(1)} if is_member else {'res:' + m_.group(1)}))
            return S
        cfg, state = _sem.must_set_flow(fnode, transfer, init={'raw:exception'}, edge_transfer=edge)
        # names that may ever carry the parameter (raw or resolved), for instance discovery
        carriers = {'exception'}
        for _ in range(3):
            for a in walk_no_nested(fnode):
                if isinstance(a, ast.Assign) and len(a.targets) == 1 and isinstance(a.targets[0], ast.Name):
                    if any(isinstance(x, ast.Name) and x.id in carriers for x in ast.walk(a.value)) and \
                            (isinstance(a.value, ast.Name) or (isinstance(a.value, ast.Call) and unparse(a.value.func) == 'EXPASY_RULES.get')):
                        carriers.add(a.targets[0].id)
        uses = [c for c in G.find_calls(fnode, nested=False)
                if call_name(c) in RX and c.args and any(isinstance(x, ast.Name) and x.id in carriers for x in ast.walk(c.args[0]))
                and isinstance(c.func, ast.Attribute) and unparse(c.func.value) in ('re', 'regex')]
        for u in uses:
            site = cfg.node_for(repo.enclosing_stmt(u))
            S = state.get(site)
            a0 = u.args[0]
            ok = S is not None and ((isinstance(a0, ast.Name) and ('res:' + a0.id) in S) or is_resolution(a0, S, S))
            if S is None:
                ok = True       # unreachable
            chk.ob('C10.b2', f"{f.qual}: {unparse(u)[:50]}", repo.loc(f, u), ok,
                   f"{f.name}() matches the exception *name* as a regex without resolving it through EXPASY_RULES "
                   "(its siblings do): 'trypsin_exception' never matches, so no exception site is ever found",
                   key=f"{f.qual}::unresolved-exception-regex", fn=f.qual)


def rule_pool_shape(chk, repo, rid='C10.c'):
    chk.rule(rid, 'shape of create_unique_peptide_pool: X strip, first-stop cut, I/L pairing, cds_start_nf threading', 6)
    f = repo.func(POOL)
    chk.uses(f)
    cfg = CFG(f.node)
    calls = G.find_calls(f.node, 'enzymatic_cleave')
    if len(calls) != 1:
        raise AnalysisError(f"anchor={POOL}: enzymatic_cleave call not found")
    site = cfg.node_for(repo.enclosing_stmt(calls[0]))
    from sa import sem
    # names are taken from the code: P the record that is digested, R the digest result
    if not isinstance(calls[0].func, ast.Attribute) or not isinstance(calls[0].func.value, ast.Name):
        raise AnalysisError(f"anchor={POOL}: receiver of enzymatic_cleave is not a local name")
    P = calls[0].func.value.id
    dst = repo.enclosing_stmt(calls[0])
    R = dst.targets[0].id if isinstance(dst, ast.Assign) and len(dst.targets) == 1 and isinstance(dst.targets[0], ast.Name) else None
    loops_ = [a for a in repo.ancestors(dst) if isinstance(a, (ast.While, ast.For))]
    if not loops_:
        raise AnalysisError(f"anchor={POOL}: the digest is not inside the loop over the proteome")
    ploop = loops_[0]
    anchor = dst
    for a in repo.ancestors(dst):
        if a is ploop:
            break
        anchor = a
    if anchor not in ploop.body:
        raise AnalysisError(f"anchor={POOL}: digest statement not found in the proteome loop body")
    pre = ploop.body[:ploop.body.index(anchor)]
    chains_ = sem.block_chains(f.node)

    def ex(st, e, calls_=()):
        return unparse(sem.expand_names(f.node, st, e, chains=chains_, allow_calls=calls_))

    def cond_lits(st):
        c = sem.conj_literals(sem.expand_names(f.node, st, st.test, chains=chains_, allow_calls=('find', 'startswith')))
        return c or set()
    xs_assign = f"{P}.seq = {P}.seq.lstrip('X')"
    x_strip = [st for st in pre if (norm_stmt(st) == xs_assign) or
               (isinstance(st, ast.If) and not st.orelse and len(st.body) == 1 and norm_stmt(st.body[0]) == xs_assign
                and cond_lits(st) == {sem.lit(f"{P}.seq.startswith('X')")})]
    chk.ob(rid, 'leading X stripped before digestion', f.where, len(x_strip) == 1, "leading-X strip does not precede the digest", key=POOL + '::x-strip', fn=f.qual)
    # first stop cut
    stop_tests = [{sem.lit(f"{P}.seq.find('*') > -1")}, {sem.lit(f"{P}.seq.find('*') != -1")}, {sem.lit(f"{P}.seq.find('*') >= 0")},
                  {sem.lit(f"'*' in {P}.seq")}]

    def is_cut(st, ctx):
        if not (isinstance(st, ast.Assign) and len(st.targets) == 1 and unparse(st.targets[0]) == P and isinstance(st.value, ast.Subscript)
                and unparse(st.value.value) == P and isinstance(st.value.slice, ast.Slice) and st.value.slice.lower is None and st.value.slice.step is None
                and st.value.slice.upper is not None):
            return False
        return ex(ctx, st.value.slice.upper, ('find',)) == f"{P}.seq.find('*')"
    cuts = [st for st in pre if isinstance(st, ast.If) and not st.orelse and len(st.body) == 1 and is_cut(st.body[0], st) and cond_lits(st) in stop_tests]
    chk.ob(rid, 'sequence cut at the first stop before digestion', f.where, len(cuts) == 1,
           "the proteome sequence is not cut at the first '*' before the digest", key=POOL + '::stop-cut', fn=f.qual)
    other_w = [w for w in G.writes_in(pre) if w[0] == P and not any(any(w[2] is y for y in ast.walk(x)) for x in x_strip + cuts)]
    chk.ob(rid, 'the record is not otherwise altered before the digest', repo.loc(f, other_w[0][2]) if other_w else f.where, not other_w,
           f"the proteome entry is modified before it is digested: {norm_stmt(other_w[0][2]) if other_w else ''}", key=POOL + '::pre-digest-writes', fn=f.qual)
    # cds_start_nf from the annotation, threaded
    k = kwarg(calls[0], 'cds_start_nf')
    # every value that can reach the cds_start_nf argument: the annotation's flag of THIS protein's transcript, or False when the
    # transcript is not annotated (names resolved through their nearest definitions)
    from sa import sem
    binds = []
    if k is not None:
        if isinstance(k, ast.Name):
            for n in walk_no_nested(f.node):
                if isinstance(n, ast.Assign) and len(n.targets) == 1 and unparse(n.targets[0]) == k.id:
                    binds.append(unparse(sem.expand_names(f.node, n, n.value)))
        else:
            binds.append(unparse(sem.expand_names(f.node, repo.enclosing_stmt(calls[0]), k)))
    def leaves(text):
        e_ = ast.parse(text, mode='eval').body
        out_ = []

        def rec(x):
            if isinstance(x, ast.IfExp):
                rec(x.body)
                rec(x.orelse)
            else:
                out_.append(unparse(x))
        rec(e_)
        return out_
    binds = [l_ for b_ in binds for l_ in leaves(b_)]
    want_b = {'False', f'anno.transcripts[{P}.transcript_id].is_cds_start_nf()'}
    ok = k is not None and set(binds) == want_b
    chk.ob(rid, 'cds_start_nf read from the annotation and passed to enzymatic_cleave', repo.loc(f, calls[0]), ok,
           f"cds_start_nf bindings {binds}, passed {unparse(k) if k is not None else None}", key=POOL + '::cds_start_nf', fn=f.qual)
    # six parameters name-to-name
    for p in SIX[2:] + ['rule', 'exception']:
        v = kwarg(calls[0], p)
        chk.ob(rid, f'enzymatic_cleave({p}={p})', repo.loc(f, calls[0]), v is not None and unparse(v) == p,
               f"enzymatic_cleave receives {p}={unparse(v) if v is not None else 'missing'}", key=POOL + f'::arg::{p}', fn=f.qual)
        w = [x for x in G.writes_in(f.node.body) if x[0] == p]
        if w:
            chk.ob(rid, f'{p} not rebound in the pool builder', repo.loc(f, w[0][2]), False, f"{p} is rebound: {norm_stmt(w[0][2])}",
                   key=POOL + f'::rebinding::{p}', fn=f.qual)
    # I/L pairing
    rets = [n for n in walk_no_nested(f.node) if isinstance(n, ast.Return)]
    POOLN = unparse(rets[0].value) if len(rets) == 1 and isinstance(rets[0].value, ast.Name) else 'pool'
    ploops = [l for l in walk_no_nested(ploop) if isinstance(l, ast.For) and R is not None and unparse(l.iter) == R and isinstance(l.target, ast.Name)]
    ok = len(ploops) == 1
    texts = []
    # generator form: POOL.update(<helper>(R)) where the (new) generator helper yields, for every element of its parameter, the
    # peptide text and its I->L image
    gen_consume = None
    if not ploops and R is not None:
        for st in walk_no_nested(ploop):
            if isinstance(st, ast.Expr) and isinstance(st.value, ast.Call) and call_name(st.value) == 'update' and unparse(st.value.func.value) == POOLN \
                    and len(st.value.args) == 1 and isinstance(st.value.args[0], ast.Call) and [unparse(a) for a in st.value.args[0].args] == [R]:
                hn = call_name(st.value.args[0])
                hs = [g for q_, g in repo.functions.items() if g.node.name == hn and g.module is f.module]
                if len(hs) == 1:
                    h = hs[0]
                    hp = [a.arg for a in h.node.args.args if a.arg != 'self']
                    hl = [l for l in walk_no_nested(h.node) if isinstance(l, ast.For) and hp and unparse(l.iter) == hp[0] and isinstance(l.target, ast.Name)]
                    if len(hl) == 1 and len([l for l in ast.walk(h.node) if isinstance(l, (ast.For, ast.While))]) == 1 \
                            and not any(isinstance(x, (ast.Break, ast.Continue, ast.Return, ast.If)) for x in ast.walk(h.node)):
                        hv = hl[0].target.id
                        ys = sorted(ex(y, y.value.value, ('str', 'replace')) for y in hl[0].body if isinstance(y, ast.Expr) and isinstance(y.value, ast.Yield))
                        texts = ys
                        if ys == sorted([f'str({hv}.seq)', f"str({hv}.seq).replace('I', 'L')"]) and len([y for y in ast.walk(h.node) if isinstance(y, (ast.Yield, ast.YieldFrom))]) == 2:
                            gen_consume = st
                            chk.uses(h)
    if gen_consume is not None:
        ok = len([c for c in G.find_calls(f.node, 'add') + G.find_calls(f.node, 'update') if unparse(c.func.value) == POOLN]) == 1
    elif ok:
        v = ploops[0].target.id
        adds = [st for st in ploops[0].body if isinstance(st, ast.Expr) and isinstance(st.value, ast.Call) and isinstance(st.value.func, ast.Attribute)
                and st.value.func.attr == 'add' and unparse(st.value.func.value) == POOLN and len(st.value.args) == 1]
        all_adds = [c for c in G.find_calls(f.node, 'add') if unparse(c.func.value) == POOLN]
        texts = sorted(ex(st, st.value.args[0], ('str', 'replace')) for st in adds)
        ok = len(adds) == 2 and len(all_adds) == 2 and texts == sorted([f'str({v}.seq)', f"str({v}.seq).replace('I', 'L')"]) \
            and not any(isinstance(x, (ast.Continue, ast.Break, ast.Return)) for x in ast.walk(ploops[0]))          # nothing skips a peptide once digested
    chk.ob(rid, 'each peptide is added together with its I->L image', f.where, ok,
           f"pool.add calls {texts} are not the peptide and its I->L image added for every digested peptide", key=POOL + '::il-pairing', fn=f.qual)
    # returns the pool
    inits = [n for n in f.node.body if (isinstance(n, ast.Assign) and unparse(n.targets[0]) == POOLN) or
             (isinstance(n, ast.AnnAssign) and n.value is not None and unparse(n.target) == POOLN)]
    chk.ob(rid, 'returns the assembled pool', f.where, len(rets) == 1 and len(inits) == 1 and unparse(inits[0].value) == 'set()', 'pool not returned', key=POOL + '::return', fn=f.qual)
    # every protein is digested: loop advances only via next(it) after adding, or `continue` after trimming at X
    ok = isinstance(ploop, ast.While) and unparse(ploop.test) == P
    if ok:
        ps = iteration_paths(cfg, ploop, max_paths=5000)
        chk.paths += len(ps)

        def is_adv(a):
            return isinstance(a, ast.Assign) and unparse(a.targets[0]) == P and isinstance(a.value, ast.Call) and call_name(a.value) == 'next'

        def is_trim(a):
            return isinstance(a, ast.Assign) and unparse(a.targets[0]) == f'{P}.seq' and unparse(a.value) == f"{P}.seq.split('X')[0]"
        for p in ps:
            if p.end_kind() in ('back', 'continue'):
                adv = p.count(lambda n: n.kind == 'stmt' and is_adv(n.ast))
                trimmed = p.count(lambda n: n.kind == 'stmt' and is_trim(n.ast))
                digested = p.count(lambda n: (n.kind == 'iter' and unparse(n.ast.iter) == R) or (gen_consume is not None and n.kind == 'stmt' and n.ast is gen_consume))
                if not ((adv == 1 and digested >= 1) or (adv == 0 and trimmed == 1)):
                    ok = False
    elif isinstance(ploop, ast.For):
        # `for P in self.values()`: the advance is the loop itself; no early exit, the digest is not skipped
        ok = not sem.own_exits(ploop) and not any(isinstance(x, ast.Continue) for st in pre for x in ast.walk(st))
    chk.ob(rid, 'every proteome entry is digested (advance only after its peptides were added)', f.where, ok,
           'a path advances to the next protein without adding the peptides of the current one', key=POOL + '::every-protein', fn=f.qual)


def rule_thread(chk, repo, rid='C10.d', quals=('cli.generate_index:generate_index', 'cli.update_index:update_index',
                                              'cli.common:load_references')):
    chk.rule(rid, 'R-THREAD: cleavage parameters flow name-to-name from args into create_unique_peptide_pool', 6 * len(quals))
    src_attr = {'rule': 'cleavage_rule', 'miscleavage': 'miscleavage', 'min_mw': 'min_mw',
                'min_length': 'min_length', 'max_length': 'max_length'}
    for q in quals:
        f = repo.func(q)
        chk.uses(f)
        calls = G.find_calls(f.node, 'create_unique_peptide_pool')
        if len(calls) != 1:
            raise AnalysisError(f"anchor={q}: create_unique_peptide_pool call not found")
        c = calls[0]
        if any(k.arg is None for k in c.keywords) or any(isinstance(a, ast.Starred) for a in c.args):
            # the arguments are handed over as `**<expression>` that the normal form could not expand to a literal (built by a method /
            # an object): what each parameter receives is not visible at the call
            chk.undecided(rid, f"{f.name}: create_unique_peptide_pool(**...)", repo.loc(f, c),
                          f"the keyword arguments of the pool call are passed as `{unparse(next(k.value for k in c.keywords if k.arg is None)) if any(k.arg is None for k in c.keywords) else '*args'}` (not expandable to a literal)",
                          key=f"{q}::pool-arg", fn=f.qual)
            continue
        for p in SIX:
            v = kwarg(c, p)
            if p == 'exception':
                ok = v is not None and flow.classify(f, v)[0] == 'clean'
                detail = f"exception argument {unparse(v) if v is not None else 'missing'} is not the normalised CleavageParams value"
            else:
                ok = False
                detail = f"{p} argument {unparse(v) if v is not None else 'missing'}"
                if v is not None:
                    e = v
                    if isinstance(e, ast.Name):
                        r = G.resolve_local(f.node, e.id)
                        e = r if r is not None else e
                    txt = unparse(e)
                    want = f"args.{src_attr[p]}"
                    ok = txt in (want, f"int({want})", f"float({want})") or txt == f"cleavage_params.{'enzyme' if p == 'rule' else p}"
                    detail = f"{p} is bound to '{txt}', expected {want} (possibly int()/float()) - a swapped or constant parameter " \
                             "makes the pool a digest under other settings than requested"
            chk.ob(rid, f"{f.name}: create_unique_peptide_pool({p}=...)", repo.loc(f, c), ok, detail, key=f"{q}::pool-arg::{p}", fn=f.qual)
        a = kwarg(c, 'anno')
        chk.ob(rid, f"{f.name}: create_unique_peptide_pool(anno=anno)", repo.loc(f, c), a is not None and unparse(a) == 'anno',
               'annotation not passed (cds_start_NF lost)', key=f"{q}::pool-arg::anno", fn=f.qual)


def rule_cleave(chk, repo, rid='C10.e'):
    """The digest enumerates every window of consecutive fragments: decided on the normal form, from the index domains of
    the two counting loops (sem.counted_loop: `while`+counter and `for ... in range` are the same domain) and the
    must-facts at the emitting calls - not from the spelling of the loops."""
    from sa import sem
    from sa.affine import simple_aff, Aff
    chk.rule(rid, 'R-ONCE: enzymatic_cleave emits every window within the miscleavage limit; M-removal guard', 7)
    f = repo.func(CLEAVE)
    chk.uses(f)
    n = sem.nf(repo, f)
    params = [a.arg for a in n.args.args]
    me = params[0] if params else 'self'
    for need in ('miscleavage', 'cds_start_nf', 'min_length', 'max_length', 'min_mw', 'rule', 'exception'):
        if need not in params:
            raise AnalysisError(f"anchor={CLEAVE}: parameter {need} not found")
    parent = {}
    for x in ast.walk(n):
        for c in ast.iter_child_nodes(x):
            parent[id(c)] = x

    def idx_of(e):      # S[a] -> (S, a)
        if isinstance(e, ast.Subscript) and isinstance(e.value, ast.Name) and isinstance(e.slice, ast.Name):
            return e.value.id, e.slice.id
        return None
    wins = []
    for x in walk_no_nested(n):
        if isinstance(x, ast.Subscript) and isinstance(x.slice, ast.Slice) and unparse(x.value) == me and x.slice.step is None \
                and x.slice.lower is not None and x.slice.upper is not None:
            lo_, up_ = idx_of(x.slice.lower), idx_of(x.slice.upper)
            if lo_ and up_ and lo_[0] == up_[0]:
                wins.append((x, lo_[0], lo_[1], up_[1]))
    elem_form = None
    if len(wins) != 1:
        # the same window written over the ELEMENTS of the boundary list: `for a, A in enumerate(S[..]): for k, B in enumerate(S[a + 1:]): self[A:B]`
        cand = [x for x in walk_no_nested(n) if isinstance(x, ast.Subscript) and isinstance(x.slice, ast.Slice) and unparse(x.value) == me and x.slice.step is None
                and isinstance(x.slice.lower, ast.Name) and isinstance(x.slice.upper, ast.Name)]
        if len(cand) == 1:
            x = cand[0]
            lps = []
            y = x
            while id(y) in parent:
                y = parent[id(y)]
                if isinstance(y, (ast.For, ast.While)):
                    lps.append(y)
            if len(lps) == 2:
                ei, eo = sem.enum_slice_loop(n, lps[0]), sem.enum_slice_loop(n, lps[1])
                if ei and eo and eo[1] == x.slice.lower.id and ei[1] == x.slice.upper.id and ei[2] == eo[2]:
                    elem_form = (x, lps[0], lps[1], ei, eo)
        if elem_form is None:
            raise AnalysisError(f"anchor={CLEAVE}: the window `{me}[<sites>[a]:<sites>[b]]` not found exactly once ({len(wins)})")
    if elem_form is not None:
        win, inner, outer, ei, eo = elem_form
        S, a, b = eo[2], eo[0], ei[0]
    else:
        win, S, a, b = wins[0]
        loops = []
        x = win
        while id(x) in parent:
            x = parent[id(x)]
            if isinstance(x, (ast.For, ast.While)):
                loops.append(x)
        if len(loops) != 2:
            raise AnalysisError(f"anchor={CLEAVE}: expected the window inside two nested loops, found {len(loops)}")
        inner, outer = loops
    chains = sem.block_chains(n)
    lenS = Aff.sym(f"len({S})")
    if elem_form is not None:
        # positions: first boundary at lo_o + a, second at lo_i + k; the index a names the first boundary only if lo_o == 0
        _i_o, _x_o, _S, lo_o, ups_o, pr_o = eo
        _i_i, _x_i, _S2, lo_i, ups_i, pr_i = ei
        P = lo_o + Aff.sym(a)
        chk.ob(rid, 'outer loop visits every start site', repo.loc(f, outer), lo_o == Aff(0) and ups_o == frozenset([lenS - 1]),
               f"the first boundary runs over positions [{lo_o!r}, min{sorted(map(repr, ups_o))}) instead of [0, len({S}) - 1)", key=CLEAVE + '::outer-test', fn=f.qual)
        chk.ob(rid, 'outer iteration advances the first boundary exactly once', repo.loc(f, outer), not pr_o and not sem.own_exits(outer),
               'outer loop bookkeeping altered: ' + '; '.join(pr_o + [f"early exit `{norm_stmt(e)}`" for e in sem.own_exits(outer)]), key=CLEAVE + '::outer-once', fn=f.qual)
        want = frozenset([P + Aff.sym('miscleavage') + 2, lenS])
        chk.ob(rid, 'inner loop admits exactly miscleavage+1 consecutive fragments', repo.loc(f, inner), lo_i == P + 1 and ups_i == want and not pr_i,
               f"the second boundary runs over positions [{lo_i!r}, min{sorted(map(repr, ups_i))}) instead of [{a} + 1, min({a} + miscleavage + 2, len({S})))",
               key=CLEAVE + '::inner-test', fn=f.qual)
    # --- outer domain
    od = sem.counted_loop(n, outer, chains) if elem_form is None else ()
    if elem_form is not None:
        pass
    elif od is None:
        chk.undecided(rid, 'outer loop visits every start site', repo.loc(f, outer), f"the loop `{unparse(outer).splitlines()[0]}` is not a recognised counting loop", key=CLEAVE + '::outer-test', fn=f.qual)
        chk.undecided(rid, 'outer iteration resets end and advances start exactly once', repo.loc(f, outer), 'see outer-test', key=CLEAVE + '::outer-once', fn=f.qual)
    else:
        v, lo, ups, probs = od
        chk.ob(rid, 'outer loop visits every start site', repo.loc(f, outer), v == a and lo == Aff(0) and ups == frozenset([lenS - 1]),
               f"the first boundary index {v} runs over [{lo!r}, min{sorted(map(repr, ups))}) instead of [0, len({S}) - 1): windows starting at some site are never produced "
               "(or a window past the last boundary is read)", key=CLEAVE + '::outer-test', fn=f.qual)
        chk.ob(rid, 'outer iteration advances the first boundary exactly once', repo.loc(f, outer), not probs and not sem.own_exits(outer),
               'outer loop bookkeeping altered: ' + '; '.join(probs + [f"early exit `{norm_stmt(e)}`" for e in sem.own_exits(outer)]), key=CLEAVE + '::outer-once', fn=f.qual)
    # --- inner domain
    idm = sem.counted_loop(n, inner, chains) if elem_form is None else ()
    if elem_form is not None:
        pass
    elif idm is None:
        chk.undecided(rid, 'inner loop admits exactly miscleavage+1 consecutive fragments', repo.loc(f, inner), f"the loop `{unparse(inner).splitlines()[0]}` is not a recognised counting loop", key=CLEAVE + '::inner-test', fn=f.qual)
    else:
        v, lo, ups, probs = idm
        want = frozenset([Aff.sym(a) + Aff.sym('miscleavage') + 2, lenS])
        chk.ob(rid, 'inner loop admits exactly miscleavage+1 consecutive fragments', repo.loc(f, inner),
               v == b and lo == Aff.sym(a) + 1 and ups == want and not probs,
               f"the second boundary index {v} runs over [{lo!r}, min{sorted(map(repr, ups))}) instead of [{a} + 1, min({a} + miscleavage + 2, len({S}))) "
               f"(miscleavage window altered){'; ' + '; '.join(probs) if probs else ''}", key=CLEAVE + '::inner-test', fn=f.qual)
    # --- the local filter function and its calls
    ups_ = [x for x in n.body if isinstance(x, ast.FunctionDef)]
    if len(ups_) != 1:
        raise AnalysisError(f"anchor={CLEAVE}: the local filter function not found")
    U = ups_[0]
    wstmt = win
    while not isinstance(wstmt, ast.stmt):
        wstmt = parent[id(wstmt)]
    W = wstmt.targets[0].id if isinstance(wstmt, ast.Assign) and len(wstmt.targets) == 1 and isinstance(wstmt.targets[0], ast.Name) and wstmt.value is win else None

    def is_win(e):
        return (W is not None and isinstance(e, ast.Name) and e.id == W) or e is win
    whole = [st for st in inner.body if isinstance(st, ast.Expr) and isinstance(st.value, ast.Call) and call_name(st.value) == U.name
             and len(st.value.args) == 1 and is_win(st.value.args[0])]
    nested_whole = [c for c in G.find_calls(inner, U.name) if len(c.args) == 1 and is_win(c.args[0])]
    exits = sem.own_exits(inner)
    guard_lits = set()
    if elem_form is not None:
        # the leading `if <index beyond the miscleavage bound>: break` guards are the loop's bound (already part of its domain), not early exits
        lead = []
        for st_ in inner.body:
            if isinstance(st_, ast.If) and not st_.orelse and len(st_.body) == 1 and isinstance(st_.body[0], ast.Break):
                lead.append(st_)
            else:
                break
        exits = [e for e in exits if not any(e is g_.body[0] for g_ in lead)]
        for g_ in lead:
            guard_lits |= (sem.conj_literals(g_.test, False) or set())
    chk.ob(rid, 'every inner iteration emits the window and advances (no early exit)', repo.loc(f, inner),
           len(whole) == 1 and len(nested_whole) == 1 and not exits and (W is None or wstmt in inner.body),
           'the window loop leaves early or does not hand every window to the digest filter unconditionally: some digestion '
           'products (or their M-removed form) are never considered', key=CLEAVE + '::inner-once', fn=f.qual)
    # --- M removal guard
    def is_mrem(e):
        return isinstance(e, ast.Subscript) and isinstance(e.slice, ast.Slice) and is_win(e.value) and e.slice.upper is None and e.slice.step is None \
            and isinstance(e.slice.lower, ast.Constant) and e.slice.lower.value == 1
    sites = sem.facts_where(n, lambda st: any(len(c.args) == 1 and is_mrem(c.args[0]) for c in sem.calls_in_stmt(st, U.name)))
    ok = False
    detail = 'the N-terminal-methionine-removed form is not guarded by exactly (first fragment, known CDS start, leading M)'
    if len(sites) == 1 and sites[0][1] is not None:
        lits = sem.sure_literals(sites[0][1])
        wn = W or unparse(win)
        need = {sem.lit(f"{a} == 0"), sem.lit('cds_start_nf', False), sem.lit(f"{wn}.seq.startswith('M')")}
        allowed = set()
        for lp_ in (outer, inner):
            if isinstance(lp_, ast.While):
                allowed |= (sem.conj_literals(lp_.test) or set())
        # value facts of locals bound to a display / constant (`peptides = []`) are not conditions
        valued = {t.id for st in ast.walk(n) if isinstance(st, ast.Assign) and isinstance(st.value, (ast.List, ast.Constant, ast.Dict, ast.Set, ast.Tuple))
                  for t in st.targets if isinstance(t, ast.Name)}
        extra = {l for l in lits - need - allowed - guard_lits if l[0] not in valued}
        ok = need <= lits and not extra
        if not ok:
            detail += f": missing {sorted(need - lits)}, additional conditions {sorted(extra)}"
    elif len(sites) != 1:
        detail += f" ({len(sites)} emitting calls of the M-removed form)"
    chk.ob(rid, "M-removed form emitted iff start==0, not cds_start_nf, startswith('M')", repo.loc(f, inner), ok, detail,
           key=CLEAVE + '::m-removal-guard', fn=f.qual)
    # --- boundaries = [0] + cleave sites + [len]
    seq, okS = [], True

    def flat(e):
        if isinstance(e, ast.List):
            return [('elt', unparse(x)) for x in e.elts]
        if isinstance(e, ast.BinOp) and isinstance(e.op, ast.Add):
            return flat(e.left) + flat(e.right)
        return [('seq', e)]
    for st in n.body:
        if st is outer:
            break
        if isinstance(st, ast.Assign) and len(st.targets) == 1 and unparse(st.targets[0]) == S:
            seq = flat(st.value)
        elif isinstance(st, ast.AugAssign) and unparse(st.target) == S and isinstance(st.op, ast.Add):
            seq += flat(st.value)
        elif isinstance(st, ast.Expr) and isinstance(st.value, ast.Call) and isinstance(st.value.func, ast.Attribute) and unparse(st.value.func.value) == S:
            if st.value.func.attr == 'append' and len(st.value.args) == 1:
                seq.append(('elt', unparse(st.value.args[0])))
            elif st.value.func.attr == 'extend' and len(st.value.args) == 1:
                seq += flat(st.value.args[0])
            else:
                okS = False
        elif not isinstance(st, ast.FunctionDef) and any(isinstance(x, ast.Name) and x.id == S and isinstance(x.ctx, ast.Store) for x in ast.walk(st)):
            okS = False
    later_writes = [x for st in [outer] for x in ast.walk(st) if (isinstance(x, ast.Name) and x.id == S and isinstance(x.ctx, ast.Store))
                    or (isinstance(x, ast.Call) and isinstance(x.func, ast.Attribute) and unparse(x.func.value) == S and x.func.attr in ('append', 'extend', 'pop', 'insert', 'remove', 'sort', 'reverse', 'clear'))]
    okS = okS and not later_writes and len(seq) == 3 and seq[0] == ('elt', '0') and seq[2] == ('elt', f'len({me})') and seq[1][0] == 'seq'
    if okS:
        c = seq[1][1]
        okS = isinstance(c, ast.Call) and call_name(c) == 'find_all_enzymatic_cleave_sites' and unparse(c.func.value) == me
        if okS:
            callee = repo.func('aa.AminoAcidSeqRecord:AminoAcidSeqRecord.find_all_enzymatic_cleave_sites')
            cps = [x.arg for x in callee.node.args.args][1:]
            bound = {cps[i]: unparse(x) for i, x in enumerate(c.args) if i < len(cps)}
            bound.update({k.arg: unparse(k.value) for k in c.keywords if k.arg})
            okS = bound.get('rule') == 'rule' and bound.get('exception') == 'exception'
    chk.ob(rid, 'fragment boundaries are 0, every cleave site, len', f.where, okS, 'site list construction altered (boundaries must be [0] + the cleave sites of (rule, exception) + [len])',
           key=CLEAVE + '::sites', fn=f.qual)
    # --- the digest filter
    app = sem.facts_where(U, lambda st: bool([c for c in ast.walk(st) if isinstance(c, ast.Call) and isinstance(c.func, ast.Attribute)
                                             and c.func.attr in ('append', 'add') and len(c.args) == 1 and unparse(c.args[0]) == U.args.args[0].arg]))
    okF = False
    detailF = 'update_peptides filter altered'
    if len(app) == 1 and app[0][1] is not None and len(U.args.args) == 1:
        pn = U.args.args[0].arg
        lits = sem.sure_literals(app[0][1])
        chainsU = sem.block_chains(U)
        # expand flag / weight locals in the literal texts
        exp = set()
        for t, p in lits:
            e = ast.parse(t, mode='eval').body
            e2 = sem.expand_names(U, app[0][0], e, chains=chainsU, allow_calls=('molecular_weight', 'len'))
            c2 = sem.conj_literals(e2, p)
            exp |= c2 if c2 is not None else {sem.lit(unparse(e2), p)}
        mw = f"SeqUtils.molecular_weight({pn}.seq, 'protein')"
        need = {sem.lit(f"'X' in {pn}.seq", False), sem.lit(f"len({pn}.seq) >= min_length"), sem.lit(f"len({pn}.seq) <= max_length")}
        mass = {sem.lit(f"{mw} > min_mw"), sem.lit(f"{mw} >= min_mw")}
        okF = need <= exp and len(exp & mass) == 1 and not (exp - need - mass)
        if not okF:
            detailF += f": accepted under {sorted(exp)}"
    chk.ob(rid, 'digest filter = no X, length within [min,max], mass above min', repo.loc(f, U), okF, detailF, key=CLEAVE + '::filter', fn=f.qual)


def rule_oneshot(chk, repo, rid='C10.f'):
    """R-ONESHOT over the digestion code: exception sites are consulted once per candidate site, so they must be a container."""
    import textwrap
    # positive control: the lint must fire on the canonical bad shape
    bad = ast.parse(textwrap.dedent("""
        def f(rule, exception, seq):
            sites = [] if exception is None else (x.end() for x in re.finditer(exception, seq))
            for it in re.finditer(rule, seq):
                if it.end() not in sites:
                    yield it.end()
    """)).body[0]
    if not G.oneshot_misuse(bad):
        raise AnalysisError('R-ONESHOT positive control did not fire')
    funcs = [f for f in repo.funcs_in('aa', 'dna') if any(isinstance(n, (ast.Compare, ast.For)) for n in ast.walk(f.node))]
    chk.rule(rid, 'R-ONESHOT: no membership test / repeated iteration on a one-shot iterator in the digestion code', 20)
    n_in = 0
    for f in funcs:
        chk.uses(f)
        hits = G.oneshot_misuse(f.node)
        n_in += 1
        chk.ob(rid, f"{f.qual}: site collections are materialised", f.where, not hits,
               '; '.join(f"{repo.loc(f, h[0])}: {h[2]}" for h in hits) +
               ': after the first miss the iterator is exhausted, so later candidates are never recognised (e.g. every trypsin exception site behind the '
               'first ordinary site is cut: forbidden peptides enter the canonical pool, true ones are lost)',
               key=f"{f.qual}::oneshot", fn=f.qual)


def run(chk, repo):
    chk.clauses = [
        'C10.a for every enzyme: site pattern and range pattern denote the same windows on ALL strings (regex-AST set algebra); '
        'core width 1; no string makes zip(sites, ranges) tie or reverse',
        'C10.b the raw --cleavage-exception value never reaches a digestion sink without CleavageParams normalisation; '
        'every literal at a sink is a key of EXPASY_RULES',
        'C10.b2 every function matching `exception` as a regex first resolves the name through EXPASY_RULES',
        'C10.c pool assembly: leading-X strip and first-stop cut dominate the digest; I/L pairing; cds_start_nf threaded',
        'C10.d the six cleavage parameters flow name-to-name from args into the pool construction at all three sites',
        'C10.e enzymatic_cleave emits every window within the miscleavage limit exactly once; M-removal guard',
        'C10.f site / exception-site collections that are tested for membership or re-iterated are materialised (never one-shot iterators)',
    ]
    chk.not_decided = ['that the ExPASy tables transcribe the published rules (no independent copy in the sandbox)',
                       'partition independence of cut sites inside the graphs (lookaround across node boundaries)']
    rule_rx(chk, repo)
    rule_taint(chk, repo)
    rule_pool_shape(chk, repo)
    rule_thread(chk, repo)
    from rules.shared import no_stale_loop_locals
    chk.clauses.append('C10.h (R-FRESH) in create_unique_peptide_pool every per-protein local (cds_start_nf, tx_id, stop_site ...) is assigned for THIS protein before it is read: no protein is digested with the flag of the previous one')
    no_stale_loop_locals(chk, repo, 'C10.h', POOL, lambda l: isinstance(l, ast.While) or (isinstance(l, ast.For) and 'values()' in unparse(l.iter)), 'the protein loop of create_unique_peptide_pool')
    rule_cleave(chk, repo)
    rule_oneshot(chk, repo)
    # ------------------------------------------------------------------ shared: option plumbing by name
    from rules.shared import optname
    chk.clauses.append('C10.g (shared R-THREAD) an option value bound to a name that is itself a CLI option carries that very option')
    optname(chk, repo, 'C10.g', ['cli.generate_index', 'cli.update_index'], floor=0)
    from rules.shared import kwname
    chk.clauses.append('C10.kw (shared R-THREAD) parameters handed on as keyword arguments keep their name: no `a=b` between two parameters of one function')
    kwname(chk, repo, 'C10.kw', ['aa.AminoAcidSeqRecord', 'aa.AminoAcidSeqDict', 'cli.generate_index', 'cli.update_index'], floor=0)

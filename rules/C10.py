"""C10 - canonical pool = exact in-silico digest.

a R-RX     site table vs range table: same windows for all strings; pairing safety
b R-TAINT  raw --cleavage-exception never reaches a digestion sink; sink literals in table
b2 R-SIBLING every regex use of `exception` is preceded by the name->regex resolution
c shape of create_unique_peptide_pool  (X strip, first-stop cut, I/L pairing, cds_start_nf)
d R-THREAD six cleavage parameters flow name-to-name into the pool construction
e R-ONCE   enzymatic_cleave considers every window within the miscleavage limit
"""
import ast
from sa.model import unparse, norm_stmt, call_name, kwarg, walk_no_nested, AnalysisError, str_consts
from sa.cfg import CFG, iteration_paths
from sa import guards as G
from sa import rx, flow

POOL = 'aa.AminoAcidSeqDict:AminoAcidSeqDict.create_unique_peptide_pool'
CLEAVE = 'aa.AminoAcidSeqRecord:AminoAcidSeqRecord.enzymatic_cleave'
SANITISER = 'CleavageParams'
SIX = ['rule', 'exception', 'miscleavage', 'min_mw', 'min_length', 'max_length']


def table(repo, name):
    node = repo.const('aa.expasy_rules', name)
    if not isinstance(node, ast.Dict):
        raise AnalysisError(f"anchor=aa.expasy_rules:{name} is not a dict literal")
    out = {}
    for k, v in zip(node.keys, node.values):
        try:
            out[ast.literal_eval(k)] = ast.literal_eval(v)
        except Exception as e:      # pylint: disable=broad-except
            raise AnalysisError(f"anchor=aa.expasy_rules:{name}: non-literal entry {unparse(k)}") from e
    return out, node


def rule_rx(chk, repo):
    chk.rule('C10.a', 'R-RX: site and range tables denote the same windows; zip(sites, ranges) pairing is safe', 36 * 3)
    R1, n1 = table(repo, 'EXPASY_RULES')
    R2, _ = table(repo, 'EXPASY_RULES2')
    where = f"moPepGen/aa/expasy_rules.py:{n1.lineno}"
    chk.ob('C10.a', 'both tables define the same enzymes', where, set(R1) == set(R2),
           f"keys differ: only in EXPASY_RULES {sorted(set(R1) - set(R2))}, only in EXPASY_RULES2 {sorted(set(R2) - set(R1))}",
           key='aa.expasy_rules::keys')
    n_pairs = 0
    for k in sorted(set(R1) & set(R2)):
        try:
            alts1 = [rx.site_alt(a) for a in rx.alternatives(R1[k])]
            alts2 = [rx.range_alt(a) for a in rx.alternatives(R2[k])]
        except rx.RxError as e:
            chk.ob('C10.a', f'{k}: patterns are finite-window', where, False, f"{k}: {e}", key=f'aa.expasy_rules::{k}::shape')
            continue
        # (ii) core width 1
        chk.ob('C10.a', f'{k}: core width is 1 in every alternative', where, all(len(c) == 1 for (_lb, c, _la) in alts1),
               f"{k}: a cut-site alternative consumes {[len(c) for (_l, c, _a) in alts1]} residues; finditer would skip overlapping sites",
               key=f'aa.expasy_rules::{k}::core-width')
        # (i) flatten equality
        flat = [lb + c + la for (lb, c, la) in alts1]
        ok = len(flat) == len(alts2) and all(a == b for a, b in zip(flat, alts2))
        detail = ''
        if not ok:
            detail = f"{k}: site rule windows {[''.join(rx.show(c) for c in f) for f in flat]} != range rule windows " \
                     f"{[''.join(rx.show(c) for c in f) for f in alts2]}"
        chk.ob('C10.a', f'{k}: flattened site rule == range rule (alternative-wise)', where, ok, detail,
               key=f'aa.expasy_rules::{k}::windows')
        # (iii) pairing safety
        conflicts = []
        for i, (lbi, ci, lai) in enumerate(alts1):
            for j, (lbj, cj, laj) in enumerate(alts1):
                if i == j or len(lbi) <= len(lbj):
                    continue
                d = len(lbi) - len(lbj)
                wi, wj = lbi + ci + lai, lbj + cj + laj
                for delta in range(0, d + 1):
                    n_pairs += 1
                    # alt i core at absolute p=0 -> window starts at -len(lbi); alt j core at -delta
                    if rx.overlap_satisfiable(wi, -len(lbi), wj, -delta - len(lbj)):
                        conflicts.append((i, j, delta))
        chk.ob('C10.a', f'{k}: no string ties/reverses range starts of two sites', where, not conflicts,
               f"{k}: alternatives (i,j,site distance) {conflicts} can match together with lookbehind widths that make the "
               "range list shorter than / ordered differently from the site list (ValueError or mispaired ranges)",
               key=f'aa.expasy_rules::{k}::pairing')
    chk.extra['rx_overlap_windows_checked'] = n_pairs
    # choices derived from the table
    ca = repo.func('cli.common:add_args_cleavage')
    chk.uses(ca)
    ch = [kwarg(c, 'choices') for c in G.find_calls(ca.node, 'add_argument') if any(isinstance(a, ast.Constant) and a.value == '--cleavage-rule' for a in c.args)]
    chk.ob('C10.a', '--cleavage-rule choices are the table keys', ca.where,
           len(ch) == 1 and ch[0] is not None and unparse(ch[0]) == 'list(EXPASY_RULES.keys())',
           '--cleavage-rule choices are not derived from EXPASY_RULES', key='cli.common:add_args_cleavage::choices', fn=ca.qual)


def sink_functions(repo):
    """package functions (non-util) that take a parameter named `exception`."""
    out = {}
    for f in repo.funcs_in():
        if f.module.modname in ('fake',):
            continue
        if 'exception' in f.params():
            out.setdefault(f.name, []).append(f)
    return out


def rule_taint(chk, repo):
    chk.rule('C10.b', 'R-TAINT: no raw source reaches an `exception` sink; literals at sinks are table members', 30)
    R1, _ = table(repo, 'EXPASY_RULES')
    sinks = sink_functions(repo)
    n_sites = 0
    for f in repo.funcs_in():
        if f.module.modname == 'fake':
            continue
        for c in G.find_calls(f.node, nested=False):
            nm = call_name(c)
            arg = kwarg(c, 'exception')
            if arg is None and nm in sinks and nm != SANITISER:
                # positional
                cands = sinks[nm]
                ps = cands[0].params()
                if ps and ps[0] in ('self', 'cls'):
                    ps = ps[1:]
                pos = ps.index('exception')
                if pos < len(c.args) and not any(isinstance(a, ast.Starred) for a in c.args):
                    arg = c.args[pos]
            if arg is None:
                continue
            if nm not in sinks and nm != SANITISER:
                continue
            n_sites += 1
            chk.call_sites += 1
            kind, info = flow.classify(f, arg)
            inst = f"{f.qual}: {nm}(exception={unparse(arg)})"
            key = f"{f.qual}::{nm}::exception={unparse(arg)}"
            if nm == SANITISER:
                chk.ob('C10.b', inst + ' [sanitiser]', repo.loc(f, c), kind != 'unknown',
                       f"cannot classify the value normalised by CleavageParams: {info}", key=key, fn=f.qual)
                continue
            if kind == 'tainted':
                chk.ob('C10.b', inst, repo.loc(f, c), False,
                       f"raw CLI value {info} reaches digestion sink {nm}() without passing through CleavageParams: the default "
                       "'auto' is used as a literal regex (no exception sites)", key=key, fn=f.qual)
            elif kind == 'literal':
                bad = [v for v in info if v is not None and v not in R1]
                chk.ob('C10.b', inst, repo.loc(f, c), not bad,
                       f"exception literal(s) {bad} are not keys of EXPASY_RULES; an unknown name is used as a literal regex "
                       "that never matches", key=key, fn=f.qual)
            elif kind in ('clean', 'param'):
                chk.ob('C10.b', inst, repo.loc(f, c), True, fn=f.qual)
            else:
                chk.ob('C10.b', inst, repo.loc(f, c), False, f"UNCLASSIFIED-USE: cannot establish provenance of {info}", key=key, fn=f.qual)
    chk.extra['exception_call_sites'] = n_sites
    # sanitiser contract
    init = repo.func('params:CleavageParams.__init__')
    chk.uses(init)
    ok = False
    for n in walk_no_nested(init.node):
        if isinstance(n, ast.If) and unparse(n.test) == "self.exception == 'auto'":
            txt = unparse(n)
            ok = "self.exception = 'trypsin_exception'" in txt and 'self.exception = None' in txt and "enzyme == 'trypsin'" in txt
    chk.ob('C10.b', "sanitiser maps 'auto' to trypsin_exception / None", init.where, ok,
           "CleavageParams.__init__ no longer normalises exception='auto'", key='params:CleavageParams.__init__::auto', fn=init.qual)
    # the CLI default is a value the sanitiser handles
    ca = repo.func('cli.common:add_args_cleavage')
    d = [kwarg(c, 'default') for c in G.find_calls(ca.node, 'add_argument') if any(isinstance(a, ast.Constant) and a.value == '--cleavage-exception' for a in c.args)]
    chk.ob('C10.b', "--cleavage-exception default is 'auto' or a table member", ca.where,
           len(d) == 1 and isinstance(d[0], ast.Constant) and (d[0].value in ('auto', None) or d[0].value in R1),
           '--cleavage-exception default is not handled by the sanitiser', key='cli.common:add_args_cleavage::exception-default', fn=ca.qual)

    chk.rule('C10.b2', 'R-SIBLING: every regex use of `exception` follows the name->regex resolution EXPASY_RULES.get', 5)
    for f in repo.funcs_in():
        if 'exception' not in f.params() or f.module.modname == 'fake':
            continue
        uses = [c for c in G.find_calls(f.node, nested=False)
                if call_name(c) in ('finditer', 'compile', 'search', 'match', 'findall') and c.args and unparse(c.args[0]) == 'exception']
        if not uses:
            continue
        cfg = CFG(f.node)
        res = [n.id for n in cfg.nodes if n.kind == 'stmt' and isinstance(n.ast, ast.Assign)
               and unparse(n.ast.targets[0]) == 'exception' and unparse(n.ast.value) == 'EXPASY_RULES.get(exception, exception)']
        for u in uses:
            site = cfg.node_for(repo.enclosing_stmt(u))
            ok = any(cfg.dominates(r, site) for r in res)
            chk.ob('C10.b2', f"{f.qual}: {unparse(u)[:50]}", repo.loc(f, u), ok,
                   f"{f.name}() matches the exception *name* as a regex without resolving it through EXPASY_RULES "
                   "(its siblings do): 'trypsin_exception' never matches, so no exception site is ever found",
                   key=f"{f.qual}::unresolved-exception-regex", fn=f.qual)


def rule_pool_shape(chk, repo):
    chk.rule('C10.c', 'shape of create_unique_peptide_pool: X strip, first-stop cut, I/L pairing, cds_start_nf threading', 6)
    f = repo.func(POOL)
    chk.uses(f)
    cfg = CFG(f.node)
    calls = G.find_calls(f.node, 'enzymatic_cleave')
    if len(calls) != 1:
        raise AnalysisError(f"anchor={POOL}: enzymatic_cleave call not found")
    site = cfg.node_for(repo.enclosing_stmt(calls[0]))
    nodes = {norm_stmt(n.ast): n.id for n in cfg.nodes if n.kind == 'stmt'}
    tests = {unparse(n.ast): n.id for n in cfg.nodes if n.kind == 'test'}
    # leading X strip
    t = tests.get("protein.seq.startswith('X')")
    s = nodes.get("protein.seq = protein.seq.lstrip('X')")
    ok = t is not None and s is not None and cfg.dominates(t, site) and cfg.edge_dominates(t, 'T', s)
    chk.ob('C10.c', 'leading X stripped before digestion', f.where, ok, "leading-X strip does not precede the digest", key=POOL + '::x-strip', fn=f.qual)
    # first stop cut
    a = nodes.get("stop_site = protein.seq.find('*')")
    t2 = tests.get('stop_site > -1')
    c = nodes.get('protein = protein[:stop_site]')
    ok = None not in (a, t2, c) and cfg.dominates(a, site) and cfg.dominates(t2, site) and cfg.edge_dominates(t2, 'T', c)
    chk.ob('C10.c', 'sequence cut at the first stop before digestion', f.where, ok,
           "the proteome sequence is not cut at the first '*' before the digest", key=POOL + '::stop-cut', fn=f.qual)
    # cds_start_nf from the annotation, threaded
    k = kwarg(calls[0], 'cds_start_nf')
    # every value that can reach the cds_start_nf argument: the annotation's flag of THIS protein's transcript, or False when the
    # transcript is not annotated (names resolved through their nearest definitions)
    from sa import sem
    binds = []
    if k is not None:
        if isinstance(k, ast.Name):
            for n in walk_no_nested(f.node):
                if isinstance(n, ast.Assign) and len(n.targets) == 1 and unparse(n.targets[0]) == k.id:
                    binds.append(unparse(sem.expand_names(f.node, n, n.value)))
        else:
            binds.append(unparse(sem.expand_names(f.node, repo.enclosing_stmt(calls[0]), k)))
    want_b = {'False', 'anno.transcripts[protein.transcript_id].is_cds_start_nf()'}
    ok = k is not None and set(binds) == want_b
    chk.ob('C10.c', 'cds_start_nf read from the annotation and passed to enzymatic_cleave', repo.loc(f, calls[0]), ok,
           f"cds_start_nf bindings {binds}, passed {unparse(k) if k is not None else None}", key=POOL + '::cds_start_nf', fn=f.qual)
    # six parameters name-to-name
    for p in SIX[2:] + ['rule', 'exception']:
        v = kwarg(calls[0], p)
        chk.ob('C10.c', f'enzymatic_cleave({p}={p})', repo.loc(f, calls[0]), v is not None and unparse(v) == p,
               f"enzymatic_cleave receives {p}={unparse(v) if v is not None else 'missing'}", key=POOL + f'::arg::{p}', fn=f.qual)
        w = [x for x in G.writes_in(f.node.body) if x[0] == p]
        if w:
            chk.ob('C10.c', f'{p} not rebound in the pool builder', repo.loc(f, w[0][2]), False, f"{p} is rebound: {norm_stmt(w[0][2])}",
                   key=POOL + f'::rebinding::{p}', fn=f.qual)
    # I/L pairing
    adds = [c for c in G.find_calls(f.node, 'add') if unparse(c.func.value) == 'pool']
    texts = sorted(unparse(c.args[0]) for c in adds)
    ok = len(adds) == 2 and texts == sorted(['str(peptide.seq)', "str(peptide.seq).replace('I', 'L')"])
    if ok:
        st = [repo.enclosing_stmt(c) for c in adds]
        blk_ok = repo.parent(st[0]) is repo.parent(st[1]) and isinstance(repo.parent(st[0]), ast.For) and \
            unparse(repo.parent(st[0]).iter) == 'peptides'
        ok = blk_ok
    chk.ob('C10.c', 'each peptide is added together with its I->L image', f.where, ok,
           f"pool.add calls {texts} are not the peptide and its I->L image added for every digested peptide", key=POOL + '::il-pairing', fn=f.qual)
    # returns the pool
    rets = [n for n in walk_no_nested(f.node) if isinstance(n, ast.Return)]
    chk.ob('C10.c', 'returns the assembled pool', f.where, len(rets) == 1 and unparse(rets[0].value) == 'pool', 'pool not returned', key=POOL + '::return', fn=f.qual)
    # every protein is digested: loop advances only via next(it) after adding, or `continue` after trimming at X
    loop = [n for n in walk_no_nested(f.node) if isinstance(n, ast.While)]
    ok = len(loop) == 1 and unparse(loop[0].test) == 'protein'
    if ok:
        ps = iteration_paths(cfg, loop[0], max_paths=5000)
        chk.paths += len(ps)
        for p in ps:
            if p.end_kind() in ('back', 'continue'):
                adv = p.count(lambda n: n.kind == 'stmt' and norm_stmt(n.ast) == 'protein = next(it, None)')
                trimmed = p.count(lambda n: n.kind == 'stmt' and norm_stmt(n.ast) == "protein.seq = protein.seq.split('X')[0]")
                digested = p.count(lambda n: n.kind == 'iter' and unparse(n.ast.iter) == 'peptides')
                if not ((adv == 1 and digested >= 1) or (adv == 0 and trimmed == 1)):
                    ok = False
    chk.ob('C10.c', 'every proteome entry is digested (advance only after its peptides were added)', f.where, ok,
           'a path advances to the next protein without adding the peptides of the current one', key=POOL + '::every-protein', fn=f.qual)


def rule_thread(chk, repo, rid='C10.d', quals=('cli.generate_index:generate_index', 'cli.update_index:update_index',
                                              'cli.common:load_references')):
    chk.rule(rid, 'R-THREAD: cleavage parameters flow name-to-name from args into create_unique_peptide_pool', 6 * len(quals))
    src_attr = {'rule': 'cleavage_rule', 'miscleavage': 'miscleavage', 'min_mw': 'min_mw',
                'min_length': 'min_length', 'max_length': 'max_length'}
    for q in quals:
        f = repo.func(q)
        chk.uses(f)
        calls = G.find_calls(f.node, 'create_unique_peptide_pool')
        if len(calls) != 1:
            raise AnalysisError(f"anchor={q}: create_unique_peptide_pool call not found")
        c = calls[0]
        for p in SIX:
            v = kwarg(c, p)
            if p == 'exception':
                ok = v is not None and flow.classify(f, v)[0] == 'clean'
                detail = f"exception argument {unparse(v) if v is not None else 'missing'} is not the normalised CleavageParams value"
            else:
                ok = False
                detail = f"{p} argument {unparse(v) if v is not None else 'missing'}"
                if v is not None:
                    e = v
                    if isinstance(e, ast.Name):
                        r = G.resolve_local(f.node, e.id)
                        e = r if r is not None else e
                    txt = unparse(e)
                    want = f"args.{src_attr[p]}"
                    ok = txt in (want, f"int({want})", f"float({want})") or txt == f"cleavage_params.{'enzyme' if p == 'rule' else p}"
                    detail = f"{p} is bound to '{txt}', expected {want} (possibly int()/float()) - a swapped or constant parameter " \
                             "makes the pool a digest under other settings than requested"
            chk.ob(rid, f"{f.name}: create_unique_peptide_pool({p}=...)", repo.loc(f, c), ok, detail, key=f"{q}::pool-arg::{p}", fn=f.qual)
        a = kwarg(c, 'anno')
        chk.ob(rid, f"{f.name}: create_unique_peptide_pool(anno=anno)", repo.loc(f, c), a is not None and unparse(a) == 'anno',
               'annotation not passed (cds_start_NF lost)', key=f"{q}::pool-arg::anno", fn=f.qual)


def rule_cleave(chk, repo, rid='C10.e'):
    chk.rule(rid, 'R-ONCE: enzymatic_cleave emits every window within the miscleavage limit; M-removal guard', 7)
    f = repo.func(CLEAVE)
    chk.uses(f)
    cfg = CFG(f.node)
    rel = f.module.relpath
    whiles = [n for n in walk_no_nested(f.node) if isinstance(n, ast.While)]
    if len(whiles) != 2:
        raise AnalysisError(f"anchor={CLEAVE}: expected outer/inner while loops")
    outer, inner = whiles[0], whiles[1]
    if inner.lineno < outer.lineno:
        outer, inner = inner, outer
    chk.ob(rid, 'outer loop visits every start site', repo.loc(f, outer), unparse(outer.test) == 'start < len(sites) - 1',
           f"outer loop test is '{unparse(outer.test)}'", key=CLEAVE + '::outer-test', fn=f.qual)
    t = unparse(inner.test).replace(' ', '')
    chk.ob(rid, 'inner loop admits exactly miscleavage+1 consecutive fragments', repo.loc(f, inner),
           t in ('end-start-1<=miscleavageandend<len(sites)', 'end<len(sites)andend-start-1<=miscleavage'),
           f"inner loop test is '{unparse(inner.test)}' (miscleavage window altered)", key=CLEAVE + '::inner-test', fn=f.qual)
    ps = iteration_paths(cfg, inner, max_paths=2000)
    chk.paths += len(ps)
    bad = None
    for p in ps:
        once = p.count(lambda n: n.kind == 'stmt' and norm_stmt(n.ast) == 'update_peptides(peptide)')
        adv = p.count(lambda n: n.kind == 'stmt' and norm_stmt(n.ast) == 'end += 1')
        if p.end_kind() != 'back' or once != 1 or adv != 1:
            bad = bad or p
    chk.ob(rid, 'every inner iteration emits the window and advances (no early exit)', repo.loc(f, inner), bad is None,
           'an iteration path of the window loop leaves early or skips update_peptides(peptide)/end += 1: some digestion '
           'products (or their M-removed form) are never considered', key=CLEAVE + '::inner-once',
           path=bad.describe(rel) if bad else None, fn=f.qual)
    ps2 = iteration_paths(cfg, outer, loop_bound=1, max_paths=5000)
    bad2 = [p for p in ps2 if p.end_kind() != 'back' or p.count(lambda n: n.kind == 'stmt' and norm_stmt(n.ast) == 'start += 1') != 1
            or p.count(lambda n: n.kind == 'stmt' and norm_stmt(n.ast) == 'end = start + 1') != 1]
    chk.ob(rid, 'outer iteration resets end and advances start exactly once', repo.loc(f, outer), not bad2,
           'outer loop bookkeeping altered', key=CLEAVE + '::outer-once', path=bad2[0].describe(rel) if bad2 else None, fn=f.qual)
    # M removal guard
    mcalls = [c for c in G.find_calls(inner, 'update_peptides') if unparse(c.args[0]) == 'peptide[1:]']
    ok = False
    if len(mcalls) == 1:
        site = cfg.node_for(repo.enclosing_stmt(mcalls[0]))
        fx = G.facts_at(cfg, site)
        ok = fx.get('0 == start') is True and fx.get('cds_start_nf') is False and fx.get("peptide.seq.startswith('M')") is True
        ok = ok and len([k for k in fx if k not in ('0 == start', 'cds_start_nf', "peptide.seq.startswith('M')",
                                                    'start < len(sites) - 1', 'end - start - 1 <= miscleavage', 'end < len(sites)')]) == 0
    chk.ob(rid, "M-removed form emitted iff start==0, not cds_start_nf, startswith('M')", repo.loc(f, inner), ok,
           'the N-terminal-methionine-removed form is not guarded by exactly (first fragment, known CDS start, leading M)',
           key=CLEAVE + '::m-removal-guard', fn=f.qual)
    # sites = [0] + cleave sites + [len]
    txt = [norm_stmt(s) for s in f.node.body if not isinstance(s, (ast.FunctionDef, ast.While, ast.Expr)) or isinstance(s, ast.Expr)]
    ok = 'sites = [0]' in txt and 'sites.append(len(self))' in txt and \
        any(t.startswith('sites += self.find_all_enzymatic_cleave_sites(rule=rule, exception=exception)') for t in txt)
    chk.ob(rid, 'fragment boundaries are 0, every cleave site, len', f.where, ok, 'site list construction altered',
           key=CLEAVE + '::sites', fn=f.qual)
    # filter inside update_peptides
    up = [n for n in walk_no_nested(f.node) if isinstance(n, ast.FunctionDef) and n.name == 'update_peptides']
    ok = False
    if up:
        t = unparse(up[0])
        ok = "if 'X' in peptide.seq:\n        return" in t and 'len(peptide.seq) >= min_length' in t and \
            'len(peptide.seq) <= max_length' in t and ('mol_wt > min_mw' in t or 'mol_wt >= min_mw' in t) and \
            'if weight_flag and length_flag:\n        peptides.append(peptide)' in t
    chk.ob(rid, 'digest filter = no X, length within [min,max], mass above min', repo.loc(f, up[0]) if up else f.where, ok,
           'update_peptides filter altered', key=CLEAVE + '::filter', fn=f.qual)


def rule_oneshot(chk, repo, rid='C10.f'):
    """R-ONESHOT over the digestion code: exception sites are consulted once per candidate site, so they must be a container."""
    import textwrap
    # positive control: the lint must fire on the canonical bad shape
    bad = ast.parse(textwrap.dedent("""
        def f(rule, exception, seq):
            sites = [] if exception is None else (x.end() for x in re.finditer(exception, seq))
            for it in re.finditer(rule, seq):
                if it.end() not in sites:
                    yield it.end()
    """)).body[0]
    if not G.oneshot_misuse(bad):
        raise AnalysisError('R-ONESHOT positive control did not fire')
    funcs = [f for f in repo.funcs_in('aa', 'dna') if any(isinstance(n, (ast.Compare, ast.For)) for n in ast.walk(f.node))]
    chk.rule(rid, 'R-ONESHOT: no membership test / repeated iteration on a one-shot iterator in the digestion code', 20)
    n_in = 0
    for f in funcs:
        chk.uses(f)
        hits = G.oneshot_misuse(f.node)
        n_in += 1
        chk.ob(rid, f"{f.qual}: site collections are materialised", f.where, not hits,
               '; '.join(f"{repo.loc(f, h[0])}: {h[2]}" for h in hits) +
               ': after the first miss the iterator is exhausted, so later candidates are never recognised (e.g. every trypsin exception site behind the '
               'first ordinary site is cut: forbidden peptides enter the canonical pool, true ones are lost)',
               key=f"{f.qual}::oneshot", fn=f.qual)


def run(chk, repo):
    chk.clauses = [
        'C10.a for every enzyme: site pattern and range pattern denote the same windows on ALL strings (regex-AST set algebra); '
        'core width 1; no string makes zip(sites, ranges) tie or reverse',
        'C10.b the raw --cleavage-exception value never reaches a digestion sink without CleavageParams normalisation; '
        'every literal at a sink is a key of EXPASY_RULES',
        'C10.b2 every function matching `exception` as a regex first resolves the name through EXPASY_RULES',
        'C10.c pool assembly: leading-X strip and first-stop cut dominate the digest; I/L pairing; cds_start_nf threaded',
        'C10.d the six cleavage parameters flow name-to-name from args into the pool construction at all three sites',
        'C10.e enzymatic_cleave emits every window within the miscleavage limit exactly once; M-removal guard',
        'C10.f site / exception-site collections that are tested for membership or re-iterated are materialised (never one-shot iterators)',
    ]
    chk.not_decided = ['that the ExPASy tables transcribe the published rules (no independent copy in the sandbox)',
                       'partition independence of cut sites inside the graphs (lookaround across node boundaries)']
    rule_rx(chk, repo)
    rule_taint(chk, repo)
    rule_pool_shape(chk, repo)
    rule_thread(chk, repo)
    rule_cleave(chk, repo)
    rule_oneshot(chk, repo)
    # ------------------------------------------------------------------ shared: option plumbing by name
    from rules.shared import optname
    chk.clauses.append('C10.g (shared R-THREAD) an option value bound to a name that is itself a CLI option carries that very option')
    optname(chk, repo, 'C10.g', ['cli.generate_index', 'cli.update_index'], floor=0)
    from rules.shared import kwname
    chk.clauses.append('C10.kw (shared R-THREAD) parameters handed on as keyword arguments keep their name: no `a=b` between two parameters of one function')
    kwname(chk, repo, 'C10.kw', ['aa.AminoAcidSeqRecord', 'aa.AminoAcidSeqDict', 'cli.generate_index', 'cli.update_index'], floor=0)
